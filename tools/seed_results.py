#!/usr/bin/env python3
"""Writes seeded/RESULTS.md from seeded/*/meta.json (confirmation + check runs)."""
import json, glob, os
V = os.path.dirname(os.path.dirname(os.path.abspath(__file__)))
first_missed = set(json.load(open(os.path.join(V, "seeded", "first_missed.json"))))
rows = []
for f in sorted(glob.glob(os.path.join(V, "seeded", "*", "meta.json"))):
    d = json.load(open(f)); sid = os.path.basename(os.path.dirname(f))
    conf = d.get("coordinator_confirmed")
    confirmed = conf.get("confirmed") if isinstance(conf, dict) else bool(conf)
    runs = d.get("check_runs", [])
    if runs:
        last = runs[-1]
        res = ("caught, concrete replay" if last.get("with_replay") else "caught, no-failing-input-found") if last.get("caught") else "MISSED"
        if last.get("caught") and (sid in first_missed or (len(runs) > 1 and not runs[0].get("caught"))):
            res += " (MISSED by the first version of the check; caught after the generator/oracle was strengthened)"
    else:
        res = d.get("check_result", "not run yet")
        if sid in first_missed and "MISSED" not in res:
            res = "MISSED by the first version of the check; " + res
    summ = (d.get("summary") or "").replace("\n", " ")
    rows.append("| %s | %s | %s | %s | %s |" % (sid, d.get("property"), summ[:220], "yes" if confirmed else "no", res[:160]))
out = ["# Seeded breaking changes", "",
       "Written by fresh sub-agents that saw only the property text and a scratch worktree of the repository (nothing from /verif).",
       "`confirmed` = tools/confirm_seed.py or seedtest --demo: demo passes without the patch, patch applies, existing tests of the touched crates pass with it, demo fails with it.",
       "`result` = `tools/seedtest.py seeded/<id>` (quick tier of the property's check against a scratch worktree with the patch).", "",
       "| id | property | change | confirmed | result |", "|---|---|---|---|---|"] + rows
open(os.path.join(V, "seeded", "RESULTS.md"), "w").write("\n".join(out) + "\n")
print(len(rows), "rows;", sum("MISSED" in r for r in rows), "missed;", sum("not run" in r for r in rows), "not run")
