#!/bin/sh
# tools/round2.sh <Cxx> <n> <src-dir> : take an independently written breaking change into seeded/<Cxx>-m<n>,
# confirm it (tools/confirm_seed.py) and run the property's quick check against it (tools/seedtest.py).
set -u
P=$1; N=$2; SRC=$3
V=$(cd "$(dirname "$0")/.." && pwd)
D=$V/seeded/$P-m$N
mkdir -p "$D"
cp "$SRC/patch.diff" "$SRC/demo.rs" "$SRC/meta.json" "$D/"
CR=$(python3 -c "import json;print(json.load(open('$D/meta.json'))['crates'].replace(' ',''))")
# one confirmation at a time: concurrent confirmations sharing the target directory reported demos as passing with the patch (round 2)
CONFIRM_TARGET=/tmp/confirm-target CONFIRM_TAG=-$P-m$N flock /tmp/confirm-seed.lock python3 "$V/tools/confirm_seed.py" "$CR" "$D" || exit 2
python3 -c "import json,sys;sys.exit(0 if json.load(open('$D/meta.json'))['coordinator_confirmed']['confirmed'] else 1)" || { echo "$P-m$N NOT CONFIRMED"; exit 3; }
python3 "$V/tools/seedtest.py" "$D"
