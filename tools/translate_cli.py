#!/usr/bin/env python3
"""
Translator for the command-line interface (C19).

    python3 tools/translate_cli.py --repo $WACV_REPO

Reads the clap attributes of the `#[derive(Args)]` structs in src/commands/{compose,plug,targets,
parse,resolve}.rs, the sub-command enum of src/bin/wac.rs and the `EncodeOptions { … }` literals
of the `exec` functions, and writes lean/WacModel/Generated/CliFlags.lean:

    flags          one `FlagSpec` per field: command, field, long name, short name, takes a value,
                   may repeat, required, default value, cargo feature guarding it
    subcommands    the variants of `enum Wac`
    encodeOptions  per command, how each `EncodeOptions` field is computed from a flag
                   (field, flag, negated) — or `default` when `EncodeOptions::default()` is used

Self-checks (exit code 1 when one fails): every `#[clap(…)]` attribute inside a command struct is
attached to a field and every key inside it is one this reader understands; every command file has
a struct; compose.rs has an `EncodeOptions` literal whose fields all have the shape
`name: [!]self.flag`.
"""
import os
import re
import sys

VERIF = os.path.dirname(os.path.dirname(os.path.abspath(__file__)))

COMMANDS = ["compose", "plug", "targets", "parse", "resolve"]
KNOWN_KEYS = {"long", "short", "value_name", "default_value", "value_parser", "required", "disable_version_flag"}


def lean_str(s):
    return '"' + s.replace("\\", "\\\\").replace('"', '\\"') + '"'


def opt(s, f=lean_str):
    return "none" if s is None else "(some %s)" % f(s)


def split_top(s):
    """split at commas that are not nested in <>, () or quotes"""
    out, depth, cur, q = [], 0, "", False
    for c in s:
        if c == '"':
            q = not q
        if not q:
            if c in "<(":
                depth += 1
            elif c in ">)":
                depth -= 1
            elif c == "," and depth == 0:
                out.append(cur.strip())
                cur = ""
                continue
        cur += c
    if cur.strip():
        out.append(cur.strip())
    return out


def parse_struct(cmd, src, problems):
    m = re.search(r"#\[derive\(Args\)\]\s*(?:#\[clap\(([^\]]*)\)\]\s*)?pub struct (\w+)\s*\{(.*?)\n\}", src, re.S)
    if not m:
        problems.append("%s.rs: no #[derive(Args)] struct" % cmd)
        return []
    body = m.group(3)
    n_attr_total = len(re.findall(r"#\[clap\(", body))
    fields = []
    # a field: doc comments, optional cfg, optional clap attribute, `pub name: Type,`
    pat = re.compile(
        r"((?:\s*///[^\n]*\n)*)\s*(?:#\[cfg\(feature = \"(\w+)\"\)\]\s*)?(?:#\[clap\((.*?)\)\]\s*)?pub (\w+): ([^\n]+?),\s*\n", re.S)
    n_attr_seen = 0
    for fm in pat.finditer(body + "\n"):
        doc, feature, attr, name, ty = fm.groups()
        keys = {}
        if attr is not None:
            n_attr_seen += 1
            for item in split_top(attr):
                if "=" in item:
                    k, v = item.split("=", 1)
                    keys[k.strip()] = v.strip()
                else:
                    keys[item.strip()] = None
            for k in keys:
                if k not in KNOWN_KEYS:
                    problems.append("%s.rs: field %s: unknown clap key `%s`" % (cmd, name, k))
        ty = ty.strip()
        is_flag = ty == "bool"
        positional = "long" not in keys and "short" not in keys
        long = None
        if "long" in keys:
            long = keys["long"].strip('"') if keys["long"] else name.replace("_", "-")
        short = None
        if "short" in keys:
            short = keys["short"].strip("'") if keys["short"] else name[0]
        multiple = ty.startswith("Vec<")
        optional = ty.startswith("Option<")
        default = keys["default_value"].strip('"') if keys.get("default_value") else None
        required = (keys.get("required") == "true") or (not is_flag and not optional and not multiple and default is None)
        fields.append({
            "command": cmd, "field": name, "long": long, "short": short, "takes_value": not is_flag,
            "multiple": multiple, "required": required, "default": default, "feature": feature,
            "positional": positional, "value_name": keys.get("value_name", "").strip('"') or None,
            "doc": " ".join(l.strip()[3:].strip() for l in doc.strip().splitlines() if l.strip().startswith("///")),
        })
    if n_attr_seen != n_attr_total:
        problems.append("%s.rs: %d of %d #[clap] attributes attached to fields" % (cmd, n_attr_seen, n_attr_total))
    return fields


def parse_encode_options(cmd, src, problems):
    """[(option field, flag field, negated)] or 'default' or None (command does not encode)"""
    if "EncodeOptions" not in src:
        return None
    m = re.search(r"EncodeOptions\s*\{(.*?)\}", src, re.S)
    if not m:
        if re.search(r"EncodeOptions::default\(\)", src):
            return "default"
        problems.append("%s.rs: EncodeOptions used in a shape this reader does not understand" % cmd)
        return None
    out = []
    for item in split_top(m.group(1)):
        item = item.strip()
        if not item or item.startswith(".."):
            continue
        fm = re.fullmatch(r"(\w+):\s*(!?)\s*self\.(\w+)", item)
        if not fm:
            problems.append("%s.rs: EncodeOptions field `%s` is not of the shape `name: [!]self.flag`" % (cmd, item))
            continue
        out.append((fm.group(1), fm.group(3), fm.group(2) == "!"))
    return out


def main():
    repo = "/repo"
    args = sys.argv[1:]
    if "--repo" in args:
        repo = args[args.index("--repo") + 1]
    problems = []
    flags = []
    enc = {}
    for cmd in COMMANDS:
        path = os.path.join(repo, "src", "commands", cmd + ".rs")
        with open(path) as f:
            src = f.read()
        fs = parse_struct(cmd, src, problems)
        if not fs:
            problems.append("%s.rs: no fields" % cmd)
        flags += fs
        e = parse_encode_options(cmd, src, problems)
        if e is not None:
            enc[cmd] = e
    with open(os.path.join(repo, "src", "bin", "wac.rs")) as f:
        wac = f.read()
    m = re.search(r"enum Wac \{(.*?)\}", wac, re.S)
    subs = re.findall(r"(\w+)\((\w+)Command\)", m.group(1)) if m else []
    if not subs:
        problems.append("wac.rs: enum Wac not found")
    if "compose" not in enc or enc["compose"] == "default":
        problems.append("compose.rs: no EncodeOptions literal")
    # how exec reports failure: `std::process::exit(1)` after printing the error
    exit_codes = re.findall(r"std::process::exit\((\d+)\)", wac)

    out = []
    out.append("/- GENERATED by tools/translate_cli.py from src/commands/*.rs and src/bin/wac.rs — do not edit. -/")
    out.append("namespace Wac.Generated.CliFlags")
    out.append("")
    out.append("structure FlagSpec where")
    out.append("  command : String")
    out.append("  field : String")
    out.append("  long : Option String      -- `--long`; none = positional")
    out.append("  short : Option String     -- `-s`")
    out.append("  takesValue : Bool         -- false = Boolean switch (present = true, absent = false)")
    out.append("  multiple : Bool")
    out.append("  required : Bool")
    out.append("  default : Option String")
    out.append("  feature : Option String   -- cargo feature that guards the field")
    out.append("deriving DecidableEq, Repr")
    out.append("")
    out.append("def flags : List FlagSpec := [")
    rows = []
    for f in flags:
        rows.append("  { command := %s, field := %s, long := %s, short := %s, takesValue := %s, multiple := %s, required := %s, default := %s, feature := %s }" % (
            lean_str(f["command"]), lean_str(f["field"]), opt(f["long"]), opt(f["short"]),
            "true" if f["takes_value"] else "false", "true" if f["multiple"] else "false",
            "true" if f["required"] else "false", opt(f["default"]), opt(f["feature"])))
    out.append(",\n".join(rows))
    out.append("]")
    out.append("")
    out.append("/-- the variants of `enum Wac` (sub-command names are the lower-cased variant names) -/")
    out.append("def subcommands : List String := [%s]" % ", ".join(lean_str(s[0].lower()) for s in subs))
    out.append("")
    out.append("/-- `EncodeOptions { field: [!]self.flag, .. }` per command: (command, option field, flag field, negated) -/")
    rows = []
    for cmd in COMMANDS:
        e = enc.get(cmd)
        if isinstance(e, list):
            for (o, fl, neg) in e:
                rows.append("  (%s, %s, %s, %s)" % (lean_str(cmd), lean_str(o), lean_str(fl), "true" if neg else "false"))
    out.append("def encodeOptions : List (String × String × String × Bool) := [\n%s\n]" % ",\n".join(rows))
    out.append("")
    out.append("/-- commands that call `encode(EncodeOptions::default())` -/")
    out.append("def encodeDefaults : List String := [%s]" % ", ".join(lean_str(c) for c in COMMANDS if enc.get(c) == "default"))
    out.append("")
    out.append("/-- the arguments of `std::process::exit` in `main` (the failure exit code) -/")
    out.append("def exitCodes : List Nat := [%s]" % ", ".join(exit_codes))
    out.append("")
    out.append("end Wac.Generated.CliFlags")
    text = "\n".join(out) + "\n"
    dst = os.path.join(VERIF, "lean", "WacModel", "Generated", "CliFlags.lean")
    os.makedirs(os.path.dirname(dst), exist_ok=True)
    old = open(dst).read() if os.path.exists(dst) else None
    if old != text:
        with open(dst, "w") as f:
            f.write(text)
    for p in problems:
        print("translate_cli: " + p)
    print("translate_cli: %d fields, %d sub-commands, %d encode-option mappings" % (len(flags), len(subs), sum(len(v) for v in enc.values() if isinstance(v, list))))
    return 1 if problems else 0


if __name__ == "__main__":
    sys.exit(main())
