#!/usr/bin/env python3
"""
Runner for the wac verification checks.

    ./check Cxx [--tier quick|thorough] [--seed N] [--replay FILE]
    ./check --setup            build everything from files on disk (offline)
    ./check --all [--tier T]   run every claimed check

For one property a run does (DESIGN.md section 2.2):
  1. regenerate the generated Lean tables from the repository's working tree (translators),
  2. `lake build` the property's theorem module and its driver   -> proof obligations,
  3. audit: axioms of every theorem of the module, forbidden-token scan,
  4. build the harness binary against the repository's working tree (hook cfg on),
  5. run harness shards | Lean driver, collect verdicts and the input distribution,
  6. decide (holds / violation with replay / violation no-failing-input-found / known finding),
     write evidence/Cxx.json, print the lines, exit 0 or 1.

Environment: VERIF_SEED, VERIF_TIER, WACV_REPO (repository under test; default /repo).
"""
import fcntl
import hashlib
import json
import os
import re
import shutil
import subprocess
import sys
import time
from concurrent.futures import ThreadPoolExecutor

VERIF = os.path.dirname(os.path.dirname(os.path.abspath(__file__)))
REPO = os.environ.get("WACV_REPO", "/repo")
LEAN = os.path.join(VERIF, "lean")
HARNESS = os.path.join(VERIF, "harness")
CACHE = os.path.join(VERIF, ".cache")
GUARD = "wac_verif"
ALLOWED_AXIOMS = {"propext", "Classical.choice", "Quot.sound"}
FORBIDDEN = re.compile(r"\bsorry\b|\badmit\b|^axiom |native_decide|bv_decide|implemented_by|\bunsafe |maxHeartbeats 0|ofReduceBool", re.M)


def repo_tag():
    return "default" if REPO == "/repo" else hashlib.sha1(REPO.encode()).hexdigest()[:10]


def target_dir():
    return os.path.join(CACHE, "target" if REPO == "/repo" else "target-" + repo_tag())


def run_dir(pid):
    d = os.path.join(CACHE, "run", repo_tag(), pid)
    os.makedirs(d, exist_ok=True)
    return d


class Lock:
    """serialises the build steps when several checks run at once"""

    def __init__(self, name):
        os.makedirs(CACHE, exist_ok=True)
        if name == "cargo":
            name = "cargo-" + repo_tag()
        self.path = os.path.join(CACHE, name + ".lock")

    def __enter__(self):
        self.f = open(self.path, "w")
        fcntl.flock(self.f, fcntl.LOCK_EX)

    def __exit__(self, *a):
        fcntl.flock(self.f, fcntl.LOCK_UN)
        self.f.close()


def sh(cmd, cwd=None, env=None, timeout=None):
    e = dict(os.environ)
    e.update({"CARGO_NET_OFFLINE": "true"})
    if env:
        e.update(env)
    p = subprocess.run(cmd, cwd=cwd, env=e, stdout=subprocess.PIPE, stderr=subprocess.STDOUT, text=True, timeout=timeout)
    return p.returncode, p.stdout


def load_cfg(pid):
    with open(os.path.join(VERIF, "checks", pid + ".json")) as f:
        return json.load(f)


def load_property(pid):
    with open(os.path.join(VERIF, "properties.jsonl")) as f:
        for line in f:
            p = json.loads(line)
            if p["id"] == pid:
                return p
    raise SystemExit("unknown property " + pid)


def known_findings(pid):
    """known_findings.json (committed union) plus known_findings.d/*.json (per-family source files);
    entries: {property, id, kind: known|fixed, what, match: regex on signature+detail+case,
    optional model_match}.  Never written at run time."""
    paths = [os.path.join(VERIF, "known_findings.json")]
    d = os.path.join(VERIF, "known_findings.d")
    if os.path.isdir(d):
        paths += [os.path.join(d, n) for n in sorted(os.listdir(d)) if n.endswith(".json")]
    out, seen = [], set()
    for path in paths:
        if not os.path.exists(path):
            continue
        with open(path) as f:
            for k in json.load(f)["findings"]:
                if k["property"] == pid and k.get("kind") == "known" and k["id"] not in seen:
                    seen.add(k["id"])
                    out.append(k)
    return out


# ---------------------------------------------------------------------------------------------
# step 1: translators
def run_translators(cfg, log):
    names = cfg.get("translators", [])
    if not names:
        return True, []
    ok = True
    with Lock("lake"):
        for n in names:
            rc, out = sh([sys.executable, os.path.join(VERIF, "tools", "translate_%s.py" % n), "--repo", REPO])
            log.append(out)
            ok = ok and rc == 0
    return ok, names


# ---------------------------------------------------------------------------------------------
# step 2/3: Lean
def lean_modules(cfg):
    mods = cfg.get("props_modules") or [cfg["props_module"]]
    return mods


def lean_build(cfg, log):
    targets = list(lean_modules(cfg))
    if cfg.get("driver"):
        targets.append(cfg["driver"])
    t0 = time.time()
    with Lock("lake"):
        rc, out = sh(["lake", "build"] + targets, cwd=LEAN)
    log.append(out[-6000:])
    return rc == 0, "lake build " + " ".join(targets), time.time() - t0, out


def lean_sources_for(mods):
    """source files of the property modules and everything of ours they import (transitively)"""
    seen, todo, files = set(), list(mods), []
    while todo:
        m = todo.pop()
        if m in seen:
            continue
        seen.add(m)
        path = os.path.join(LEAN, m.replace(".", "/") + ".lean")
        if not os.path.exists(path):
            continue
        files.append(path)
        with open(path) as f:
            for line in f:
                mm = re.match(r"\s*import\s+((?:WacModel|WacProofs|Driver)[\w.]*)", line)
                if mm:
                    todo.append(mm.group(1))
    return files


def strip_comments(src):
    src = re.sub(r"/-.*?-/", "", src, flags=re.S)
    src = re.sub(r"--[^\n]*", "", src)
    return src


def lean_audit(cfg, log):
    """returns (theorems: {name: [axioms]}, problems: [str])"""
    mods = lean_modules(cfg)
    problems = []
    for path in lean_sources_for(mods):
        with open(path) as f:
            src = strip_comments(f.read())
        for m in FORBIDDEN.finditer(src):
            problems.append("forbidden token %r in %s" % (m.group(0), os.path.relpath(path, VERIF)))
    with Lock("lake"):
        rc, out = sh(["lake", "env", "lean", "--run", "Audit.lean"] + mods, cwd=LEAN)
    theorems = {}
    for line in out.splitlines():
        m = re.match(r"THEOREM (\S+) AXIOMS ?(.*)$", line)
        if m:
            axs = m.group(2).split()
            theorems[m.group(1)] = axs
            bad = [a for a in axs if a not in ALLOWED_AXIOMS]
            if bad:
                problems.append("theorem %s depends on axioms %s" % (m.group(1), bad))
    if rc != 0:
        problems.append("axiom audit failed to run: " + out[-500:])
    if not theorems:
        problems.append("no theorems found in " + " ".join(mods))
    required = cfg.get("required_theorems", [])
    for r in required:
        if not any(t == r or t.endswith("." + r) for t in theorems):
            problems.append("required theorem %s is missing" % r)
    return theorems, problems


def leanchecker(cfg, log):
    probs = []
    for m in lean_modules(cfg):
        rc, out = sh(["lake", "env", "leanchecker", m], cwd=LEAN)
        if rc != 0:
            probs.append("leanchecker %s failed: %s" % (m, out[-400:]))
    return probs


# ---------------------------------------------------------------------------------------------
# step 4: harness
def harness_dir():
    """the crate directory cargo runs in: /verif/harness for /repo, a synced private copy for
    any other repository under test (so that several repositories can be checked at once)"""
    if REPO == "/repo":
        return HARNESS
    d = os.path.join(CACHE, "harness-" + repo_tag())
    os.makedirs(d, exist_ok=True)
    subprocess.run(["rsync", "-a", "--delete", "--exclude", "Cargo.toml", "--exclude", "Cargo.lock", "--exclude", "target",
                    HARNESS + "/", d + "/"], check=True)
    return d


def prepare_harness():
    hd = harness_dir()
    with open(os.path.join(HARNESS, "Cargo.toml.in")) as f:
        want = f.read().replace("@REPO@", REPO)
    path = os.path.join(hd, "Cargo.toml")
    cur = open(path).read() if os.path.exists(path) else None
    if cur != want:
        with open(path, "w") as f:
            f.write(want)
    lock_src = os.path.join(REPO, "Cargo.lock")
    lock_dst = os.path.join(hd, "Cargo.lock")
    if not os.path.exists(lock_dst):
        shutil.copy(lock_src, lock_dst)
    return hd


def harness_build(bins, log, features=None):
    t0 = time.time()
    with Lock("cargo"):
        hd = prepare_harness()
        cmd = ["cargo", "build", "--offline", "--quiet"]
        for b in bins:
            cmd += ["--bin", b]
        env = {"CARGO_TARGET_DIR": target_dir(), "RUSTFLAGS": "--cfg " + GUARD}
        rc, out = sh(cmd, cwd=hd, env=env)
        if rc != 0 and "Cargo.lock" in out:
            shutil.copy(os.path.join(REPO, "Cargo.lock"), os.path.join(hd, "Cargo.lock"))
            rc, out = sh(cmd, cwd=hd, env=env)
    log.append(out[-6000:])
    return rc == 0, time.time() - t0, out


# ---------------------------------------------------------------------------------------------
# step 5: run
def harness_env():
    env = dict(os.environ)
    env["WACV_REPO"] = REPO
    env["WACV_VERIF"] = VERIF
    env["WACV_TARGET"] = target_dir()
    env["CARGO_NET_OFFLINE"] = "true"
    return env


def prebuild(cfg, log):
    """`"prebuild": true` in the config: the harness binary builds whatever helper crates or
    binaries it needs (e.g. the `wac` CLI, a local registry server) when called with --prebuild,
    once, before the shards start (and during --setup)."""
    if not cfg.get("prebuild"):
        return True
    hb = os.path.join(target_dir(), "debug", cfg["harness_bin"])
    with Lock("cargo"):
        p = subprocess.run([hb, "--prebuild", "1"], stdout=subprocess.PIPE, stderr=subprocess.STDOUT, text=True,
                           env=harness_env(), timeout=7200)
    log.append(p.stdout[-3000:])
    return p.returncode == 0


def run_shard(cfg, pid, tier, seed, shard, nshards, replay=None, extra_args=None):
    d = run_dir(pid)
    cases = os.path.join(d, "cases.%s.%d" % (tier, shard))
    res = cases + ".res"
    hb = os.path.join(target_dir(), "debug", cfg["harness_bin"])
    cmd = [hb, "--tier", tier, "--seed", str(seed), "--shard", str(shard), "--nshards", str(nshards), "--out", cases]
    cmd += [str(a) for a in cfg.get("tiers", {}).get(tier, {}).get("args", [])]
    if extra_args:
        cmd += extra_args
    if replay:
        cmd += ["--replay", replay]
    env = harness_env()
    t0 = time.time()
    p = subprocess.run(cmd, stdout=subprocess.PIPE, stderr=subprocess.PIPE, text=True, env=env,
                       timeout=cfg.get("tiers", {}).get(tier, {}).get("timeout_s", 3600))
    harness_s = time.time() - t0
    out = {"cases": cases, "res": res, "harness_rc": p.returncode, "harness_err": p.stderr[-2000:], "harness_s": harness_s}
    if p.returncode != 0:
        return out
    if cfg.get("driver"):
        drv = os.path.join(LEAN, ".lake", "build", "bin", cfg["driver"])
        t0 = time.time()
        with open(cases) as fin, open(res, "w") as fout:
            # strip control lines and the N/T flag for the driver
            pin = subprocess.Popen([drv], stdin=subprocess.PIPE, stdout=fout, stderr=subprocess.PIPE, text=True)
            try:
                for line in fin:
                    if line.startswith("!") or line.startswith("#"):
                        continue
                    parts = line.rstrip("\n").split("\t")
                    pin.stdin.write("\t".join([parts[0]] + parts[2:]) + "\n")
                pin.stdin.close()
            except BrokenPipeError:
                pass
            err = pin.stderr.read()
            pin.wait()
        out["driver_rc"] = pin.returncode
        out["driver_err"] = err[-2000:]
        out["driver_s"] = time.time() - t0
    return out


def collect(cfg, shard_outs):
    """merge shard outputs into counters, failures, samples"""
    agg = {
        "evaluations": 0, "nontrivial_hashes": set(), "stats": {}, "samples": [],
        "model": [], "spec": [], "fail": [], "bad": [], "infra": [],
    }
    for so in shard_outs:
        if so["harness_rc"] != 0:
            agg["infra"].append("harness exited %s: %s" % (so["harness_rc"], so["harness_err"]))
            continue
        lines = {}
        with open(so["cases"]) as f:
            for line in f:
                line = line.rstrip("\n")
                if line.startswith("#STAT\t"):
                    _, k, v = line.split("\t")
                    agg["stats"][k] = agg["stats"].get(k, 0) + int(v)
                elif line.startswith("#SAMPLE\t"):
                    if len(agg["samples"]) < 12:
                        agg["samples"].append(line.split("\t", 1)[1][:1500])
                elif line.startswith("!FAIL\t"):
                    parts = line.split("\t")
                    agg["fail"].append({"id": parts[1], "signature": unesc(parts[2]), "detail": unesc(parts[3]) if len(parts) > 3 else "",
                                        "shard_lines": lines})
                elif line.startswith("!NOTE\t"):
                    pass
                else:
                    parts = line.split("\t")
                    if len(parts) < 3:
                        continue
                    agg["evaluations"] += 1
                    if parts[1] == "N":
                        agg["nontrivial_hashes"].add(hashlib.blake2b("\t".join(parts[2:]).encode(), digest_size=8).digest())
                    lines[parts[0]] = line
                    kinds = agg.setdefault("sample_kinds", {})
                    if parts[1] == "N" and kinds.get(parts[2], 0) < 2 and len(agg["samples"]) < 12:
                        kinds[parts[2]] = kinds.get(parts[2], 0) + 1
                        agg["samples"].append(line[:1500])
        if cfg.get("driver"):
            if so.get("driver_rc", 1) != 0:
                agg["infra"].append("driver exited %s: %s" % (so.get("driver_rc"), so.get("driver_err")))
            seen = 0
            with open(so["res"]) as f:
                for line in f:
                    parts = line.rstrip("\n").split("\t")
                    if len(parts) < 2:
                        continue
                    seen += 1
                    if parts[1] == "ok":
                        continue
                    rec = {"id": parts[0], "detail": "\t".join(parts[2:]), "case": lines.get(parts[0], "")}
                    rec["signature"] = rec["detail"]
                    if parts[1] == "MODEL":
                        agg["model"].append(rec)
                    elif parts[1] == "SPEC":
                        agg["spec"].append(rec)
                    else:
                        agg["bad"].append(rec)
            if seen != len(lines):
                agg["infra"].append("driver answered %d of %d cases" % (seen, len(lines)))
    for rec in agg["fail"]:
        # attach the case line (the harness writes the case before or after its !FAIL line)
        rec["case"] = rec.pop("shard_lines", {}).get(rec["id"], "")
    if not agg["samples"]:
        for so in shard_outs:
            if so["harness_rc"] == 0:
                with open(so["cases"]) as f:
                    for i, line in enumerate(f):
                        if i < 3 and not line.startswith(("#", "!")):
                            agg["samples"].append(line.rstrip("\n")[:1500])
                break
    return agg


def unesc(s):
    def rep(m):
        h = m.group(1)
        return "" if h == "e" else chr(int(h, 16))
    return re.sub(r"\\([0-9a-fA-F]+|e);", rep, s)


# ---------------------------------------------------------------------------------------------
def source_drift(pid, prop):
    """anchored files whose normalised content differs from the fingerprint recorded when the
    model was last aligned (checks/fingerprints.json).  Drift only adds work (more shards)."""
    path = os.path.join(VERIF, "checks", "fingerprints.json")
    if not os.path.exists(path):
        return []
    with open(path) as f:
        fp = json.load(f)
    changed = []
    for rel in prop["anchors"]["files"]:
        p = os.path.join(REPO, rel)
        if not os.path.exists(p) or not rel.endswith(".rs"):
            continue
        if rel in fp and fp[rel] != fingerprint(p):
            changed.append(rel)
    return changed


def fingerprint(path):
    with open(path) as f:
        src = f.read()
    src = re.sub(r"//[^\n]*", "", src)
    src = re.sub(r"\s+", " ", src)
    return hashlib.sha256(src.encode()).hexdigest()


def write_replay(pid, tier, content):
    d = os.path.join(VERIF, "replays", pid) if REPO == "/repo" else os.path.join(VERIF, "replays", repo_tag(), pid)
    os.makedirs(d, exist_ok=True)
    path = os.path.join(d, "%s-%s.txt" % (tier, hashlib.sha1(content.encode()).hexdigest()[:12]))
    with open(path, "w") as f:
        f.write(content)
    return path


def check(pid, tier, seed, replay=None):
    t_start = time.time()
    cfg = load_cfg(pid)
    prop = load_property(pid)
    log = []
    out_lines = []
    obligations_broken = []   # names of theorems / tables / build steps that no longer check

    # 1. translators
    ok, tables = run_translators(cfg, log)
    if not ok:
        obligations_broken.append("translator failed: " + (log[-1][-800:] if log else ""))

    # 2. Lean build
    ok, checker_cmd, lean_s, lean_out = lean_build(cfg, log)
    theorems = {}
    if not ok:
        errs = [l for l in lean_out.splitlines() if "error" in l][:8]
        obligations_broken.append("lake build failed: " + " | ".join(errs))
    # 3. audit
    if ok:
        theorems, problems = lean_audit(cfg, log)
        obligations_broken += problems
        if tier == "thorough" and cfg.get("leanchecker", True):
            obligations_broken += leanchecker(cfg, log)
            checker_cmd += " ; lake env leanchecker " + " ".join(lean_modules(cfg))
    driver_ok = os.path.exists(os.path.join(LEAN, ".lake", "build", "bin", cfg["driver"])) if cfg.get("driver") else True

    # 4. harness
    agg = None
    drift = source_drift(pid, prop)
    infra = []
    if cfg.get("harness_bin"):
        hok, cargo_s, cargo_out = harness_build([cfg["harness_bin"]] + cfg.get("extra_bins", []), log)
        if not hok:
            infra.append("harness build failed (does the repository compile?):\n" + cargo_out[-3000:])
        elif not driver_ok:
            infra.append("driver not built")
        elif not prebuild(cfg, log):
            infra.append("harness --prebuild failed:\n" + (log[-1] if log else ""))
        else:
            tcfg = cfg.get("tiers", {}).get(tier, {})
            nshards = int(tcfg.get("shards", 1))
            if drift and tier == "quick":
                nshards *= int(cfg.get("drift_factor", 4))
            corpus = os.path.join(VERIF, "corpus", pid)
            shard_outs = []
            if replay:
                shard_outs.append(run_shard(cfg, pid, tier, seed, 0, 1, replay=replay))
            else:
                if os.path.isdir(corpus) and cfg.get("corpus", True):
                    for i, name in enumerate(sorted(os.listdir(corpus))):
                        shard_outs.append(run_shard(cfg, pid, "corpus", seed, 1000 + i, 1, replay=os.path.join(corpus, name)))
                with ThreadPoolExecutor(max_workers=min(16, nshards)) as ex:
                    futs = [ex.submit(run_shard, cfg, pid, tier, seed, i, nshards) for i in range(nshards)]
                    shard_outs += [f.result() for f in futs]
            agg = collect(cfg, shard_outs)
            infra += agg["infra"]

    if infra:
        print("\n".join(log[-2:]))
        for i in infra:
            print("INFRASTRUCTURE-ERROR: " + i)
        # an infrastructure failure is never reported as "held"
        replay_path = write_replay(pid, tier, "infrastructure error\n" + "\n".join(infra))
        print("VIOLATION property=%s replay=%s no-failing-input-found" % (pid, replay_path))
        write_evidence(pid, tier, seed, cfg, theorems, tables, checker_cmd, agg, obligations_broken, [], 1, t_start, drift, infra)
        return 1

    # 6. decide
    known = known_findings(pid)
    concrete = []        # failures with a concrete failing input (impl vs spec / impl vs oracle)
    matched_known = {}
    if agg:
        for rec in agg["spec"] + agg["fail"]:
            text = rec.get("signature", "") + " " + rec.get("detail", "") + " " + rec.get("case", "")
            k = next((k for k in known if re.search(k["match"], text)), None)
            if k:
                matched_known.setdefault(k["id"], k)
            else:
                concrete.append(rec)
    model_dis = (agg["model"] + agg["bad"]) if agg else []
    # MODEL disagreements that match a known finding's model_match are attributed to it
    unexplained_model = []
    for rec in model_dis:
        text = rec.get("detail", "") + " " + rec.get("case", "")
        k = next((k for k in known if k.get("model_match") and re.search(k["model_match"], text)), None)
        if k:
            matched_known.setdefault(k["id"], k)
        else:
            unexplained_model.append(rec)

    for k in matched_known.values():
        out_lines.append("KNOWN-FINDING: property=%s %s" % (pid, k["what"]))

    rc = 0
    if concrete:
        rec = concrete[0]
        content = "property %s: concrete failing input (implementation vs specification/oracle)\n" % pid
        content += "replay with: ./check %s --replay <this file>\n" % pid
        for r in concrete[:20]:
            content += "CASE\t%s\n  verdict: %s\n" % (r.get("case") or r.get("id"), r.get("detail"))
        if unexplained_model:
            content += "model disagreements (separate from the above): %d\n" % len(unexplained_model)
        path = write_replay(pid, tier, content)
        out_lines.append("VIOLATION property=%s replay=%s" % (pid, path))
        rc = 1
    elif obligations_broken or unexplained_model:
        content = "property %s: no longer shown to hold; no concrete failing input found in this run\n" % pid
        for o in obligations_broken:
            content += "BROKEN-OBLIGATION\t%s\n" % o
        for r in unexplained_model[:20]:
            content += "CORRESPONDENCE\t%s\n  model disagreement: %s\n" % (r.get("case"), r.get("detail"))
        path = write_replay(pid, tier, content)
        out_lines.append("VIOLATION property=%s replay=%s no-failing-input-found" % (pid, path))
        rc = 1

    write_evidence(pid, tier, seed, cfg, theorems, tables, checker_cmd, agg, obligations_broken,
                   list(matched_known.keys()), len(concrete) + (1 if rc and not concrete else 0), t_start, drift, [],
                   n_model=len(unexplained_model))
    for l in out_lines:
        print(l)
    if rc == 0:
        print("OK property=%s tier=%s theorems=%d cases=%d wall=%.1fs" % (
            pid, tier, len(theorems), agg["evaluations"] if agg else 0, time.time() - t_start))
    return rc


def write_evidence(pid, tier, seed, cfg, theorems, tables, checker_cmd, agg, broken, known_matched, violations,
                   t_start, drift, infra, n_model=0):
    n_obl = len(theorems) + len(tables)
    broken_names = set()
    for b in broken:
        m = re.match(r"theorem (\S+) depends", b)
        if m:
            broken_names.add(m.group(1))
    discharged = n_obl - len(broken_names) if not [b for b in broken if not b.startswith("theorem ")] else 0
    axioms = sorted({a for axs in theorems.values() for a in axs})
    cov = {
        "obligations": max(n_obl, 1),
        "discharged": max(discharged, 0),
        "checker_cmd": "cd /verif/lean && " + checker_cmd + " ; lake env lean --run Audit.lean " + " ".join(lean_modules(cfg)),
        "trusted_base": cfg.get("trusted_base", []) + ["axioms used by the property theorems: " + ", ".join(axioms)],
        "theorems": sorted(theorems.keys()),
        "generated_tables": tables,
        "broken_obligations": broken,
        "evaluations": agg["evaluations"] if agg else 0,
        "distinct_nontrivial": len(agg["nontrivial_hashes"]) if agg else 0,
        "rule": cfg.get("rule", ""),
        "samples": (agg["samples"] if agg else []) or ["(no correspondence cases in this run)"],
        "traces_validated_against_impl": agg["evaluations"] if agg else 0,
        "input_distribution": agg["stats"] if agg else {},
        "model_disagreements": n_model,
        "spec_failures": len(agg["spec"]) if agg else 0,
        "oracle_failures": len(agg["fail"]) if agg else 0,
        "known_findings_matched": known_matched,
        "source_drift": drift,
        "infrastructure_errors": infra,
        "explanation": cfg.get("explanation", ""),
    }
    ev = {
        "property_id": pid,
        "tier": tier if tier in ("quick", "thorough") else "quick",
        "seed": seed,
        "level": cfg.get("level", "proof"),
        "coverage": cov,
        "assumptions": cfg.get("assumptions", []),
        "wall_s": round(time.time() - t_start, 2),
        "violations": violations,
    }
    # evidence/ is only written for the real repository; runs against scratch copies go to .cache
    evdir = os.path.join(VERIF, "evidence") if REPO == "/repo" else os.path.join(CACHE, "evidence-" + repo_tag())
    os.makedirs(evdir, exist_ok=True)
    with open(os.path.join(evdir, pid + ".json"), "w") as f:
        json.dump(ev, f, indent=1, sort_keys=True)
        f.write("\n")


def setup():
    t0 = time.time()
    # regenerate every generated table first: modules import them
    for name in sorted(os.listdir(os.path.join(VERIF, "checks"))):
        if re.match(r"C\d+\.json$", name):
            ok, _ = run_translators(load_cfg(name[:-5]), [])
            if not ok:
                print("translator failed for", name)
                return 1
    with Lock("lake"):
        rc, out = sh(["lake", "build"], cwd=LEAN)
    print(out[-3000:])
    if rc != 0:
        return rc
    drivers, bins = [], []
    for name in sorted(os.listdir(os.path.join(VERIF, "checks"))):
        if re.match(r"C\d+\.json$", name):
            cfg = load_cfg(name[:-5])
            if cfg.get("driver"):
                drivers.append(cfg["driver"])
            if cfg.get("harness_bin"):
                bins += [cfg["harness_bin"]] + cfg.get("extra_bins", [])
    with Lock("lake"):
        rc, out = sh(["lake", "build"] + sorted(set(drivers)), cwd=LEAN)
    print(out[-3000:])
    if rc != 0:
        return rc
    log = []
    ok, s, out = harness_build(sorted(set(bins)), log)
    print(out[-3000:])
    if ok:
        for name in sorted(os.listdir(os.path.join(VERIF, "checks"))):
            if re.match(r"C\d+\.json$", name):
                cfg = load_cfg(name[:-5])
                if cfg.get("prebuild") and cfg.get("harness_bin"):
                    plog = []
                    if not prebuild(cfg, plog):
                        print("prebuild failed for", name, plog[-1] if plog else "")
                        ok = False
    print("setup done in %.0fs" % (time.time() - t0))
    return 0 if ok else 1


def main():
    args = sys.argv[1:]
    if not args:
        print(__doc__)
        return 2
    tier = os.environ.get("VERIF_TIER", "quick")
    seed = int(os.environ.get("VERIF_SEED", "0") or 0)
    replay = None
    pids = []
    i = 0
    do_setup = False
    while i < len(args):
        a = args[i]
        if a == "--tier":
            tier = args[i + 1]; i += 2
        elif a == "--seed":
            seed = int(args[i + 1]); i += 2
        elif a == "--replay":
            replay = args[i + 1]; i += 2
        elif a == "--setup":
            do_setup = True; i += 1
        elif a == "--all":
            pids = sorted(n[:-5] for n in os.listdir(os.path.join(VERIF, "checks")) if re.match(r"C\d+\.json$", n)); i += 1
        else:
            pids.append(a); i += 1
    if do_setup:
        return setup()
    rc = 0
    for pid in pids:
        rc |= check(pid, tier, seed, replay)
    return rc


if __name__ == "__main__":
    sys.exit(main())
