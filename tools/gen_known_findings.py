#!/usr/bin/env python3
"""Regenerates known_findings.json: `fixed` entries from the fix: commits of /repo (property
attribution in FIXED below) + the `known` entries of known_findings.d/*.json (per-family sources)."""
import json, os, subprocess, glob
V = os.path.dirname(os.path.dirname(os.path.abspath(__file__)))
BASE = "8cdb267"
FIXED = {  # subject prefix (without "fix: ") -> property
 "print the `targets` keyword": "C13", "print a comma after a `...`": "C13", "keep empty doc-comment lines": "C13",
 "require a result type after `->`": "C12", "keep the end-of-input span": "C14",
 "prefer a .wat file over .wasm": "C18", "compare effective memory page sizes": "C07",
 "merge nested instance exports": "C09", "do not import a resource's owner interface twice": "C09",
 "do not panic when a merged defined type": "C09",
 "do not panic on component, module and value items": "C08", "keep the original owner of a used type": "C08",
 "register exported named instances": "C08", "alias the resource of an own/borrow": "C08",
 "do not panic in Package::from_bytes when one instance type": "C08",
 "import an explicitly imported interface once": "C05", "export a resource that an interface uses under two names": "C05",
 "keep the used types of an included world": "C05", "keep the used types of the enclosing scope": "C05",
 "import a resource that a world uses under two names": "C05", "do not redirect the enclosing scope's types": "C05",
 "resolve registry packages with one download task": "C20",
 "keep every import of an interface that is imported under several names": "C04",
 "limit the nesting depth of brackets": "C14",
 "remove_node skips dependents already removed": "C06", "removing the source of an instantiation argument": "C06",
 "unexport and remove_node drop every export name": "C06",
 "define_type adds dependency edges in a deterministic order": "C16",
 "world include reports the first unused `with` name": "C16", "wac plug applies the plugs in command line order": "C16",
 "do not panic in Package::from_bytes on a type export": "C14",
 "a shared import renamed to a higher version renames its interface too": "C03",
 "a function or instance named like a used type": "C01",
 "an explicit import that cannot be merged with an implicit import": "C01",
 "a merged interface is named for the highest version": "C03",
 "a used interface without an id is aliased": "C08",
 "type exports of interface type are merged": "C09",
 "do not panic in Package::from_bytes on a core module type": "C08",
 "world include renames a name that is both imported and exported": "C05",
 "a type declared under the name of a function or instance item": "C14",
 "a merge conflict that involves an explicit import is reported": "C14",
}
out = []
log = subprocess.run(["git", "-C", "/repo", "log", "--reverse", "--format=%h%x00%s%x00%b%x01", BASE + "..HEAD"],
                     capture_output=True, text=True).stdout
hooks = []
for rec in log.split("\x01"):
    rec = rec.strip("\n")
    if not rec:
        continue
    h, s, b = rec.split("\x00")
    if s.startswith("verif hook:"):
        hooks.append(h)
    if not s.startswith("fix: "):
        continue
    subj = s[5:]
    prop = next((p for k, p in FIXED.items() if subj.startswith(k)), None)
    if prop is None:
        raise SystemExit("unmapped fix commit: " + s)
    what = " ".join(b.split("\n\n")[0].split())
    out.append({"property": prop, "id": "fixed-%s-%s" % (prop, h), "kind": "fixed", "commit": h, "what": subj + " — " + what,
                "line": "fixed: property=%s %s %s" % (prop, h, subj)})
for path in sorted(glob.glob(os.path.join(V, "known_findings.d", "*.json"))):
    for k in json.load(open(path))["findings"]:
        if k.get("kind") == "known":
            k = dict(k); k["source"] = os.path.relpath(path, V)
            out.append(k)
json.dump({"findings": out}, open(os.path.join(V, "known_findings.json"), "w"), indent=1)
hk = json.load(open(os.path.join(V, "checks", "hooks.json")))
hk["source_commits"] = hooks
json.dump(hk, open(os.path.join(V, "checks", "hooks.json"), "w"), indent=1)
print(len([o for o in out if o["kind"] == "fixed"]), "fixed,", len([o for o in out if o["kind"] == "known"]), "known; hooks:", hooks)
