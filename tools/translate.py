#!/usr/bin/env python3
"""
Dispatcher for the source -> Lean translators (DESIGN.md section 3.1).

    tools/translate.py --repo /repo <name>...

Each <name> is handled by tools/translate_<name>.py (same --repo argument), which rewrites its
lean/WacModel/Generated/*.lean file only when the content changes.  Exit status is non-zero
when any translator fails.  (Minimal version written for C16; the coordinator may replace it.)
"""
import os
import subprocess
import sys


def main():
    args = sys.argv[1:]
    repo = os.environ.get("WACV_REPO", "/repo")
    names = []
    i = 0
    while i < len(args):
        if args[i] == "--repo":
            repo = args[i + 1]; i += 2
        else:
            names.append(args[i]); i += 1
    here = os.path.dirname(os.path.abspath(__file__))
    rc = 0
    for n in names:
        script = os.path.join(here, "translate_%s.py" % n.lower())
        if not os.path.exists(script):
            print("translate: no translator for %s" % n)
            rc = 1
            continue
        p = subprocess.run([sys.executable, script, "--repo", repo])
        rc |= p.returncode
    return rc


if __name__ == "__main__":
    sys.exit(main())
