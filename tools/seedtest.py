#!/usr/bin/env python3
"""
Run checks against a seeded breaking change without touching /repo:

    tools/seedtest.py seeded/<id> [Cxx ...] [--tier quick|thorough] [--keep] [--demo]

Creates a scratch worktree of /repo (HEAD) under /tmp, applies seeded/<id>/patch.diff, optionally
runs the demonstration (`meta.json: demo_cmd`, with the demo file copied to `demo_path`) to confirm
it fails with the change, runs `WACV_REPO=<worktree> ./check Cxx` for the given properties
(default: meta.json "property"), prints the verdict lines, and removes the worktree and its
build output (unless --keep).  Exit 0 iff every check reported a VIOLATION.
"""
import json, os, shutil, subprocess, sys, hashlib

V = os.path.dirname(os.path.dirname(os.path.abspath(__file__)))


def main():
    args = sys.argv[1:]
    tier, keep, demo = "quick", False, False
    pos = []
    i = 0
    while i < len(args):
        if args[i] == "--tier":
            tier = args[i + 1]; i += 2
        elif args[i] == "--keep":
            keep = True; i += 1
        elif args[i] == "--demo":
            demo = True; i += 1
        else:
            pos.append(args[i]); i += 1
    sd = os.path.abspath(pos[0])
    meta = json.load(open(os.path.join(sd, "meta.json")))
    props = pos[1:] or ([meta["property"]] if isinstance(meta["property"], str) else meta["property"])
    wt = "/tmp/st-" + hashlib.sha1(sd.encode()).hexdigest()[:8]
    subprocess.run(["git", "-C", "/repo", "worktree", "remove", "--force", wt], capture_output=True)
    subprocess.run(["git", "-C", "/repo", "worktree", "add", "-q", "--detach", wt, "HEAD"], check=True)
    ok = True
    try:
        r = subprocess.run(["git", "-C", wt, "apply", os.path.join(sd, "patch.diff")], capture_output=True, text=True)
        if r.returncode != 0:
            print("PATCH DOES NOT APPLY:", r.stderr)
            return 2
        if demo and meta.get("demo_cmd") and meta.get("demo_path"):
            shutil.copy(os.path.join(sd, meta.get("demo_file", "demo.rs")), os.path.join(wt, meta["demo_path"]))
            r = subprocess.run(meta["demo_cmd"], shell=True, cwd=wt, capture_output=True, text=True,
                               env=dict(os.environ, CARGO_NET_OFFLINE="true"))
            print("demo with patch: rc=%d (expected non-zero)" % r.returncode)
            os.remove(os.path.join(wt, meta["demo_path"]))
        # warm start: the registry dependencies of the harness are the same for every worktree, so a
        # copy of the main target directory saves the cold build (only the path crates are rebuilt)
        tag0 = hashlib.sha1(wt.encode()).hexdigest()[:10]
        tdst, tsrc = os.path.join(V, ".cache", "target-" + tag0), os.path.join(V, ".cache", "target")
        if os.environ.get("SEEDTEST_WARM", "1") == "1" and os.path.isdir(tsrc) and not os.path.exists(tdst):
            subprocess.run(["cp", "-a", "--reflink=auto", tsrc, tdst])
        for p in props:
            env = dict(os.environ, WACV_REPO=wt)
            r = subprocess.run([os.path.join(V, "check"), p, "--tier", tier], cwd=V, env=env, capture_output=True, text=True)
            lines = [l for l in r.stdout.splitlines() if l.startswith(("VIOLATION", "OK", "KNOWN-FINDING", "INFRASTRUCTURE"))]
            # verdict lines first, every line cut separately (a KNOWN-FINDING line can be > 1 kB and
            # used to push the VIOLATION line out of the 600 characters that were printed)
            lines.sort(key=lambda l: 0 if l.startswith(("VIOLATION", "OK")) else 1 if l.startswith("INFRASTRUCTURE") else 2)
            print("%s %s: rc=%d %s" % (os.path.basename(sd), p, r.returncode, " | ".join(l[:220] for l in lines)))
            caught = any(l.startswith("VIOLATION") for l in lines)
            if r.returncode != 0 and not caught:
                # the runner itself failed (exception / timeout): show why instead of a bare rc
                print("  no verdict line; runner stderr tail: " + r.stderr[-1500:].replace("\n", " | "))
                print("  runner stdout tail: " + r.stdout[-600:].replace("\n", " | "))
            if not caught:
                ok = False
            meta.setdefault("check_runs", []).append({
                "check": p, "tier": tier, "rc": r.returncode, "caught": caught,
                "with_replay": any(l.startswith("VIOLATION") and "no-failing-input-found" not in l for l in lines),
                "lines": [l[:300] for l in lines if not l.startswith("KNOWN-FINDING")]})
            json.dump(meta, open(os.path.join(sd, "meta.json"), "w"), indent=1)
    finally:
        if not keep:
            subprocess.run(["git", "-C", "/repo", "worktree", "remove", "--force", wt], capture_output=True)
            tag = hashlib.sha1(wt.encode()).hexdigest()[:10]
            for d in ("target-" + tag, "harness-" + tag, os.path.join("run", tag)):
                shutil.rmtree(os.path.join(V, ".cache", d), ignore_errors=True)
    return 0 if ok else 1


if __name__ == "__main__":
    sys.exit(main())
