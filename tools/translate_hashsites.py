#!/usr/bin/env python3
"""
Translator for C16: every place where the composition path iterates over a hash-ordered
container (std HashMap / HashSet), read from the repository's working tree, emitted as a Lean
table `lean/WacModel/Generated/HashSites.lean`.

    tools/translate_hashsites.py --repo /repo [--out FILE] [--check] [--list]

Method (regex level, type directed):
  1. per file: comments and string literals are blanked; `#[cfg(test)]` modules and
     `#[cfg(wac_verif)]` items (the verification hooks) are skipped;
  2. names with a hash-ordered type are collected from struct fields (`name: HashMap<…>`),
     parameters, `let` bindings with a type annotation or a `HashMap::new()/default()/
     with_capacity()/from(..)` initialiser, and pattern bindings of enum payloads declared
     as hash sets (`Instantiation(HashSet<usize>)` -> `NodeKind::Instantiation(x)` binds `x`);
     a name that the same file also declares with an ordered type (IndexMap, Vec, BTreeMap …)
     is only matched through `self.` / `self.0.` receivers;
  3. on those names every order-revealing use is a site: `for … in [&[mut]] X`, `X.iter()`,
     `.iter_mut()`, `.values()`, `.values_mut()`, `.keys()`, `.into_iter()`, `.into_keys()`,
     `.into_values()`, `.drain(`, `.retain(`, `.extend(X)` and a following `.next()`/`.last()`
     (`.find`, `.position`, `.min_by` … are covered because they follow one of the above).
  4. uses of clocks, randomness, threads, environment and pointer values are listed too.

A site is identified by (file, enclosing fn, receiver text, operation, occurrence index within
the fn) so that unrelated edits do not renumber it.
"""
import os
import re
import sys

FILES = [
    "crates/wac-graph/src/graph.rs",
    "crates/wac-graph/src/encoding.rs",
    "crates/wac-graph/src/plug.rs",
    "crates/wac-types/src/aggregator.rs",
    "crates/wac-parser/src/resolution.rs",
    "src/commands/plug.rs",
]

HASH_TY = r"(?:std::collections::)?(?:HashMap|HashSet)\b"
ORDERED_TY = r"(?:IndexMap|IndexSet|Vec|VecDeque|BTreeMap|BTreeSet|NameMap)\b"
ITER_OPS = r"iter|iter_mut|values|values_mut|keys|into_iter|into_keys|into_values|drain|retain"


def blank(src):
    """blank out comments, string and char literals (keeping newlines and length)"""
    out = []
    i, n = 0, len(src)
    while i < n:
        c = src[i]
        if src.startswith("//", i):
            j = src.find("\n", i)
            j = n if j < 0 else j
            out.append(" " * (j - i))
            i = j
        elif src.startswith("/*", i):
            depth, j = 1, i + 2
            while j < n and depth:
                if src.startswith("/*", j):
                    depth += 1; j += 2
                elif src.startswith("*/", j):
                    depth -= 1; j += 2
                else:
                    j += 1
            out.append("".join(ch if ch == "\n" else " " for ch in src[i:j]))
            i = j
        elif c == '"' or (c == "r" and re.match(r'r#*"', src[i:])):
            if c == "r":
                m = re.match(r'r(#*)"', src[i:])
                close = '"' + m.group(1)
                j = src.find(close, i + len(m.group(0)))
                j = n if j < 0 else j + len(close)
            else:
                j = i + 1
                while j < n and src[j] != '"':
                    j += 2 if src[j] == "\\" else 1
                j += 1
            out.append('"' + "".join(ch if ch == "\n" else " " for ch in src[i + 1:j - 1]) + '"' if j - i >= 2 else src[i:j])
            i = j
        elif c == "'" and re.match(r"'(\\.[^']*|[^'\\])'", src[i:]):
            m = re.match(r"'(\\.[^']*|[^'\\])'", src[i:])
            out.append("' '" + " " * (len(m.group(0)) - 3))
            i += len(m.group(0))
        else:
            out.append(c)
            i += 1
    return "".join(out)


def skip_regions(src):
    """character ranges of `#[cfg(test)] mod … { … }` and `#[cfg(wac_verif)]` items"""
    regions = []
    for m in re.finditer(r"#\[cfg\((?:test|wac_verif)\)\]", src):
        j = src.find("{", m.end())
        semi = src.find(";", m.end())
        if j < 0 or (0 <= semi < j):
            continue
        depth, k = 1, j + 1
        while k < len(src) and depth:
            if src[k] == "{":
                depth += 1
            elif src[k] == "}":
                depth -= 1
            k += 1
        regions.append((m.start(), k))
    return regions


def functions(src):
    """(name, body_start, body_end) for every fn item, innermost last"""
    fns = []
    for m in re.finditer(r"\bfn\s+([A-Za-z_][A-Za-z0-9_]*)", src):
        # find the opening brace of the body (skip the signature; a `;` first means no body)
        k = m.end()
        depth_par = 0
        while k < len(src):
            ch = src[k]
            if ch in "(<[":
                depth_par += 1
            elif ch in ")>]":
                # `->` is not a closing bracket
                if ch == ">" and src[k - 1] == "-":
                    pass
                else:
                    depth_par -= 1
            elif ch == "{" and depth_par <= 0:
                break
            elif ch == ";" and depth_par <= 0:
                k = -1
                break
            k += 1
        if k < 0 or k >= len(src):
            continue
        depth, e = 1, k + 1
        while e < len(src) and depth:
            if src[e] == "{":
                depth += 1
            elif src[e] == "}":
                depth -= 1
            e += 1
        fns.append((m.group(1), m.start(), e))
    return fns


def enclosing_fn(fns, pos):
    best = None
    for name, s, e in fns:
        if s <= pos < e and (best is None or s >= best[1]):
            best = (name, s, e)
    return best[0] if best else "<module>"


def scan_file(rel, text):
    src = blank(text)
    skips = skip_regions(src)

    def skipped(pos):
        return any(s <= pos < e for s, e in skips)

    fns = functions(src)
    hash_names, ordered_names, variant_payload = set(), set(), set()
    # fields / params / annotated lets
    for m in re.finditer(r"\b([a-z_][a-z0-9_]*)\s*:\s*&?\s*(?:'[a-z_]+\s+)?(?:mut\s+)?(" + HASH_TY + "|" + ORDERED_TY + ")", src):
        if skipped(m.start()):
            continue
        (hash_names if re.match(HASH_TY, m.group(2)) else ordered_names).add(m.group(1))
    for m in re.finditer(r"\blet\s+(?:mut\s+)?([a-z_][a-z0-9_]*)\s*(?::[^=;]*)?=\s*(?:std::collections::)?(HashMap|HashSet)::", src):
        if not skipped(m.start()):
            hash_names.add(m.group(1))
    for m in re.finditer(r"\blet\s+(?:mut\s+)?([a-z_][a-z0-9_]*)\s*(?::[^=;]*)?=\s*(?:IndexMap|IndexSet|Vec|BTreeMap|BTreeSet)::", src):
        if not skipped(m.start()):
            ordered_names.add(m.group(1))
    # enum payloads declared as hash sets: Variant(HashSet<..>)
    for m in re.finditer(r"\b([A-Z][A-Za-z0-9]*)\s*\(\s*" + HASH_TY, src):
        if not skipped(m.start()):
            variant_payload.add(m.group(1))
    for v in variant_payload:
        for m in re.finditer(r"\b" + v + r"\(\s*(?:ref\s+)?(?:mut\s+)?([a-z_][a-z0-9_]*)\s*\)", src):
            if not skipped(m.start()):
                hash_names.add(m.group(1))
    ambiguous = hash_names & ordered_names
    sites = []
    for name in sorted(hash_names):
        if name in ambiguous:
            recv = r"(?:self\.0\.|self\.)" + name
        else:
            recv = r"(?:[A-Za-z_][A-Za-z0-9_]*(?:\.[A-Za-z_0-9]+)*\.)?" + name
        pats = [
            (r"\bfor\b[^;{]*?\bin\s+&?\s*(?:mut\s+)?(" + recv + r")\s*\{", "for"),
            (r"(?<![A-Za-z0-9_.])(" + recv + r")\s*\.\s*(" + ITER_OPS + r")\s*\(", None),
            (r"\.extend\(\s*&?(" + recv + r")\s*\)", "extend-from"),
        ]
        for pat, op in pats:
            for m in re.finditer(pat, src):
                if skipped(m.start()):
                    continue
                o = op or m.group(2)
                # a directly following .next()/.last() picks one element
                tail = src[m.end():m.end() + 200]
                t = re.match(r"[^;]*?\)\s*\.\s*(next|last|nth|find|find_map|position|max_by_key|min_by_key|max_by|min_by)\s*\(", tail)
                if op is None and t and ";" not in tail[:t.start(1)]:
                    o = o + "." + t.group(1)
                sites.append((m.start(1), enclosing_fn(fns, m.start()), m.group(1), o))
    sites.sort()
    out, counts = [], {}
    for pos, fn, recv, op in sites:
        key = (fn, recv, op)
        counts[key] = counts.get(key, 0) + 1
        out.append((rel, fn, recv, op, counts[key] - 1, src.count("\n", 0, pos) + 1))
    other = []
    for m in re.finditer(r"\b(SystemTime|Instant::now|thread_rng|rand::|std::thread|thread::spawn|RandomState|env::var|as\s+\*const|as\s+\*mut|\{:p\})", src):
        if not skipped(m.start()):
            other.append((rel, enclosing_fn(fns, m.start()), m.group(1)))
    return out, other, sorted(hash_names)


def lean_str(s):
    return '"' + s.replace("\\", "\\\\").replace('"', '\\"') + '"'


def generate(repo):
    sites, other, names = [], [], {}
    for rel in FILES:
        p = os.path.join(repo, rel)
        if not os.path.exists(p):
            continue
        with open(p) as f:
            s, o, n = scan_file(rel, f.read())
        sites += s
        other += o
        names[rel] = n
    lines = [
        "/-",
        "  GENERATED by tools/translate_hashsites.py from the repository's working tree — do not edit.",
        "  Every order-revealing use of a std HashMap / HashSet on the composition path",
        "  (file, enclosing fn, receiver, operation, occurrence within the fn).",
        "-/",
        "namespace Wac.Generated",
        "",
        "structure HashSite where",
        "  file : String",
        "  fn : String",
        "  container : String",
        "  op : String",
        "  occurrence : Nat",
        "deriving DecidableEq, Repr",
        "",
        "def hashSites : List HashSite := [",
    ]
    body = []
    for rel, fn, recv, op, k, _line in sites:
        body.append("  ⟨%s, %s, %s, %s, %d⟩" % (lean_str(rel), lean_str(fn), lean_str(recv), lean_str(op), k))
    lines.append(",\n".join(body))
    lines.append("]")
    lines.append("")
    lines.append("/-- uses of clocks, randomness, threads, the environment or pointer values -/")
    lines.append("def otherNondeterminism : List (String × String × String) := [")
    lines.append(",\n".join("  (%s, %s, %s)" % tuple(map(lean_str, o)) for o in other))
    lines.append("]")
    lines.append("")
    lines.append("/-- files read -/")
    lines.append("def scannedFiles : List String := [" + ", ".join(lean_str(r) for r in FILES if os.path.exists(os.path.join(repo, r))) + "]")
    lines.append("")
    lines.append("end Wac.Generated")
    return "\n".join(lines) + "\n", sites, other, names


def main():
    args = sys.argv[1:]
    repo = os.environ.get("WACV_REPO", "/repo")
    verif = os.path.dirname(os.path.dirname(os.path.abspath(__file__)))
    out = os.path.join(verif, "lean", "WacModel", "Generated", "HashSites.lean")
    check = listing = False
    i = 0
    while i < len(args):
        if args[i] == "--repo":
            repo = args[i + 1]; i += 2
        elif args[i] == "--out":
            out = args[i + 1]; i += 2
        elif args[i] == "--check":
            check = True; i += 1
        elif args[i] == "--list":
            listing = True; i += 1
        else:
            i += 1
    text, sites, other, names = generate(repo)
    # self-test: the scan saw the files and the declarations it is directed by
    if not names.get("crates/wac-graph/src/graph.rs"):
        print("translate_hashsites: no hash-typed declaration found in graph.rs (scanner broken?)", file=sys.stderr)
        return 2
    if listing:
        for s in sites:
            print("%s:%d fn %s: %s .%s #%d" % (s[0], s[5], s[1], s[2], s[3], s[4]))
        for o in other:
            print("other: %s fn %s: %s" % o)
        for k, v in names.items():
            print("hash-typed names in %s: %s" % (k, ", ".join(v)))
        return 0
    if check:
        cur = open(out).read() if os.path.exists(out) else ""
        if cur != text:
            print("translate_hashsites: %s is stale" % out)
            return 1
        return 0
    os.makedirs(os.path.dirname(out), exist_ok=True)
    cur = open(out).read() if os.path.exists(out) else None
    if cur != text:
        with open(out, "w") as f:
            f.write(text)
    print("translate_hashsites: %d sites, %d other" % (len(sites), len(other)))
    return 0


if __name__ == "__main__":
    sys.exit(main())
