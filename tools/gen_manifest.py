#!/usr/bin/env python3
"""Regenerates MANIFEST.json from checks/*.json (claimed properties) and checks/not_applicable.json."""
import json, os, re
V = os.path.dirname(os.path.dirname(os.path.abspath(__file__)))
props = [json.loads(l) for l in open(os.path.join(V, "properties.jsonl"))]
na = json.load(open(os.path.join(V, "checks", "not_applicable.json")))
hooks = json.load(open(os.path.join(V, "checks", "hooks.json")))
checks, engines = [], []
claimed = set()
for p in props:
    pid = p["id"]
    path = os.path.join(V, "checks", pid + ".json")
    if not os.path.exists(path) or pid in na:
        continue
    cfg = json.load(open(path))
    claimed.add(pid)
    checks.append({
        "property_id": pid,
        "quick_cmd": "./check %s --tier quick" % pid,
        "thorough_cmd": "./check %s --tier thorough" % pid,
        "evidence_file": "/verif/evidence/%s.json" % pid,
        "replay_cmd_template": "./check %s --replay {path}" % pid,
        "engine": "lean4-proof+correspondence",
        "level_claimed": {
            "category": cfg.get("level", "proof"),
            "text": cfg["level_text"],
            "design_ref": cfg.get("design_ref", "DESIGN.md section 7, " + pid),
        },
        "level_note": cfg["level_note"],
        "technique": cfg.get("technique", "Lean 4 theorems about an executable model + differential correspondence with the Rust code"),
    })
m = {
    "version": 1,
    "setup_cmd": "./check --setup",
    "hooks": hooks,
    "engines": [{
        "name": "lean4-proof+correspondence",
        "path": "/verif/lean, /verif/harness, /verif/tools/runner.py",
        "serves_properties": sorted(claimed),
        "kind_free_text": "Lean 4 (4.33.0) theorems over executable models (lake project /verif/lean), axiom-audited on every run; models tied to /repo's working tree by translators (tools/translate.py) and by a differential correspondence harness (Rust crate /verif/harness calling the real code in-process, Lean drivers answering the same cases).",
    }],
    "checks": checks,
    "not_applicable": [{"property_id": k, "reason": v} for k, v in sorted(na.items()) if k not in claimed],
    "notes": "See DESIGN.md. known_findings.json lists genuine defects (known / fixed).",
}
json.dump(m, open(os.path.join(V, "MANIFEST.json"), "w"), indent=1)
print("claimed:", sorted(claimed))
