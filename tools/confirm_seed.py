#!/usr/bin/env python3
"""
Confirm seeded changes in ONE scratch worktree of /repo (shared build cache):
    tools/confirm_seed.py <crate-package> seeded/<id> [seeded/<id> ...]
For each: (0) once, with no patch: every demo passes; (1) the patch applies and compiles,
(2) the crate's existing tests (and its dependents' given as extra -p) still pass,
(3) the demo fails with the patch.  Results are written into each meta.json ("coordinator_confirmed").
"""
import json, os, shutil, subprocess, sys
pkgs = sys.argv[1].split(",")
dirs = [os.path.abspath(d) for d in sys.argv[2:]]
wt = "/tmp/confirm-" + pkgs[0] + os.environ.get("CONFIRM_TAG", "")
subprocess.run(["git", "-C", "/repo", "worktree", "remove", "--force", wt], capture_output=True)
subprocess.run(["git", "-C", "/repo", "worktree", "add", "-q", "--detach", wt, "HEAD"], check=True)
env = dict(os.environ, CARGO_NET_OFFLINE="true", RUST_BACKTRACE="0")
if os.environ.get("CONFIRM_TARGET"):
    env["CARGO_TARGET_DIR"] = os.environ["CONFIRM_TARGET"]   # shared between confirmations: registry crates are built once
def run(cmd):
    r = subprocess.run(cmd, shell=True, cwd=wt, env=env, capture_output=True, text=True)
    return r.returncode, (r.stdout + r.stderr)[-1500:]
res = {}
try:
    metas = {d: json.load(open(os.path.join(d, "meta.json"))) for d in dirs}
    # (0) demos pass without any patch
    for d, m in metas.items():
        dst = os.path.join(wt, os.path.dirname(m["demo_path"]), "demo_" + os.path.basename(d).replace("-", "_").lower() + ".rs")
        os.makedirs(os.path.dirname(dst), exist_ok=True)
        shutil.copy(os.path.join(d, "demo.rs"), dst)
        name = os.path.basename(dst)[:-3]
        feat = "--features wat " if "--features wat" in m.get("demo_cmd", "") else ""
        if pkgs[0] == "wac-cli":
            feat = "--no-default-features --features wit,wat "
        rc, out = run("cargo test -p %s %s--offline -j 8 --test %s" % (pkgs[0], feat, name))
        res[d] = {"demo_without_patch_rc": rc}
        os.remove(dst)
    for d, m in metas.items():
        r = res[d]
        rc = subprocess.run(["git", "-C", wt, "apply", os.path.join(d, "patch.diff")]).returncode
        r["patch_applies"] = rc == 0
        tests = " ".join("-p " + p for p in pkgs)
        feat = "--features wat " if ("--features wat" in m.get("demo_cmd", "") or "wac-resolver" in pkgs) else ""
        if pkgs[0] == "wac-cli":
            feat = "--no-default-features --features wit,wat "
        rc, out = run("cargo test %s %s--no-fail-fast --offline -j 8" % (tests, feat))
        r["existing_tests_with_patch_rc"] = rc
        if rc != 0:
            r["existing_tests_tail"] = out
        dst = os.path.join(wt, os.path.dirname(m["demo_path"]), "demo_" + os.path.basename(d).replace("-", "_").lower() + ".rs")
        os.makedirs(os.path.dirname(dst), exist_ok=True)
        shutil.copy(os.path.join(d, "demo.rs"), dst)
        name = os.path.basename(dst)[:-3]
        rc, out = run("cargo test -p %s %s--offline -j 8 --test %s" % (pkgs[0], feat, name))
        r["demo_with_patch_rc"] = rc
        os.remove(dst)
        subprocess.run(["git", "-C", wt, "checkout", "--", "."])
        ok = r["demo_without_patch_rc"] == 0 and r["patch_applies"] and r["existing_tests_with_patch_rc"] == 0 and r["demo_with_patch_rc"] != 0
        r["confirmed"] = ok
        m["coordinator_confirmed"] = r
        m["coordinator_confirmed"]["how"] = "tools/confirm_seed.py %s in a scratch worktree of /repo HEAD: demo passes without the patch, patch applies and compiles, `cargo test %s` (existing tests of the touched crates) passes with the patch, demo fails with the patch" % (",".join(pkgs), tests)
        json.dump(m, open(os.path.join(d, "meta.json"), "w"), indent=1)
        print(os.path.basename(d), "CONFIRMED" if ok else "NOT CONFIRMED", r)
finally:
    subprocess.run(["git", "-C", "/repo", "worktree", "remove", "--force", wt], capture_output=True)
