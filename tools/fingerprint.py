#!/usr/bin/env python3
"""Records checks/fingerprints.json: normalised-content hashes of every anchored source file of
/repo as it is now (run after the models were last aligned with the code).  The runner compares
them on every run; a differing file never fails a check by itself, it only multiplies that
property's correspondence budget (DESIGN.md section 3.3)."""
import json, os, sys
sys.path.insert(0, os.path.dirname(os.path.abspath(__file__)))
import runner
files = set()
for line in open(os.path.join(runner.VERIF, "properties.jsonl")):
    files.update(f for f in json.loads(line)["anchors"]["files"] if f.endswith(".rs"))
fp = {}
for rel in sorted(files):
    p = os.path.join("/repo", rel)
    if os.path.exists(p):
        fp[rel] = runner.fingerprint(p)
json.dump(fp, open(os.path.join(runner.VERIF, "checks", "fingerprints.json"), "w"), indent=1, sort_keys=True)
print("fingerprinted", len(fp), "files")
