#!/usr/bin/env python3
"""
Line-based delta debugging of a C05 / C08 case with the Lean driver in the loop (for SPEC / MODEL
verdicts, which the harness cannot decide by itself).

    tools/decode_minimize.py C05 <file with CASE lines or a cases file> [--pick N]

Uses the harness and driver binaries built by ./check (WACV_REPO selects the target dir).
Prints the minimised source and its verdict for every distinct verdict class.
"""
import os, re, subprocess, sys, tempfile, hashlib

VERIF = os.path.dirname(os.path.dirname(os.path.abspath(__file__)))
REPO = os.environ.get("WACV_REPO", "/repo")
tag = "target" if REPO == "/repo" else "target-" + hashlib.sha1(REPO.encode()).hexdigest()[:10]
prop = sys.argv[1].lower()
HARNESS = os.path.join(VERIF, ".cache", tag, "debug", prop)
DRIVER = os.path.join(VERIF, "lean", ".lake", "build", "bin", "drv_" + prop)

def esc(s):
    if s == "": return "\\e;"
    return "".join(c if 0x20 < ord(c) < 0x7f and c != "\\" else "\\%x;" % ord(c) for c in s)

def unesc(s):
    return re.sub(r"\\([0-9a-fA-F]+|e);", lambda m: "" if m.group(1) == "e" else chr(int(m.group(1), 16)), s)

def verdict(kind, src):
    """runs harness --replay on one source and the driver on its cases; returns list of verdict strings"""
    with tempfile.TemporaryDirectory() as d:
        rp = os.path.join(d, "r.txt"); out = os.path.join(d, "o.txt")
        if prop == "c05":
            open(rp, "w").write("CASE\tx\tN\twit\t%s\n" % esc(src))
        else:
            open(rp, "w").write("CASE\tx\tN\tdecode\t%s\t%s\n" % (esc(kind), esc(src)))
        subprocess.run([HARNESS, "--replay", rp, "--out", out], stdout=subprocess.DEVNULL, stderr=subprocess.DEVNULL)
        lines = [l.rstrip("\n") for l in open(out)] if os.path.exists(out) else []
        res = [unesc(l.split("\t")[2]) for l in lines if l.startswith("!FAIL")]
        cases = [l for l in lines if l and l[0] not in "!#"]
        if cases:
            inp = "".join("\t".join([p[0]] + p[2:]) + "\n" for p in (c.split("\t") for c in cases))
            r = subprocess.run([DRIVER], input=inp, capture_output=True, text=True)
            for l in r.stdout.splitlines():
                p = l.split("\t")
                if len(p) > 2 and p[1] != "ok":
                    res.append(p[1] + " " + "\t".join(p[2:]))
        return res

def klass(v):
    return re.sub(r"[a-z]*\d[\d.]*(-rc)?", "N", v)[:70]

def ddmin(kind, src, k):
    lines = src.split("\n")
    still = lambda ls: any(klass(v) == k for v in verdict(kind, "\n".join(ls)))
    chunk = max(len(lines) // 2, 1)
    while True:
        i = 0; progressed = False
        while i < len(lines):
            cand = lines[:i] + lines[i + chunk:]
            if cand and still(cand):
                lines = cand; progressed = True
            else:
                i += chunk
        if chunk == 1 and not progressed: break
        if not progressed or chunk > 1: chunk = max(chunk // 2, 1)
    return "\n".join(lines)

seen = {}
for l in open(sys.argv[2]):
    l = l.rstrip("\n")
    if l.startswith("CASE\t"): l = l[5:]
    p = l.split("\t")
    if len(p) < 4 or p[0].startswith(("#", "!")): continue
    if prop == "c05":
        kind, src = "wit", unesc(p[3])
    else:
        if p[2] != "decode": continue
        kind, src = unesc(p[3]), unesc(p[4])
    for v in verdict(kind, src):
        k = klass(v)
        if k not in seen or len(src) < len(seen[k][1]):
            seen[k] = (kind, src, v)
for k, (kind, src, v) in seen.items():
    m = ddmin(kind, src, k)
    print("=====", k)
    print([x for x in verdict(kind, m) if klass(x) == k][:1])
    print(m)
