#!/bin/sh
# build harness bin quickly: ./hb.sh c02
cd /tmp/vw-encode && rsync -a --delete --exclude Cargo.toml --exclude Cargo.lock --exclude target harness/ .cache/harness-cb5248b57a/ && cd .cache/harness-cb5248b57a && CARGO_TARGET_DIR=/tmp/vw-encode/.cache/target-cb5248b57a RUSTFLAGS="--cfg wac_verif" cargo build --offline --bin $1 2>&1 | grep -E '^(error|warning)' -A12 | head -${2:-80}
