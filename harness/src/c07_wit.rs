//! Random deeper types derived from WIT text: an interface and a mutated copy of it are encoded by
//! `wit_component`, decoded by `wac_types::Package::from_bytes` (once into one collection, and
//! a second time into an independent collection), and all corresponding kinds are compared.
use crate::tree::*;
use crate::{pair_case_built, Out, Rng};
use wac_types::{ItemKind, Type, Types};

#[derive(Clone, Debug, PartialEq)]
pub enum E {
    Prim(&'static str),
    Ref(usize),
    List(Box<E>),
    Option(Box<E>),
    Tuple(Vec<E>),
    Result(Option<Box<E>>, Option<Box<E>>),
}

#[derive(Clone, Debug, PartialEq)]
pub enum Body {
    Alias(E),
    Record(Vec<(String, E)>),
    Variant(Vec<(String, Option<E>)>),
    Enum(Vec<String>),
    Flags(Vec<String>),
}

#[derive(Clone, Debug, PartialEq)]
pub struct Func {
    pub name: String,
    pub is_async: bool,
    pub params: Vec<(String, E)>,
    pub result: Option<E>,
}

#[derive(Clone, Debug, PartialEq)]
pub struct Iface {
    pub decls: Vec<(String, Body)>,
    pub funcs: Vec<Func>,
}

const PRIMS: [&str; 8] = ["u8", "s16", "u32", "u64", "f32", "bool", "string", "char"];
const FIELD: [&str; 6] = ["a", "b", "c", "dd", "e1", "long-name"];

fn gen_e(r: &mut Rng, ndecl: usize, depth: usize) -> E {
    let k = if depth == 0 { r.below(3) } else { r.below(8) };
    match k {
        0 | 1 => E::Prim(PRIMS[r.below(PRIMS.len())]),
        2 => {
            if ndecl > 0 {
                E::Ref(r.below(ndecl))
            } else {
                E::Prim("u8")
            }
        }
        3 => E::List(Box::new(gen_e(r, ndecl, depth - 1))),
        4 => E::Option(Box::new(gen_e(r, ndecl, depth - 1))),
        5 => {
            let n = 1 + r.below(3);
            E::Tuple((0..n).map(|_| gen_e(r, ndecl, depth - 1)).collect())
        }
        6 => {
            let ok = if r.chance(2, 3) { Some(Box::new(gen_e(r, ndecl, depth - 1))) } else { None };
            let err = if r.chance(1, 2) { Some(Box::new(gen_e(r, ndecl, depth - 1))) } else { None };
            E::Result(ok, err)
        }
        _ => {
            if ndecl > 0 {
                E::Ref(r.below(ndecl))
            } else {
                E::List(Box::new(E::Prim("u8")))
            }
        }
    }
}

fn gen_names(r: &mut Rng, n: usize) -> Vec<String> {
    let mut v: Vec<String> = FIELD.iter().map(|s| s.to_string()).collect();
    r.shuffle(&mut v);
    v.truncate(n);
    v
}

pub fn gen_iface(r: &mut Rng) -> Iface {
    let nd = r.below(5);
    let mut decls = Vec::new();
    for i in 0..nd {
        let body = match r.below(5) {
            0 => Body::Alias(gen_e(r, i, 2)),
            1 => {
                let n = 1 + r.below(3);
                Body::Record(gen_names(r, n).into_iter().map(|f| (f, gen_e(r, i, 2))).collect())
            }
            2 => {
                let n = 1 + r.below(3);
                Body::Variant(
                    gen_names(r, n)
                        .into_iter()
                        .map(|f| (f, if r.chance(2, 3) { Some(gen_e(r, i, 1)) } else { None }))
                        .collect(),
                )
            }
            3 => {
                let n = 1 + r.below(3);
                Body::Enum(gen_names(r, n))
            }
            _ => {
                let n = 1 + r.below(3);
                Body::Flags(gen_names(r, n))
            }
        };
        decls.push((format!("t{i}"), body));
    }
    let nf = 1 + r.below(3);
    let mut funcs = Vec::new();
    for i in 0..nf {
        let np = r.below(3);
        funcs.push(Func {
            name: format!("f{i}"),
            is_async: r.chance(1, 6),
            params: gen_names(r, np).into_iter().map(|p| (p, gen_e(r, nd, 2))).collect(),
            result: if r.chance(1, 2) { Some(gen_e(r, nd, 2)) } else { None },
        });
    }
    Iface { decls, funcs }
}

fn mutate_e(r: &mut Rng, e: &mut E) {
    match e {
        E::Prim(p) => {
            let q = PRIMS[r.below(PRIMS.len())];
            *p = q;
        }
        E::List(x) => {
            if r.chance(1, 2) {
                let inner = (**x).clone();
                *e = E::Option(Box::new(inner));
            } else {
                mutate_e(r, x)
            }
        }
        E::Option(x) => {
            if r.chance(1, 2) {
                let inner = (**x).clone();
                *e = E::List(Box::new(inner));
            } else {
                mutate_e(r, x)
            }
        }
        E::Tuple(xs) => {
            if r.chance(1, 3) {
                xs.push(E::Prim("u8"));
            } else if xs.len() > 1 && r.chance(1, 2) {
                xs.swap(0, 1);
            } else {
                let i = r.below(xs.len());
                mutate_e(r, &mut xs[i]);
            }
        }
        E::Result(ok, err) => match r.below(4) {
            0 => *ok = if ok.is_some() { None } else { Some(Box::new(E::Prim("u8"))) },
            1 => *err = if err.is_some() { None } else { Some(Box::new(E::Prim("u8"))) },
            2 => std::mem::swap(ok, err),
            _ => {
                if let Some(x) = ok {
                    mutate_e(r, x)
                } else if let Some(x) = err {
                    mutate_e(r, x)
                }
            }
        },
        E::Ref(_) => *e = E::Prim("u8"),
    }
}

/// one small realistic change; returns a description of it
pub fn mutate(r: &mut Rng, it: &mut Iface) -> &'static str {
    for _ in 0..8 {
        match r.below(12) {
            0 if !it.funcs.is_empty() => {
                let i = r.below(it.funcs.len());
                it.funcs.remove(i);
                return "drop-func";
            }
            1 => {
                it.funcs.push(Func { name: "extra".into(), is_async: false, params: vec![], result: None });
                return "add-func";
            }
            2 if !it.funcs.is_empty() => {
                let i = r.below(it.funcs.len());
                it.funcs[i].is_async = !it.funcs[i].is_async;
                return "flip-async";
            }
            3 if !it.funcs.is_empty() => {
                let i = r.below(it.funcs.len());
                if let Some((n, _)) = it.funcs[i].params.first_mut() {
                    *n = "renamed".into();
                    return "rename-param";
                }
            }
            4 if !it.funcs.is_empty() => {
                let i = r.below(it.funcs.len());
                it.funcs[i].params.push(("extra".into(), E::Prim("u8")));
                return "add-param";
            }
            5 if !it.funcs.is_empty() => {
                let i = r.below(it.funcs.len());
                let f = &mut it.funcs[i];
                f.result = if f.result.is_some() { None } else { Some(E::Prim("u8")) };
                return "toggle-result";
            }
            6 if !it.funcs.is_empty() => {
                let i = r.below(it.funcs.len());
                let f = &mut it.funcs[i];
                if let Some(e) = f.result.as_mut() {
                    mutate_e(r, e);
                    return "change-result";
                }
                if let Some((_, e)) = f.params.first_mut() {
                    mutate_e(r, e);
                    return "change-param";
                }
            }
            7 if !it.funcs.is_empty() => {
                let i = r.below(it.funcs.len());
                if it.funcs[i].params.len() > 1 {
                    it.funcs[i].params.swap(0, 1);
                    return "swap-params";
                }
            }
            8 | 9 if !it.decls.is_empty() => {
                let i = r.below(it.decls.len());
                match &mut it.decls[i].1 {
                    Body::Alias(e) => {
                        mutate_e(r, e);
                        return "change-alias";
                    }
                    Body::Record(fs) => {
                        if fs.len() > 1 && r.chance(1, 3) {
                            fs.swap(0, 1);
                            return "swap-fields";
                        } else if r.chance(1, 2) {
                            fs[0].0 = "renamed".into();
                            return "rename-field";
                        } else {
                            let j = r.below(fs.len());
                            mutate_e(r, &mut fs[j].1);
                            return "change-field";
                        }
                    }
                    Body::Variant(cs) => {
                        if r.chance(1, 3) {
                            cs[0].0 = "renamed".into();
                            return "rename-case";
                        } else if r.chance(1, 2) {
                            cs[0].1 = if cs[0].1.is_some() { None } else { Some(E::Prim("u8")) };
                            return "toggle-case-payload";
                        } else {
                            cs.push(("extra".into(), None));
                            return "add-case";
                        }
                    }
                    Body::Enum(ns) | Body::Flags(ns) => {
                        if ns.len() > 1 && r.chance(1, 2) {
                            ns.swap(0, 1);
                            return "swap-names";
                        }
                        ns.push("extra".into());
                        return "add-name";
                    }
                }
            }
            10 if it.funcs.len() > 1 => {
                it.funcs.swap(0, 1);
                return "swap-funcs";
            }
            _ => {}
        }
    }
    "none"
}

fn show_e(e: &E) -> String {
    match e {
        E::Prim(p) => p.to_string(),
        E::Ref(i) => format!("t{i}"),
        E::List(x) => format!("list<{}>", show_e(x)),
        E::Option(x) => format!("option<{}>", show_e(x)),
        E::Tuple(xs) => format!("tuple<{}>", xs.iter().map(show_e).collect::<Vec<_>>().join(", ")),
        E::Result(None, None) => "result".into(),
        E::Result(Some(a), None) => format!("result<{}>", show_e(a)),
        E::Result(None, Some(b)) => format!("result<_, {}>", show_e(b)),
        E::Result(Some(a), Some(b)) => format!("result<{}, {}>", show_e(a), show_e(b)),
    }
}

pub fn show_iface(name: &str, it: &Iface) -> String {
    let mut s = format!("interface {name} {{\n");
    for (n, b) in &it.decls {
        match b {
            Body::Alias(e) => s.push_str(&format!("  type {n} = {};\n", show_e(e))),
            Body::Record(fs) => s.push_str(&format!(
                "  record {n} {{ {} }}\n",
                fs.iter().map(|(f, e)| format!("{f}: {}", show_e(e))).collect::<Vec<_>>().join(", ")
            )),
            Body::Variant(cs) => s.push_str(&format!(
                "  variant {n} {{ {} }}\n",
                cs.iter()
                    .map(|(c, e)| match e {
                        Some(e) => format!("{c}({})", show_e(e)),
                        None => c.clone(),
                    })
                    .collect::<Vec<_>>()
                    .join(", ")
            )),
            Body::Enum(ns) => s.push_str(&format!("  enum {n} {{ {} }}\n", ns.join(", "))),
            Body::Flags(ns) => s.push_str(&format!("  flags {n} {{ {} }}\n", ns.join(", "))),
        }
    }
    for f in &it.funcs {
        s.push_str(&format!(
            "  {}: {}func({}){};\n",
            f.name,
            if f.is_async { "async " } else { "" },
            f.params.iter().map(|(p, e)| format!("{p}: {}", show_e(e))).collect::<Vec<_>>().join(", "),
            match &f.result {
                Some(e) => format!(" -> {}", show_e(e)),
                None => String::new(),
            }
        ));
    }
    s.push_str("}\n");
    s
}

fn iface_kind(types: &Types, pkg: &wac_types::Package, name: &str) -> Option<ItemKind> {
    for (n, k) in pkg.definitions() {
        if n == name || n.ends_with(&format!("/{name}")) {
            if let ItemKind::Type(Type::Interface(i)) = k {
                let _ = &types[*i];
                return Some(ItemKind::Instance(*i));
            }
        }
    }
    None
}

pub fn wit_cases(out: &mut Out, r: &mut Rng) {
    let a = gen_iface(r);
    let mut bq = a.clone();
    let what = if r.chance(1, 5) { "identical" } else { mutate(r, &mut bq) };
    out.count(&format!("wit-mutation:{what}"));
    let wit = format!("package t:p;\n{}{}", show_iface("a", &a), show_iface("b", &bq));
    // collection 1 holds both; collection 2 is an independently decoded copy of the same package
    let mut t1 = Types::default();
    let p1 = match types_from_wit("p", &wit, &mut t1) {
        Ok(p) => p,
        Err(e) => {
            out.count("wit:rejected");
            if std::env::var("WACV_DEBUG").is_ok() {
                eprintln!("wit rejected: {e:#}\n{wit}");
            }
            return;
        }
    };
    let mut t2 = Types::default();
    let p2 = types_from_wit("p", &wit, &mut t2).expect("second decode");
    let (Some(a1), Some(b1), Some(a2), Some(b2)) =
        (iface_kind(&t1, &p1, "a"), iface_kind(&t1, &p1, "b"), iface_kind(&t2, &p2, "a"), iface_kind(&t2, &p2, "b"))
    else {
        out.count("wit:no-definitions");
        return;
    };
    out.count("wit:decoded");
    let differ = a != bq;
    // whole interfaces, both directions, same collection and across collections
    pair_case_built(out, &t1, a1, None, b1, None, false, differ);
    pair_case_built(out, &t1, b1, None, a1, None, false, differ);
    pair_case_built(out, &t1, a1, Some(&t2), b2, None, false, differ);
    pair_case_built(out, &t1, b1, Some(&t2), a2, None, false, differ);
    // reflexivity across independently decoded copies
    pair_case_built(out, &t1, a1, Some(&t2), a2, None, false, true);
    pair_case_built(out, &t2, b2, Some(&t1), b1, None, false, true);
    // every export against the export of the same name on the other side
    let (ItemKind::Instance(ia), ItemKind::Instance(ib)) = (a1, b2) else { return };
    let ea: Vec<(String, ItemKind)> = t1[ia].exports.iter().map(|(n, k)| (n.clone(), *k)).collect();
    for (n, ka) in ea {
        if let Some(kb) = t2[ib].exports.get(&n).copied() {
            pair_case_built(out, &t1, ka, Some(&t2), kb, None, false, differ);
            pair_case_built(out, &t2, kb, Some(&t1), ka, None, false, differ);
        }
    }
}


/// `set_instantiation_argument` verdicts: component A exports interface `a`, component B imports
/// an interface of the same name with (mutated) contents; the argument is A's export.
pub fn arg_case(out: &mut Out, r: &mut Rng) {
    use wac_graph::{CompositionGraph, InstantiationArgumentError};
    let a = gen_iface(r);
    let mut bq = a.clone();
    let what = if r.chance(1, 3) { "identical" } else { mutate(r, &mut bq) };
    let build = |it: &Iface, world: &str| -> anyhow::Result<Vec<u8>> {
        let wit = format!("package t:p;\n{}world w {{ {world} a; }}\n", show_iface("a", it));
        let mut resolve = wit_parser::Resolve::default();
        let pkg = resolve.push_str("p.wit", &wit)?;
        let world = resolve.select_world(&[pkg], None)?;
        let mut module = wit_component::dummy_module(
            &resolve,
            world,
            wit_parser::ManglingAndAbi::Legacy(wit_parser::LiftLowerAbi::Sync),
        );
        wit_component::embed_component_metadata(&mut module, &resolve, world, wit_component::StringEncoding::default())?;
        let mut enc = wit_component::ComponentEncoder::default().validate(true).module(&module)?;
        enc.encode()
    };
    let (Ok(ca), Ok(cb)) = (build(&a, "export"), build(&bq, "import")) else {
        out.count("arg:component-rejected");
        return;
    };
    let mut graph = CompositionGraph::new();
    let (Ok(pa), Ok(pb)) = (
        wac_types::Package::from_bytes("exp", None, ca, graph.types_mut()),
        wac_types::Package::from_bytes("imp", None, cb, graph.types_mut()),
    ) else {
        out.count("arg:decode-failed");
        return;
    };
    let name = "t:p/a";
    let Some(expected) = graph.types()[pb.ty()].imports.get(name).copied() else {
        out.count("arg:no-import");
        return;
    };
    let (Ok(ida), Ok(idb)) = (graph.register_package(pa), graph.register_package(pb)) else { return };
    let ia = graph.instantiate(ida);
    let ib = graph.instantiate(idb);
    let Ok(alias) = graph.alias_instance_export(ia, name) else {
        out.count("arg:no-export");
        return;
    };
    let kind = graph[alias].item_kind();
    let res = crate::guarded(std::panic::AssertUnwindSafe(|| graph.set_instantiation_argument(ib, name, alias)));
    let (v, msg) = match res {
        Ok(Ok(())) => ("1".to_string(), String::new()),
        Ok(Err(InstantiationArgumentError::ArgumentTypeMismatch { source, .. })) => ("0".to_string(), format!("{source:#}")),
        Ok(Err(e)) => ("P".to_string(), format!("{e}")),
        Err(p) => ("P".to_string(), p),
    };
    out.count(&format!("arg-verdict:{v}"));
    out.count(&format!("arg-mutation:{what}"));
    let fields = vec![
        crate::esc(&ser_types(graph.types(), 1)),
        crate::esc(&ser_kind(kind)),
        "=".to_string(),
        crate::esc(&ser_kind(expected)),
        v,
        crate::esc(&msg),
        "-".to_string(),
    ];
    out.case(a != bq, "pair", &fields);
}
