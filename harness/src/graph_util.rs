//! Shared by the graph-family harnesses (C06, C16, C10): the small universe of packages, kinds,
//! types and names; graph operations as data; execution against the real `CompositionGraph`
//! with the observation after each step; generators.
#![allow(dead_code)]
use std::collections::{BTreeSet, HashMap};
use std::panic::AssertUnwindSafe;
use wac_graph::types::{
    DefinedType, Enum, FuncType, ItemKind, Package, PrimitiveType, Record, Resource, SubtypeChecker, Type, Types,
    ValueType,
};
use wac_graph::{
    AliasError, CompositionGraph, DefineTypeError, EncodeOptions, ExportError, ImportError,
    InstantiationArgumentError, NodeId, NodeKind, PackageId, RegisterPackageError, UnexportError,
};
use wacv::*;

pub const MAX_NODES: usize = 8;

pub struct Uni {
    pub base: CompositionGraph,
    pub names: Vec<String>,
    pub kinds: Vec<ItemKind>,
    pub kind_ix: HashMap<String, usize>,
    pub types: Vec<Type>,
    pub type_ix: HashMap<String, usize>,
    pub ty_kind: Vec<usize>,
    pub pkgs: Vec<Package>,
    pub pkg_by_ty: HashMap<String, usize>,
    pub sub: Vec<Vec<bool>>,
    pub node_ids: Vec<NodeId>,
    pub import_kinds: Vec<usize>,
    pub kind_alias: HashMap<&'static str, usize>,
    forged: std::cell::RefCell<HashMap<(usize, usize), PackageId>>,
}

pub const PKG_WAT: [(&str, Option<&str>, &str); 4] = [
    (
        "test:a",
        None,
        r#"(component
            (import "f" (func))
            (import "g" (func))
            (export "f" (func 0))
            (export "h" (func 1)))"#,
    ),
    (
        "test:b",
        Some("1.0.0"),
        r#"(component
            (import "f" (func))
            (import "i" (instance (export "x" (func))))
            (import "n" (func (param "a" u32)))
            (export "i" (instance 0))
            (export "g" (func 0)))"#,
    ),
    (
        "test:c",
        None,
        r#"(component
            (import "g" (func (param "a" u32)))
            (import "x" (func))
            (export "n" (func 0))
            (export "f" (func 0)))"#,
    ),
    (
        "test:a",
        None,
        r#"(component
            (import "i" (instance (export "x" (func))))
            (export "x" (instance 0)))"#,
    ),
];

pub const NAMES: [&str; 16] = [
    "f", "g", "i", "n", "x", "h", "", "unlocked-dep=<a:b>", "Bad Name", "test:a", "test:b", "test:c", "1.0.0", "k",
    "url=<https://x.y>", "a:b/c@1.0.0",
];

impl Uni {
    /// the fixed C06/C16 universe
    pub fn build() -> Uni {
        let pk: Vec<(String, Option<String>, String)> =
            PKG_WAT.iter().map(|(n, v, w)| (n.to_string(), v.map(|x| x.to_string()), w.to_string())).collect();
        Uni::build_with(&pk, NAMES.iter().map(|s| s.to_string()).collect(), true).expect("universe")
    }

    /// a universe from package WAT texts (C10 generates one per case); `names` = string table
    pub fn build_with(pk: &[(String, Option<String>, String)], names: Vec<String>, fixed: bool) -> Result<Uni, String> {
        let mut base = CompositionGraph::new();
        let mut pkgs = Vec::new();
        for (name, ver, wat_text) in pk.iter() {
            let bytes = wat::parse_str(wat_text).map_err(|e| format!("wat: {e}"))?;
            let v = ver.as_ref().map(|v| semver::Version::parse(v).unwrap());
            let p = Package::from_bytes(name, v.as_ref(), bytes, base.types_mut()).map_err(|e| format!("package: {e:#}"))?;
            pkgs.push(p);
        }
        // types defined directly in the graph (arena order = dependency order)
        let t = base.types_mut();
        let mut rec = Record { fields: Default::default() };
        rec.fields.insert("a".to_string(), ValueType::Primitive(PrimitiveType::U32));
        let t0 = t.add_defined_type(DefinedType::Record(rec));
        let t1 = t.add_defined_type(DefinedType::List(ValueType::Defined(t0)));
        let t2 = t.add_defined_type(DefinedType::Tuple(vec![ValueType::Defined(t1), ValueType::Defined(t0)]));
        let mut en = Enum(Default::default());
        en.0.insert("a".to_string());
        let t3 = t.add_defined_type(DefinedType::Enum(en));
        let t4 = t.add_defined_type(DefinedType::Option(ValueType::Defined(t0)));
        let t7 = t.add_defined_type(DefinedType::Result { ok: Some(ValueType::Defined(t0)), err: None });
        let t8 = t.add_defined_type(DefinedType::Tuple(vec![ValueType::Defined(t0)]));
        let t9 = t.add_defined_type(DefinedType::Option(ValueType::Defined(t1)));
        let res = t.add_resource(Resource { name: "r".to_string(), alias: None });
        let mut ft = FuncType::default();
        ft.params.insert("p".to_string(), ValueType::Defined(t0));
        ft.result = Some(ValueType::Defined(t3));
        let f = t.add_func_type(ft);
        let types: Vec<Type> = vec![
            Type::Value(ValueType::Defined(t0)),
            Type::Value(ValueType::Defined(t1)),
            Type::Value(ValueType::Defined(t2)),
            Type::Value(ValueType::Defined(t3)),
            Type::Value(ValueType::Defined(t4)),
            Type::Resource(res),
            Type::Func(f),
            Type::Value(ValueType::Defined(t7)),
            Type::Value(ValueType::Defined(t8)),
            Type::Value(ValueType::Defined(t9)),
        ];
        let type_ix: HashMap<String, usize> = types.iter().enumerate().map(|(i, t)| (format!("{t:?}"), i)).collect();

        // kinds: children before parents
        let mut kinds: Vec<ItemKind> = Vec::new();
        fn visit(types: &Types, k: ItemKind, kinds: &mut Vec<ItemKind>) {
            if kinds.contains(&k) {
                return;
            }
            if let ItemKind::Instance(id) = k {
                let children: Vec<ItemKind> = types[id].exports.values().copied().collect();
                for c in children {
                    visit(types, c, kinds);
                }
            }
            if !kinds.contains(&k) {
                kinds.push(k);
            }
        }
        let tys = base.types();
        for p in &pkgs {
            for (_, k) in &tys[p.ty()].imports {
                visit(tys, *k, &mut kinds);
            }
            visit(tys, ItemKind::Instance(p.instance_type()), &mut kinds);
        }
        for t in &types {
            visit(tys, ItemKind::Type(*t), &mut kinds);
        }
        let kind_ix: HashMap<String, usize> = kinds.iter().enumerate().map(|(i, k)| (format!("{k:?}"), i)).collect();
        let ty_kind: Vec<usize> = types.iter().map(|t| kind_ix[&format!("{:?}", ItemKind::Type(*t))]).collect();
        let mut sub = vec![vec![false; kinds.len()]; kinds.len()];
        for (i, a) in kinds.iter().enumerate() {
            for (j, b) in kinds.iter().enumerate() {
                let mut cache = Default::default();
                let mut c = SubtypeChecker::new(&mut cache);
                sub[i][j] = c.is_subtype(*a, tys, *b, tys).is_ok();
            }
        }
        let pkg_by_ty = pkgs.iter().enumerate().map(|(i, p)| (format!("{:?}", p.ty()), i)).collect();

        // kinds used by explicit imports: func(), instance{x}, func(u32), the type t0, the instance of pkg 0
        let mut import_kinds = Vec::new();
        let mut kind_alias = HashMap::new();
        if fixed {
            let k_func = kind_ix[&format!("{:?}", tys[pkgs[0].ty()].imports["f"])];
            let k_inst = kind_ix[&format!("{:?}", tys[pkgs[1].ty()].imports["i"])];
            let k_funcu = kind_ix[&format!("{:?}", tys[pkgs[1].ty()].imports["n"])];
            let k_type0 = ty_kind[0];
            let k_pkg0 = kind_ix[&format!("{:?}", ItemKind::Instance(pkgs[0].instance_type()))];
            import_kinds = vec![k_func, k_inst, k_funcu, k_type0, k_pkg0];
            kind_alias.insert("func", k_func);
            kind_alias.insert("inst", k_inst);
            kind_alias.insert("funcu32", k_funcu);
            kind_alias.insert("type0", k_type0);
            kind_alias.insert("pkg0", k_pkg0);
        }

        // node ids 0..N from a scratch graph
        let mut scratch = CompositionGraph::new();
        let mut node_ids = Vec::new();
        for i in 0..(MAX_NODES + 8) {
            let id = scratch
                .import(format!("n{i}"), ItemKind::Type(Type::Value(ValueType::Primitive(PrimitiveType::U8))))
                .unwrap();
            node_ids.push(id);
        }
        KIND_ALIAS.with(|m| {
            for (k, v) in &kind_alias {
                m.borrow_mut().insert(k.to_string(), *v);
            }
        });
        Ok(Uni {
            base,
            names,
            kinds,
            kind_ix,
            types,
            type_ix,
            ty_kind,
            pkgs,
            pkg_by_ty,
            sub,
            node_ids,
            import_kinds,
            kind_alias,
            forged: Default::default(),
        })
    }

    pub fn name_ix(&self, s: &str) -> i64 {
        self.names.iter().position(|n| n == s).map(|i| i as i64).unwrap_or_else(|| panic!("name {s:?} not in table"))
    }

    pub fn kind_of(&self, k: ItemKind) -> usize {
        *self.kind_ix.get(&format!("{k:?}")).unwrap_or_else(|| panic!("kind {k:?} not in universe"))
    }

    /// a `PackageId` with the given slot and generation, made with a scratch graph
    pub fn pkg_id(&self, slot: usize, gen: usize) -> PackageId {
        if let Some(id) = self.forged.borrow().get(&(slot, gen)) {
            return *id;
        }
        let mut g = CompositionGraph::new();
        let bytes = wat::parse_str("(component)").unwrap();
        let mut last = None;
        for i in 0..=slot {
            let p = Package::from_bytes(&format!("scratch:p{i}"), None, bytes.clone(), g.types_mut()).unwrap();
            last = Some((g.register_package(p.clone()).unwrap(), p));
        }
        let (mut id, p) = last.unwrap();
        for _ in 0..gen {
            g.unregister_package(id);
            id = g.register_package(p.clone()).unwrap();
        }
        assert_eq!(CompositionGraph::verif_package_id(id), (slot, gen));
        self.forged.borrow_mut().insert((slot, gen), id);
        id
    }

    /// the static context for the Lean model
    pub fn ctx_tokens(&self) -> Vec<String> {
        let tys = self.base.types();
        let mut t: Vec<String> = Vec::new();
        t.push(self.names.len().to_string());
        for n in &self.names {
            let cn = wasmparser::names::ComponentName::new(n, 0);
            let valid = cn.is_ok();
            let valid_export = match &cn {
                Ok(c) => !matches!(
                    c.kind(),
                    wasmparser::names::ComponentNameKind::Hash(_)
                        | wasmparser::names::ComponentNameKind::Url(_)
                        | wasmparser::names::ComponentNameKind::Dependency(_)
                ),
                Err(_) => false,
            };
            t.push(esc(n));
            t.push((valid as u8).to_string());
            t.push((valid_export as u8).to_string());
        }
        t.push(self.kinds.len().to_string());
        for k in &self.kinds {
            match k {
                ItemKind::Instance(id) => {
                    let ex = &tys[*id].exports;
                    t.push(ex.len().to_string());
                    for (n, k) in ex {
                        t.push(self.name_ix(n).to_string());
                        t.push(self.kind_of(*k).to_string());
                    }
                }
                _ => t.push("-1".into()),
            }
        }
        for row in &self.sub {
            t.push(row.iter().map(|b| if *b { '1' } else { '0' }).collect());
        }
        t.push(self.types.len().to_string());
        for (i, ty) in self.types.iter().enumerate() {
            t.push((matches!(ty, Type::Resource(_)) as u8).to_string());
            t.push(self.ty_kind[i].to_string());
            let mut visits: Vec<usize> = Vec::new();
            let _ = ty.visit_defined_types(tys, &mut |_, id| -> Result<(), ()> {
                if let Some(ix) = self.type_ix.get(&format!("{:?}", Type::Value(ValueType::Defined(id)))) {
                    visits.push(*ix);
                }
                Ok(())
            });
            t.push(visits.len().to_string());
            for v in visits {
                t.push(v.to_string());
            }
        }
        t.push(self.pkgs.len().to_string());
        for p in &self.pkgs {
            t.push(self.name_ix(p.name()).to_string());
            t.push(match p.version() {
                Some(v) => self.name_ix(&v.to_string()).to_string(),
                None => "-1".into(),
            });
            t.push(self.kind_of(ItemKind::Instance(p.instance_type())).to_string());
            let im = &tys[p.ty()].imports;
            t.push(im.len().to_string());
            for (n, k) in im {
                t.push(self.name_ix(n).to_string());
                t.push(self.kind_of(*k).to_string());
            }
        }
        // which behaviour `export` has on a definition node (DESIGN §10 row 4, not C06's
        // subject): probed, so that the model follows the implementation on this point
        t.push((export_renames_definition() as u8).to_string());
        t
    }
}

/// does `export(node, name)` overwrite the export name of a definition node?
pub fn export_renames_definition() -> bool {
    let mut g = CompositionGraph::new();
    let id = g.types_mut().add_defined_type(DefinedType::Alias(ValueType::Primitive(PrimitiveType::U8)));
    let n = g.define_type("a", Type::Value(ValueType::Defined(id))).expect("define");
    g.export(n, "b").expect("export");
    g[n].export_name() == Some("b")
}

#[derive(Clone, Debug, PartialEq)]
pub enum Op {
    Reg(usize),
    Unreg(usize, usize),
    Def(usize, usize),
    Imp(usize, usize),
    Inst(usize, usize),
    Alias(usize, usize),
    Set(usize, usize, usize),
    Unset(usize, usize, usize),
    Exp(usize, usize),
    Unexp(usize),
    Name(usize, usize),
    Rm(usize),
}

impl Op {
    pub fn code(&self) -> &'static str {
        match self {
            Op::Reg(..) => "reg",
            Op::Unreg(..) => "unreg",
            Op::Def(..) => "def",
            Op::Imp(..) => "imp",
            Op::Inst(..) => "inst",
            Op::Alias(..) => "alias",
            Op::Set(..) => "set",
            Op::Unset(..) => "unset",
            Op::Exp(..) => "exp",
            Op::Unexp(..) => "unexp",
            Op::Name(..) => "name",
            Op::Rm(..) => "rm",
        }
    }
    pub fn nums(&self) -> Vec<usize> {
        match *self {
            Op::Reg(a) | Op::Unexp(a) | Op::Rm(a) => vec![a],
            Op::Unreg(a, b) | Op::Def(a, b) | Op::Imp(a, b) | Op::Inst(a, b) | Op::Alias(a, b) | Op::Exp(a, b) | Op::Name(a, b) => {
                vec![a, b]
            }
            Op::Set(a, b, c) | Op::Unset(a, b, c) => vec![a, b, c],
        }
    }
    pub fn text(&self) -> String {
        let mut s = self.code().to_string();
        for n in self.nums() {
            s.push(':');
            s.push_str(&n.to_string());
        }
        s
    }
}

pub fn ops_text(ops: &[Op]) -> String {
    ops.iter().map(|o| o.text()).collect::<Vec<_>>().join(";")
}

/// `code:a:b` with numbers, or names / kind aliases for readability in hand-written scenarios
pub fn parse_ops(text: &str) -> Vec<Op> {
    let name = |s: &str| -> usize {
        s.parse::<usize>().unwrap_or_else(|_| NAMES.iter().position(|n| *n == s).unwrap_or_else(|| panic!("name {s}")))
    };
    let kind = |s: &str| -> usize {
        s.parse::<usize>().unwrap_or_else(|_| {
            KIND_ALIAS.with(|m| *m.borrow().get(s).unwrap_or_else(|| panic!("kind alias {s}")))
        })
    };
    let num = |s: &str| -> usize { s.parse().unwrap_or_else(|_| panic!("number {s}")) };
    let mut out = Vec::new();
    for part in text.split(';') {
        let part = part.trim();
        if part.is_empty() {
            continue;
        }
        let f: Vec<&str> = part.split(':').collect();
        // numeric form always has numeric name indices; textual form uses the names themselves
        let numeric = f[1..].iter().all(|x| x.parse::<usize>().is_ok());
        let nm = |s: &str| if numeric { num(s) } else { name(s) };
        out.push(match f[0] {
            "reg" => Op::Reg(num(f[1])),
            "unreg" => Op::Unreg(num(f[1]), num(f[2])),
            "def" => Op::Def(nm(f[1]), num(f[2])),
            "imp" => Op::Imp(nm(f[1]), if numeric { num(f[2]) } else { kind(f[2]) }),
            "inst" => Op::Inst(num(f[1]), num(f[2])),
            "alias" => Op::Alias(num(f[1]), nm(f[2])),
            "set" => Op::Set(num(f[1]), nm(f[2]), num(f[3])),
            "unset" => Op::Unset(num(f[1]), nm(f[2]), num(f[3])),
            "exp" => Op::Exp(num(f[1]), nm(f[2])),
            "unexp" => Op::Unexp(num(f[1])),
            "name" => Op::Name(num(f[1]), nm(f[2])),
            "rm" => Op::Rm(num(f[1])),
            other => panic!("op {other}"),
        });
    }
    out
}

thread_local! {
    pub static KIND_ALIAS: std::cell::RefCell<HashMap<String, usize>> = Default::default();
}

/// the ops text of a `CASE\t…` replay line (or of a raw case line) of the given kind
pub fn replay_ops(line: &str, kind: &str) -> Option<String> {
    let line = line.strip_prefix("CASE\t").unwrap_or(line);
    let f: Vec<&str> = line.split('\t').collect();
    // <id> <N|T> <kind> <ops-text> …
    if f.len() >= 4 && f[2] == kind {
        Some(unesc(f[3]))
    } else {
        None
    }
}

#[derive(Clone, Debug, PartialEq)]
pub enum Res {
    Ok,
    OkNode(usize),
    OkPkg(usize, usize),
    Err(&'static str, Vec<i64>),
    Panic(String),
}

impl Res {
    pub fn is_panic(&self) -> bool {
        matches!(self, Res::Panic(_))
    }
    pub fn is_ok(&self) -> bool {
        matches!(self, Res::Ok | Res::OkNode(_) | Res::OkPkg(..))
    }
    pub fn tokens(&self) -> Vec<String> {
        match self {
            Res::Ok => vec!["ok".into()],
            Res::OkNode(n) => vec!["okn".into(), n.to_string()],
            Res::OkPkg(s, g) => vec!["okp".into(), s.to_string(), g.to_string()],
            Res::Err(v, a) => {
                let mut t = vec!["err".to_string(), v.to_string(), a.len().to_string()];
                t.extend(a.iter().map(|x| x.to_string()));
                t
            }
            Res::Panic(m) => vec!["panic".into(), esc(m)],
        }
    }
    pub fn class(&self) -> String {
        match self {
            Res::Ok | Res::OkNode(_) | Res::OkPkg(..) => "ok".into(),
            Res::Err(v, _) => format!("err:{v}"),
            Res::Panic(_) => "panic".into(),
        }
    }
}

#[derive(Clone, Debug, Default)]
pub struct DNode {
    pub idx: usize,
    pub kind: u8, // 0 def 1 import 2 inst 3 alias
    pub item: usize,
    pub pkg: Option<(usize, usize)>,
    pub name: Option<String>,
    pub export: Option<String>,
    pub import: Option<String>,
    pub ty: Option<usize>,
    pub sat: Vec<usize>,
    pub outs: Vec<(usize, u8, usize)>,
    pub ins: Vec<(usize, u8, usize)>,
}

#[derive(Clone, Debug, Default)]
pub struct Dump {
    pub bound: usize,
    pub nodes: Vec<DNode>,
    pub imports: Vec<(String, usize)>,
    pub exports: Vec<(String, usize)>,
    pub defined: Vec<(usize, usize)>,
    pub packages: Vec<(usize, Option<usize>)>,
    pub pkgmap: Vec<(String, usize, usize)>,
    pub freepkgs: Vec<usize>,
}

fn unescape_default(s: &str) -> String {
    // names of the universe contain nothing `escape_default` changes except `\\`-free ASCII
    s.to_string()
}

fn opt_str(s: &str) -> Option<String> {
    s.strip_prefix('+').map(unescape_default)
}

fn edge_list(s: &str) -> Vec<(usize, u8, usize)> {
    s.split(' ')
        .filter(|x| !x.is_empty())
        .map(|x| {
            let (n, w) = x.split_once('/').unwrap();
            let (k, i) = match w.split_once(':') {
                Some(("alias", i)) => (0u8, i.parse().unwrap()),
                Some(("arg", i)) => (1u8, i.parse().unwrap()),
                _ => (2u8, 0usize),
            };
            (n.parse().unwrap(), k, i)
        })
        .collect()
}

impl Dump {
    pub fn parse(uni: &Uni, text: &str) -> Dump {
        let mut d = Dump::default();
        for line in text.lines() {
            let f: Vec<&str> = line.split('\t').collect();
            match f[0] {
                "bound" => d.bound = f[1].parse().unwrap(),
                "node" => {
                    let kind = match f[2] {
                        "def" => 0,
                        "import" => 1,
                        "inst" => 2,
                        _ => 3,
                    };
                    let item = *uni.kind_ix.get(f[3]).unwrap_or_else(|| panic!("kind {} not in universe", f[3]));
                    let pkg = f[4].split_once(':').map(|(a, b)| (a.parse().unwrap(), b.parse().unwrap()));
                    let sat: Vec<usize> = f[8]
                        .trim_matches(|c| c == '[' || c == ']')
                        .split(',')
                        .filter(|x| !x.is_empty())
                        .map(|x| x.parse().unwrap())
                        .collect();
                    let ty = if kind == 0 { uni.ty_kind.iter().position(|k| *k == item) } else { None };
                    d.nodes.push(DNode {
                        idx: f[1].parse().unwrap(),
                        kind,
                        item,
                        pkg,
                        name: opt_str(f[5]),
                        export: opt_str(f[6]),
                        import: opt_str(f[7]),
                        ty,
                        sat,
                        outs: vec![],
                        ins: vec![],
                    });
                }
                "out" => d.nodes.last_mut().unwrap().outs = edge_list(f.get(2).copied().unwrap_or("")),
                "in" => d.nodes.last_mut().unwrap().ins = edge_list(f.get(2).copied().unwrap_or("")),
                "import" => d.imports.push((unescape_default(f[1]), f[2].parse().unwrap())),
                "export" => d.exports.push((unescape_default(f[1]), f[2].parse().unwrap())),
                "defined" => d.defined.push((uni.type_ix[f[1]], f[2].parse().unwrap())),
                "package" => {
                    let def = if f[3] == "-" { None } else { Some(uni.pkg_by_ty[f[4]]) };
                    d.packages.push((f[2].parse().unwrap(), def));
                }
                "pkgmap" => {
                    let (i, g) = f[2].split_once(':').unwrap();
                    d.pkgmap.push((f[1].to_string(), i.parse().unwrap(), g.parse().unwrap()));
                }
                "freepkgs" => {
                    d.freepkgs = f.get(1).copied().unwrap_or("").split(',').filter(|x| !x.is_empty()).map(|x| x.parse().unwrap()).collect()
                }
                other => panic!("dump line {other}"),
            }
        }
        d
    }

    pub fn live(&self, n: usize) -> bool {
        self.nodes.iter().any(|x| x.idx == n)
    }
    pub fn node(&self, n: usize) -> Option<&DNode> {
        self.nodes.iter().find(|x| x.idx == n)
    }
    pub fn pkg_live(&self, slot: usize, gen: usize) -> bool {
        self.packages.get(slot).map(|(g, d)| *g == gen && d.is_some()).unwrap_or(false)
    }
}

fn oi(o: Option<usize>) -> String {
    match o {
        Some(x) => x.to_string(),
        None => "-1".into(),
    }
}

pub struct State {
    pub g: CompositionGraph,
    pub dump: Dump,
    /// every package id (slot, gen) ever returned
    pub seen_pkgs: BTreeSet<(usize, usize)>,
    /// run the validator oracle on successful encodings in `observe`
    pub validate: bool,
}

impl State {
    pub fn new(uni: &Uni) -> State {
        let g = uni.base.clone();
        let dump = Dump::parse(uni, &g.verif_dump());
        State { g, dump, seen_pkgs: BTreeSet::new(), validate: false }
    }

    pub fn refresh(&mut self, uni: &Uni) {
        self.dump = Dump::parse(uni, &self.g.verif_dump());
    }

    /// are all identifiers of the op live in the current state?
    pub fn ids_live(&self, op: &Op) -> bool {
        let d = &self.dump;
        match *op {
            Op::Reg(_) | Op::Def(..) | Op::Imp(..) => true,
            Op::Unreg(s, g) | Op::Inst(s, g) => d.pkg_live(s, g),
            Op::Alias(n, _) | Op::Exp(n, _) | Op::Unexp(n) | Op::Name(n, _) | Op::Rm(n) => d.live(n),
            Op::Set(i, _, a) | Op::Unset(i, _, a) => d.live(i) && d.live(a),
        }
    }

    /// apply one operation to the real graph
    pub fn apply(&mut self, uni: &Uni, op: &Op) -> Res {
        let nid = |n: usize| uni.node_ids[n];
        let name = |i: usize| uni.names[i].clone();
        let g = &mut self.g;
        let r = guarded(AssertUnwindSafe(|| -> Res {
            match *op {
                Op::Reg(d) => match g.register_package(uni.pkgs[d].clone()) {
                    Ok(id) => {
                        let (s, gen) = CompositionGraph::verif_package_id(id);
                        Res::OkPkg(s, gen)
                    }
                    Err(RegisterPackageError::PackageAlreadyRegistered { key }) => Res::Err(
                        "PackageAlreadyRegistered",
                        vec![uni.name_ix(key.name()), key.version().map(|v| uni.name_ix(&v.to_string())).unwrap_or(-1)],
                    ),
                },
                Op::Unreg(s, gen) => {
                    g.unregister_package(uni.pkg_id(s, gen));
                    Res::Ok
                }
                Op::Def(n, t) => match g.define_type(name(n), uni.types[t]) {
                    Ok(id) => Res::OkNode(id.to_string().parse().unwrap()),
                    Err(DefineTypeError::TypeAlreadyDefined) => Res::Err("TypeAlreadyDefined", vec![]),
                    Err(DefineTypeError::CannotDefineResource) => Res::Err("CannotDefineResource", vec![]),
                    Err(DefineTypeError::ExportConflict { name }) => Res::Err("ExportConflict", vec![uni.name_ix(&name)]),
                    Err(DefineTypeError::InvalidExternName { name, .. }) => {
                        Res::Err("InvalidExternName", vec![uni.name_ix(&name)])
                    }
                },
                Op::Imp(n, k) => match g.import(name(n), uni.kinds[k]) {
                    Ok(id) => Res::OkNode(id.to_string().parse().unwrap()),
                    Err(ImportError::ImportAlreadyExists { name, node }) => {
                        Res::Err("ImportAlreadyExists", vec![uni.name_ix(&name), node.to_string().parse().unwrap()])
                    }
                    Err(ImportError::InvalidImportName { name, .. }) => {
                        Res::Err("InvalidImportName", vec![uni.name_ix(&name)])
                    }
                },
                Op::Inst(s, gen) => {
                    let id = g.instantiate(uni.pkg_id(s, gen));
                    Res::OkNode(id.to_string().parse().unwrap())
                }
                Op::Alias(n, e) => match g.alias_instance_export(nid(n), &name(e)) {
                    Ok(id) => Res::OkNode(id.to_string().parse().unwrap()),
                    Err(AliasError::NodeIsNotAnInstance { node, .. }) => {
                        Res::Err("NodeIsNotAnInstance", vec![node.to_string().parse().unwrap()])
                    }
                    Err(AliasError::InstanceMissingExport { node, export }) => {
                        Res::Err("InstanceMissingExport", vec![node.to_string().parse().unwrap(), uni.name_ix(&export)])
                    }
                },
                Op::Set(i, n, a) => arg_result(uni, g.set_instantiation_argument(nid(i), &name(n), nid(a))),
                Op::Unset(i, n, a) => arg_result(uni, g.unset_instantiation_argument(nid(i), &name(n), nid(a))),
                Op::Exp(n, e) => match g.export(nid(n), name(e)) {
                    Ok(()) => Res::Ok,
                    Err(ExportError::ExportAlreadyExists { name, node }) => {
                        Res::Err("ExportAlreadyExists", vec![uni.name_ix(&name), node.to_string().parse().unwrap()])
                    }
                    Err(ExportError::InvalidExportName { name, .. }) => {
                        Res::Err("InvalidExportName", vec![uni.name_ix(&name)])
                    }
                },
                Op::Unexp(n) => match g.unexport(nid(n)) {
                    Ok(()) => Res::Ok,
                    Err(UnexportError::MustExportDefinition) => Res::Err("MustExportDefinition", vec![]),
                },
                Op::Name(n, s) => {
                    g.set_node_name(nid(n), name(s));
                    Res::Ok
                }
                Op::Rm(n) => {
                    g.remove_node(nid(n));
                    Res::Ok
                }
            }
        }));
        let res = match r {
            Ok(r) => r,
            Err(msg) => Res::Panic(msg),
        };
        if let Res::OkPkg(s, gen) = res {
            self.seen_pkgs.insert((s, gen));
        }
        if !res.is_panic() {
            self.refresh(uni);
        }
        res
    }

    /// observation tokens: state dump, every public query, the hook's invariant report
    /// returns (tokens, invariant report, query panic)
    pub fn observe(&self, uni: &Uni, with_encode: bool) -> (Vec<String>, Vec<String>, Option<String>) {
        let d = &self.dump;
        let g = &self.g;
        let mut t: Vec<String> = Vec::new();
        t.push(d.bound.to_string());
        t.push(d.nodes.len().to_string());
        for n in &d.nodes {
            t.push(n.idx.to_string());
            t.push(n.kind.to_string());
            t.push(n.item.to_string());
            match n.pkg {
                Some((s, gen)) => {
                    t.push(s.to_string());
                    t.push(gen.to_string());
                }
                None => {
                    t.push("-1".into());
                    t.push("0".into());
                }
            }
            let nm = |o: &Option<String>| match o {
                Some(s) => uni.name_ix(s).to_string(),
                None => "-1".to_string(),
            };
            t.push(nm(&n.name));
            t.push(nm(&n.export));
            t.push(nm(&n.import));
            t.push(oi(n.ty));
            t.push(n.sat.len().to_string());
            t.extend(n.sat.iter().map(|x| x.to_string()));
            for es in [&n.outs, &n.ins] {
                t.push(es.len().to_string());
                for (o, k, i) in es {
                    t.push(o.to_string());
                    t.push(k.to_string());
                    t.push(i.to_string());
                }
            }
        }
        t.push(d.imports.len().to_string());
        for (n, x) in &d.imports {
            t.push(uni.name_ix(n).to_string());
            t.push(x.to_string());
        }
        t.push(d.exports.len().to_string());
        for (n, x) in &d.exports {
            t.push(uni.name_ix(n).to_string());
            t.push(x.to_string());
        }
        t.push(d.defined.len().to_string());
        for (ty, x) in &d.defined {
            t.push(ty.to_string());
            t.push(x.to_string());
        }
        t.push(d.packages.len().to_string());
        for (gen, def) in &d.packages {
            t.push(gen.to_string());
            t.push(oi(*def));
        }
        t.push(d.pkgmap.len().to_string());
        for (key, s, gen) in &d.pkgmap {
            let (n, v) = match key.split_once('@') {
                Some((n, v)) => (uni.name_ix(n), uni.name_ix(v)),
                None => (uni.name_ix(key), -1),
            };
            t.push(n.to_string());
            t.push(v.to_string());
            t.push(s.to_string());
            t.push(gen.to_string());
        }
        t.push(d.freepkgs.len().to_string());
        t.extend(d.freepkgs.iter().map(|x| x.to_string()));

        // public queries
        let q = guarded(AssertUnwindSafe(|| -> Vec<String> {
            let mut q: Vec<String> = Vec::new();
            let ids: Vec<usize> = g.node_ids().map(|i| i.to_string().parse().unwrap()).collect();
            q.push(ids.len().to_string());
            q.extend(ids.iter().map(|x| x.to_string()));
            // accessors must agree with the dump
            for n in &d.nodes {
                let node = &g[uni.node_ids[n.idx]];
                let kind_ok = matches!(
                    (node.kind(), n.kind),
                    (NodeKind::Definition, 0) | (NodeKind::Import(_), 1) | (NodeKind::Instantiation(_), 2) | (NodeKind::Alias, 3)
                );
                let pk = node.package().map(CompositionGraph::verif_package_id);
                if !kind_ok
                    || pk != n.pkg
                    || uni.kind_of(node.item_kind()) != n.item
                    || node.name() != n.name.as_deref()
                    || node.import_name() != n.import.as_deref()
                    || node.export_name() != n.export.as_deref()
                    || g.get_import_name(uni.node_ids[n.idx]) != n.import.as_deref()
                {
                    q.push("ACCESSOR-MISMATCH".into());
                }
            }
            let im: Vec<_> = g.imports().collect();
            q.push(im.len().to_string());
            for (n, k, id) in im {
                q.push(uni.name_ix(n).to_string());
                q.push(uni.kind_of(k).to_string());
                q.push(match id {
                    Some(i) => i.to_string(),
                    None => "-1".into(),
                });
            }
            for n in &uni.names {
                q.push(match g.get_export(n) {
                    Some(i) => i.to_string(),
                    None => "-1".into(),
                });
            }
            for i in 0..d.bound {
                let a: Vec<_> = g.get_instantiation_arguments(uni.node_ids[i]).collect();
                q.push(a.len().to_string());
                for (n, s) in a {
                    q.push(uni.name_ix(n).to_string());
                    q.push(s.to_string());
                }
                match g.get_alias_source(uni.node_ids[i]) {
                    Some((s, n)) => {
                        q.push(s.to_string());
                        q.push(uni.name_ix(n).to_string());
                    }
                    None => {
                        q.push("-1".into());
                        q.push("-1".into());
                    }
                }
            }
            for p in &uni.pkgs {
                match g.get_package_by_name(p.name(), p.version()) {
                    Some((id, _)) => {
                        let (s, gen) = CompositionGraph::verif_package_id(id);
                        q.push(s.to_string());
                        q.push(gen.to_string());
                    }
                    None => {
                        q.push("-1".into());
                        q.push("0".into());
                    }
                }
            }
            q.push(g.packages().count().to_string());
            q
        }));
        let mut qpanic = None;
        match q {
            Ok(q) => {
                t.push("Q".into());
                t.extend(q);
            }
            Err(m) => {
                t.push("QPANIC".into());
                t.push(esc(&m));
                qpanic = Some(m);
            }
        }
        let inv = g.verif_invariants();
        t.push(inv.len().to_string());
        for i in &inv {
            t.push(esc(i));
        }
        // does the graph still encode (any Ok / Err is fine; a panic is not)
        let enc = if with_encode {
            match guarded(AssertUnwindSafe(|| {
                g.encode(EncodeOptions { define_components: true, validate: false, processor: None })
            })) {
                Ok(Ok(bytes)) => {
                    if self.validate {
                        // independent oracle: the full validator on the encoded bytes
                        let mut v = wasmparser::Validator::new_with_features(wasmparser::WasmFeatures::all());
                        if v.validate_all(&bytes).is_ok() {
                            1
                        } else {
                            4
                        }
                    } else {
                        1
                    }
                }
                Ok(Err(_)) => 2,
                Err(_) => 3,
            }
        } else {
            0
        };
        t.push(enc.to_string());
        (t, inv, qpanic)
    }

    /// operation instances worth trying in this state (live identifiers plus a few stale ones)
    pub fn applicable_ops(&self, uni: &Uni) -> Vec<Op> {
        let d = &self.dump;
        let mut ops = Vec::new();
        let nm = |s: &str| NAMES.iter().position(|n| *n == s).unwrap();
        for p in 0..uni.pkgs.len() {
            ops.push(Op::Reg(p));
        }
        let mut pids: Vec<(usize, usize)> =
            d.packages.iter().enumerate().filter(|(_, (_, def))| def.is_some()).map(|(i, (g, _))| (i, *g)).collect();
        // one stale id
        if let Some((s, g)) = self.seen_pkgs.iter().find(|(s, g)| !d.pkg_live(*s, *g)) {
            pids.push((*s, *g));
        }
        for (s, g) in &pids {
            ops.push(Op::Unreg(*s, *g));
            if d.nodes.len() < MAX_NODES {
                ops.push(Op::Inst(*s, *g));
            }
        }
        let live: Vec<usize> = d.nodes.iter().map(|n| n.idx).collect();
        let dead: Option<usize> = (0..d.bound + 1).find(|i| !d.live(*i));
        let mut nodes_plus = live.clone();
        if let Some(x) = dead {
            nodes_plus.push(x);
        }
        if d.nodes.len() < MAX_NODES {
            for (n, t) in [("f", 0), ("x", 1), ("g", 2), ("x", 0), ("h", 5), ("g", 6), ("", 3), ("f", 4)] {
                ops.push(Op::Def(nm(n), t));
            }
            for (n, k) in [("f", "func"), ("g", "funcu32"), ("i", "inst"), ("", "func"), ("unlocked-dep=<a:b>", "func"), ("x", "type0")] {
                ops.push(Op::Imp(nm(n), uni.kind_alias[k]));
            }
        }
        for n in &nodes_plus {
            let exports: Vec<usize> = match d.node(*n) {
                Some(nd) => match uni.kinds[nd.item] {
                    ItemKind::Instance(id) => uni.base.types()[id].exports.keys().map(|k| nm(k)).collect(),
                    _ => vec![],
                },
                None => vec![],
            };
            if d.nodes.len() < MAX_NODES || d.node(*n).map(|x| !x.outs.is_empty()).unwrap_or(true) {
                if exports.is_empty() {
                    ops.push(Op::Alias(*n, nm("f")));
                } else {
                    for e in &exports {
                        ops.push(Op::Alias(*n, *e));
                    }
                    ops.push(Op::Alias(*n, nm("k")));
                }
            }
            for e in ["x", "g", "unlocked-dep=<a:b>"] {
                ops.push(Op::Exp(*n, nm(e)));
            }
            ops.push(Op::Unexp(*n));
            ops.push(Op::Rm(*n));
        }
        if let Some(n) = live.first() {
            ops.push(Op::Name(*n, nm("k")));
        }
        if let Some(x) = dead {
            ops.push(Op::Name(x, nm("k")));
        }
        // arguments
        for inst in &nodes_plus {
            let imports: Vec<usize> = match d.node(*inst) {
                Some(nd) if nd.kind == 2 => match nd.pkg.and_then(|(s, _)| d.packages.get(s).and_then(|p| p.1)) {
                    Some(def) => uni.base.types()[uni.pkgs[def].ty()].imports.keys().map(|k| nm(k)).collect(),
                    None => vec![],
                },
                _ => vec![],
            };
            if imports.is_empty() {
                if let Some(a) = live.first() {
                    ops.push(Op::Set(*inst, nm("f"), *a));
                }
                continue;
            }
            for a in &nodes_plus {
                for (k, i) in imports.iter().enumerate() {
                    // keep the fan-out moderate: every argument name for the first two sources,
                    // then only the first name
                    if k == 0 || *a <= 2 || d.node(*a).map(|x| x.kind == 3).unwrap_or(false) {
                        ops.push(Op::Set(*inst, *i, *a));
                    }
                }
                ops.push(Op::Unset(*inst, imports[0], *a));
                // every argument this source currently supplies can be unset, not only the first name
                if let Some(nd) = d.node(*inst) {
                    for e in nd.ins.iter().filter(|e| e.1 == 1 && e.0 == *a && e.2 != 0) {
                        if let Some(i) = imports.get(e.2) {
                            ops.push(Op::Unset(*inst, *i, *a));
                        }
                    }
                }
            }
            ops.push(Op::Set(*inst, nm("k"), live[0]));
            ops.push(Op::Unset(*inst, nm("k"), live[0]));
        }
        ops
    }
}

fn arg_result(uni: &Uni, r: Result<(), InstantiationArgumentError>) -> Res {
    let n = |id: NodeId| -> i64 { id.to_string().parse().unwrap() };
    match r {
        Ok(()) => Res::Ok,
        Err(InstantiationArgumentError::NodeIsNotAnInstantiation { node }) => Res::Err("NodeIsNotAnInstantiation", vec![n(node)]),
        Err(InstantiationArgumentError::InvalidArgumentName { node, name, package }) => {
            Res::Err("InvalidArgumentName", vec![n(node), uni.name_ix(&name), uni.name_ix(&package)])
        }
        Err(InstantiationArgumentError::ArgumentTypeMismatch { name, .. }) => {
            Res::Err("ArgumentTypeMismatch", vec![uni.name_ix(&name)])
        }
        Err(InstantiationArgumentError::ArgumentAlreadyPassed { node, name }) => {
            Res::Err("ArgumentAlreadyPassed", vec![n(node), uni.name_ix(&name)])
        }
    }
}

/// a random history: mostly live identifiers, interleaved removal and re-creation
pub fn random_sequence(uni: &Uni, r: &mut Rng, len: usize) -> Vec<Op> {
    let mut st = State::new(uni);
    let mut seq = Vec::new();
    let nm = |s: &str| NAMES.iter().position(|n| *n == s).unwrap();
    let simple = [nm("f"), nm("g"), nm("i"), nm("n"), nm("x"), nm("h")];
    for _ in 0..len {
        let d = &st.dump;
        let live: Vec<usize> = d.nodes.iter().map(|n| n.idx).collect();
        let insts: Vec<usize> = d.nodes.iter().filter(|n| n.kind == 2).map(|n| n.idx).collect();
        let inst_kinded: Vec<usize> =
            d.nodes.iter().filter(|n| matches!(uni.kinds[n.item], ItemKind::Instance(_))).map(|n| n.idx).collect();
        let live_pkgs: Vec<(usize, usize)> =
            d.packages.iter().enumerate().filter(|(_, p)| p.1.is_some()).map(|(i, p)| (i, p.0)).collect();
        let any_node = |r: &mut Rng| -> usize {
            if live.is_empty() || r.chance(1, 12) {
                r.below(d.bound + 2)
            } else {
                *r.pick(&live)
            }
        };
        let any_pkg = |r: &mut Rng, st: &State| -> (usize, usize) {
            if live_pkgs.is_empty() || r.chance(1, 10) {
                let seen: Vec<_> = st.seen_pkgs.iter().copied().collect();
                if seen.is_empty() || r.chance(1, 4) {
                    (r.below(3), r.below(3))
                } else {
                    *r.pick(&seen)
                }
            } else {
                *r.pick(&live_pkgs)
            }
        };
        let full = d.nodes.len() >= MAX_NODES;
        let w = r.below(100);
        let op = if full && w < 60 {
            // make room
            if r.chance(1, 4) && !live_pkgs.is_empty() {
                let (s, g) = *r.pick(&live_pkgs);
                Op::Unreg(s, g)
            } else {
                Op::Rm(any_node(r))
            }
        } else if w < 8 {
            Op::Reg(r.below(uni.pkgs.len()))
        } else if w < 12 {
            let (s, g) = any_pkg(r, &st);
            Op::Unreg(s, g)
        } else if w < 24 {
            let (s, g) = any_pkg(r, &st);
            Op::Inst(s, g)
        } else if w < 32 {
            Op::Def(if r.chance(1, 10) { r.below(uni.names.len()) } else { *r.pick(&simple) }, r.below(uni.types.len()))
        } else if w < 38 {
            Op::Imp(if r.chance(1, 10) { r.below(uni.names.len()) } else { *r.pick(&simple) }, *r.pick(&uni.import_kinds))
        } else if w < 50 {
            let n = if inst_kinded.is_empty() || r.chance(1, 8) { any_node(r) } else { *r.pick(&inst_kinded) };
            let exports: Vec<usize> = match d.node(n) {
                Some(nd) => match uni.kinds[nd.item] {
                    ItemKind::Instance(id) => uni.base.types()[id].exports.keys().map(|k| nm(k)).collect(),
                    _ => vec![],
                },
                None => vec![],
            };
            let e = if exports.is_empty() || r.chance(1, 8) { *r.pick(&simple) } else { *r.pick(&exports) };
            Op::Alias(n, e)
        } else if w < 70 {
            let i = if insts.is_empty() || r.chance(1, 10) { any_node(r) } else { *r.pick(&insts) };
            let imports: Vec<usize> = match d.node(i) {
                Some(nd) if nd.kind == 2 => match nd.pkg.and_then(|(s, _)| d.packages.get(s).and_then(|p| p.1)) {
                    Some(def) => uni.base.types()[uni.pkgs[def].ty()].imports.keys().map(|k| nm(k)).collect(),
                    None => vec![],
                },
                _ => vec![],
            };
            let n = if imports.is_empty() || r.chance(1, 10) { *r.pick(&simple) } else { *r.pick(&imports) };
            let a = any_node(r);
            if r.chance(1, 5) {
                // prefer an existing argument edge to unset
                let existing: Vec<(usize, usize, usize)> = d
                    .nodes
                    .iter()
                    .flat_map(|x| x.ins.iter().filter(|e| e.1 == 1).map(move |e| (x.idx, e.0, e.2)))
                    .collect();
                if !existing.is_empty() && r.chance(3, 4) {
                    let (ii, src, ix) = *r.pick(&existing);
                    let name = d
                        .node(ii)
                        .and_then(|nd| nd.pkg)
                        .and_then(|(s, _)| d.packages.get(s).and_then(|p| p.1))
                        .and_then(|def| uni.base.types()[uni.pkgs[def].ty()].imports.get_index(ix).map(|(k, _)| nm(k)))
                        .unwrap_or(n);
                    Op::Unset(ii, name, src)
                } else {
                    Op::Unset(i, n, a)
                }
            } else {
                Op::Set(i, n, a)
            }
        } else if w < 80 {
            Op::Exp(any_node(r), if r.chance(1, 10) { r.below(uni.names.len()) } else { *r.pick(&simple) })
        } else if w < 85 {
            Op::Unexp(any_node(r))
        } else if w < 88 {
            Op::Name(any_node(r), r.below(uni.names.len()))
        } else {
            Op::Rm(any_node(r))
        };
        let res = st.apply(uni, &op);
        seq.push(op);
        if res.is_panic() {
            break;
        }
    }
    seq
}

#[derive(Clone, Copy, PartialEq)]
pub enum ObsMode {
    All,
    Last,
}

pub struct SeqOutcome {
    pub failure: Option<(String, String)>,
    pub tokens: Vec<String>,
    pub nontrivial: bool,
    pub classes: Vec<String>,
}

/// run a history on the real graph, producing the protocol tokens after the kind field
pub fn exec_sequence(uni: &Uni, ctx: &[String], seq: &[Op], mode: ObsMode, quiet: bool) -> SeqOutcome {
    let mut st = State::new(uni);
    let mut t: Vec<String> = Vec::new();
    if !quiet {
        t.push(esc(&ops_text(seq)));
        t.extend(ctx.iter().cloned());
    }
    let mut steps: Vec<String> = Vec::new();
    let mut nsteps = 0usize;
    let mut failure: Option<(String, String)> = None;
    let mut had_edge_or_export = false;
    let mut nontrivial = false;
    let mut classes = Vec::new();
    for (k, op) in seq.iter().enumerate() {
        let live = st.ids_live(op);
        let res = st.apply(uni, op);
        nsteps += 1;
        classes.push(format!("{}:{}", op.code(), res.class()));
        if !quiet {
            steps.push(op.code().to_string());
            steps.extend(op.nums().iter().map(|x| x.to_string()));
            steps.extend(res.tokens());
        }
        if let Res::Panic(m) = &res {
            if live && failure.is_none() {
                failure = Some((format!("panic with live identifiers in {}", op.code()), format!("step {k} {}: {m}", op.text())));
            }
            if !quiet {
                steps.push("0".into());
            }
            break;
        }
        if matches!(op, Op::Rm(_) | Op::Unreg(..)) && res.is_ok() && had_edge_or_export {
            nontrivial = true;
        }
        if st.dump.nodes.iter().any(|n| n.ins.iter().any(|e| e.1 == 1)) || !st.dump.exports.is_empty() {
            had_edge_or_export = true;
        }
        let want_obs = mode == ObsMode::All || k + 1 == seq.len();
        if quiet {
            let inv = st.g.verif_invariants();
            if !inv.is_empty() && failure.is_none() {
                failure = Some((format!("invariant violated after {}", op.code()), format!("step {k} {}: {}", op.text(), inv.join("; "))));
            }
            continue;
        }
        if want_obs {
            steps.push("1".into());
            let with_encode = k + 1 == seq.len() || k % 8 == 7;
            let (obs, inv, qpanic) = st.observe(uni, with_encode);
            if obs.last().map(|s| s == "3").unwrap_or(false) && failure.is_none() && inv.is_empty() {
                failure = Some(("encode panics on a consistent graph".to_string(), format!("step {k} {}", op.text())));
            }
            steps.extend(obs);
            if !inv.is_empty() && failure.is_none() {
                failure = Some((format!("invariant violated after {}", op.code()), format!("step {k} {}: {}", op.text(), inv.join("; "))));
            }
            if let Some(m) = qpanic {
                if failure.is_none() {
                    failure = Some(("query panics".to_string(), format!("step {k} {}: {m}", op.text())));
                }
            }
        } else {
            steps.push("0".into());
            let inv = st.g.verif_invariants();
            if !inv.is_empty() && failure.is_none() {
                failure = Some((format!("invariant violated after {}", op.code()), format!("step {k} {}: {}", op.text(), inv.join("; "))));
            }
        }
        if failure.is_some() {
            // the state is inconsistent from here on: stop the history
            break;
        }
    }
    if !quiet {
        t.push(nsteps.to_string());
        t.extend(steps);
    }
    SeqOutcome { failure, tokens: t, nontrivial, classes }
}

/// greedy one-op-at-a-time minimisation of a failing history (same failure signature class)
pub fn shrink(uni: &Uni, seq: &[Op]) -> Vec<Op> {
    let mut cur = seq.to_vec();
    // cut everything after the failing step
    loop {
        let mut changed = false;
        let mut i = 0;
        while i < cur.len() {
            let mut cand = cur.clone();
            cand.remove(i);
            if exec_sequence(uni, &[], &cand, ObsMode::Last, true).failure.is_some() {
                cur = cand;
                changed = true;
            } else {
                i += 1;
            }
        }
        if !changed {
            break;
        }
    }
    cur
}

pub fn run_sequence(uni: &Uni, ctx: &[String], out: &mut Out, seq: &[Op], mode: ObsMode, do_shrink: bool) {
    let o = exec_sequence(uni, ctx, seq, mode, false);
    for c in &o.classes {
        out.count(&format!("op:{c}"));
    }
    out.add("steps", o.classes.len() as u64);
    let id = out.case(o.nontrivial, "seq", &o.tokens);
    if let Some((sig, detail)) = o.failure {
        let mut fail_id = id;
        let mut detail = detail;
        if do_shrink && seq.len() > 6 {
            let small = shrink(uni, seq);
            let o2 = exec_sequence(uni, ctx, &small, ObsMode::All, false);
            if let Some((_, d2)) = &o2.failure {
                fail_id = out.case(true, "seq", &o2.tokens);
                detail = format!("{d2} [minimised: {}]", ops_text(&small));
            }
        } else {
            detail = format!("{detail} [history: {}]", ops_text(seq));
        }
        out.fail(&fail_id, &sig, &detail);
    }
}
