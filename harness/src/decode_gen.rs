//! Generators for the decode / WIT-meaning family (C08, C05): WIT packages and shaped WAT.
#![allow(dead_code)]

use wacv::Rng;

#[derive(Clone, Copy, PartialEq, Debug)]
pub enum TK {
    Val,
    Res,
    /// a named alias of a borrow handle (`type b = borrow<r>;`, `type c = b;`): usable where a
    /// borrow is (function parameters), never inside another type
    Bor,
}

#[derive(Clone, Default)]
pub struct Scope {
    /// types in scope: (name, kind)
    pub tys: Vec<(String, TK)>,
}

impl Scope {
    fn vals(&self) -> Vec<&str> {
        self.tys.iter().filter(|t| t.1 == TK::Val).map(|t| t.0.as_str()).collect()
    }
    fn ress(&self) -> Vec<&str> {
        self.tys.iter().filter(|t| t.1 == TK::Res).map(|t| t.0.as_str()).collect()
    }
    fn bors(&self) -> Vec<&str> {
        self.tys.iter().filter(|t| t.1 == TK::Bor).map(|t| t.0.as_str()).collect()
    }
    fn has(&self, n: &str) -> bool {
        self.tys.iter().any(|t| t.0 == n)
    }
}

#[derive(Clone)]
pub struct GenCfg {
    /// restrict to the syntax shared by WIT and WAC (C05): no `own<>`, no `async`, no
    /// stream/future, no fixed-size lists, no top-level `use`
    pub wac_subset: bool,
    pub max_interfaces: usize,
    pub max_types: usize,
    pub max_funcs: usize,
    /// allow `async func` (component encoding with the dummy module may reject some)
    pub async_funcs: bool,
}

impl Default for GenCfg {
    fn default() -> Self {
        GenCfg { wac_subset: false, max_interfaces: 4, max_types: 5, max_funcs: 3, async_funcs: false }
    }
}

pub struct GenIface {
    pub name: String,
    pub scope: Scope,
    /// exported type names with kind (includes used types)
    pub text: String,
}

pub struct GenWorld {
    pub name: String,
    pub text: String,
    /// plain (kebab) names of the world's function / inline-interface imports and exports
    pub names: Vec<String>,
    /// local names of the world-level `use`d types (any kind)
    pub used_types: Vec<String>,
    /// names of the value types the world declares itself (a resource *declared* by a world is
    /// identified by its name there and is not renamed by the generated `include … with`)
    pub decl_types: Vec<String>,
    /// resources the world declares itself that have a constructor, method or static function
    pub decl_res_funcs: Vec<String>,
}

pub struct GenPkg {
    pub ns: String,
    pub name: String,
    pub version: Option<String>,
    pub ifaces: Vec<GenIface>,
    pub worlds: Vec<GenWorld>,
    /// feature counters (names of features used)
    pub features: Vec<&'static str>,
}

impl GenPkg {
    pub fn header(&self) -> String {
        match &self.version {
            Some(v) => format!("package {}:{}@{};\n", self.ns, self.name, v),
            None => format!("package {}:{};\n", self.ns, self.name),
        }
    }
    pub fn text(&self) -> String {
        let mut s = self.header();
        for i in &self.ifaces {
            s.push_str(&i.text);
        }
        for w in &self.worlds {
            s.push_str(&w.text);
        }
        s
    }
    /// `ns:name/item[@version]`
    pub fn path(&self, item: &str) -> String {
        match &self.version {
            Some(v) => format!("{}:{}/{}@{}", self.ns, self.name, item, v),
            None => format!("{}:{}/{}", self.ns, self.name, item),
        }
    }
}

const PRIMS: &[&str] = &["u8", "s8", "u16", "s16", "u32", "s32", "u64", "s64", "f32", "f64", "char", "bool", "string"];

pub struct Gen<'a> {
    pub r: &'a mut Rng,
    pub cfg: GenCfg,
    pub features: Vec<&'static str>,
    uniq: usize,
    /// names of the resources declared (by `decls`) with at least one function, since last taken
    res_with_funcs: Vec<String>,
}

impl<'a> Gen<'a> {
    pub fn new(r: &'a mut Rng, cfg: GenCfg) -> Self {
        Gen { r, cfg, features: vec![], uniq: 0, res_with_funcs: vec![] }
    }

    fn feat(&mut self, f: &'static str) {
        self.features.push(f);
    }

    fn fresh(&mut self, prefix: &str) -> String {
        self.uniq += 1;
        let n = self.uniq;
        // kebab id: letters and digits, segments start with a letter
        format!("{}{}", prefix, n)
    }

    /// a value type expression over the scope; `borrow_ok`: a borrow may appear (parameters only)
    pub fn ty(&mut self, sc: &Scope, depth: usize, borrow_ok: bool) -> String {
        let vals = sc.vals();
        let ress = sc.ress();
        let k = self.r.below(if depth == 0 { 4 } else { 12 });
        match k {
            0 | 1 => PRIMS[self.r.below(PRIMS.len())].to_string(),
            2 | 3 | 4 => {
                if !vals.is_empty() {
                    self.feat("ty:named");
                    vals[self.r.below(vals.len())].to_string()
                } else {
                    PRIMS[self.r.below(PRIMS.len())].to_string()
                }
            }
            5 => {
                self.feat("ty:list");
                format!("list<{}>", self.ty(sc, depth - 1, false))
            }
            6 => {
                self.feat("ty:option");
                format!("option<{}>", self.ty(sc, depth - 1, false))
            }
            7 => {
                self.feat("ty:result");
                match self.r.below(4) {
                    0 => "result".to_string(),
                    1 => format!("result<{}>", self.ty(sc, depth - 1, false)),
                    2 => format!("result<_, {}>", self.ty(sc, depth - 1, false)),
                    _ => format!("result<{}, {}>", self.ty(sc, depth - 1, false), self.ty(sc, depth - 1, false)),
                }
            }
            8 => {
                self.feat("ty:tuple");
                let n = 1 + self.r.below(3);
                let v: Vec<String> = (0..n).map(|_| self.ty(sc, depth - 1, false)).collect();
                format!("tuple<{}>", v.join(", "))
            }
            9 | 10 => {
                let bors = sc.bors();
                if borrow_ok && !bors.is_empty() && self.r.chance(1, 2) {
                    self.feat("ty:borrow-alias");
                    bors[self.r.below(bors.len())].to_string()
                } else if !ress.is_empty() {
                    let rn = ress[self.r.below(ress.len())].to_string();
                    if borrow_ok && self.r.chance(1, 2) {
                        self.feat("ty:borrow");
                        format!("borrow<{rn}>")
                    } else if !self.cfg.wac_subset && self.r.chance(1, 3) {
                        self.feat("ty:own-explicit");
                        format!("own<{rn}>")
                    } else {
                        self.feat("ty:own");
                        rn
                    }
                } else {
                    PRIMS[self.r.below(PRIMS.len())].to_string()
                }
            }
            _ => {
                if !self.cfg.wac_subset && self.r.chance(1, 3) {
                    match self.r.below(3) {
                        0 => {
                            self.feat("ty:future");
                            if self.r.chance(1, 3) {
                                "future".to_string()
                            } else {
                                format!("future<{}>", self.ty(sc, depth - 1, false))
                            }
                        }
                        1 => {
                            self.feat("ty:stream");
                            if self.r.chance(1, 3) {
                                "stream".to_string()
                            } else {
                                format!("stream<{}>", self.ty(sc, depth - 1, false))
                            }
                        }
                        _ => {
                            self.feat("ty:error-context");
                            "error-context".to_string()
                        }
                    }
                } else {
                    PRIMS[self.r.below(PRIMS.len())].to_string()
                }
            }
        }
    }

    pub fn func_sig(&mut self, sc: &Scope) -> String {
        let n = self.r.below(4);
        let mut ps = Vec::new();
        for i in 0..n {
            ps.push(format!("p{}: {}", i, self.ty(sc, 2, true)));
        }
        let res = if self.r.chance(2, 3) { format!(" -> {}", self.ty(sc, 2, false)) } else { String::new() };
        let a = if self.cfg.async_funcs && !self.cfg.wac_subset && self.r.chance(1, 6) {
            self.feat("func:async");
            "async "
        } else {
            ""
        };
        format!("{}func({}){}", a, ps.join(", "), res)
    }

    /// type declarations and functions of an interface body (also used for inline interfaces and,
    /// without functions, for world-level types)
    fn decls(&mut self, sc: &mut Scope, ind: &str, n_types: usize, n_funcs: usize, out: &mut String, fn_names: &mut Vec<String>) {
        for _ in 0..n_types {
            let k = self.r.below(7);
            match k {
                0 => {
                    let name = self.fresh("rec");
                    self.feat("decl:record");
                    let n = 1 + self.r.below(3);
                    let fs: Vec<String> = (0..n).map(|i| format!("f{}: {}", i, self.ty(sc, 2, false))).collect();
                    out.push_str(&format!("{ind}record {name} {{ {} }}\n", fs.join(", ")));
                    sc.tys.push((name, TK::Val));
                }
                1 => {
                    let name = self.fresh("var");
                    self.feat("decl:variant");
                    let n = 1 + self.r.below(3);
                    let cs: Vec<String> = (0..n)
                        .map(|i| if self.r.chance(1, 2) { format!("c{}({})", i, self.ty(sc, 2, false)) } else { format!("c{}", i) })
                        .collect();
                    out.push_str(&format!("{ind}variant {name} {{ {} }}\n", cs.join(", ")));
                    sc.tys.push((name, TK::Val));
                }
                2 => {
                    let name = self.fresh("enm");
                    self.feat("decl:enum");
                    let n = 1 + self.r.below(3);
                    let cs: Vec<String> = (0..n).map(|i| format!("e{}", i)).collect();
                    out.push_str(&format!("{ind}enum {name} {{ {} }}\n", cs.join(", ")));
                    sc.tys.push((name, TK::Val));
                }
                3 => {
                    let name = self.fresh("flg");
                    self.feat("decl:flags");
                    let n = 1 + self.r.below(3);
                    let cs: Vec<String> = (0..n).map(|i| format!("b{}", i)).collect();
                    out.push_str(&format!("{ind}flags {name} {{ {} }}\n", cs.join(", ")));
                    sc.tys.push((name, TK::Val));
                }
                4 => {
                    let name = self.fresh("als");
                    self.feat("decl:alias");
                    // alias of a value type expression, or of a resource (a second name for it)
                    let ress = sc.ress();
                    let bors = sc.bors();
                    if !bors.is_empty() && self.r.chance(1, 3) {
                        // a chain: alias of a named borrow alias
                        let bn = bors[self.r.below(bors.len())].to_string();
                        self.feat("decl:alias-of-borrow-alias");
                        out.push_str(&format!("{ind}type {name} = {bn};\n"));
                        sc.tys.push((name, TK::Bor));
                    } else if !ress.is_empty() && self.r.chance(1, 3) {
                        let rn = ress[self.r.below(ress.len())].to_string();
                        self.feat("decl:alias-of-borrow");
                        out.push_str(&format!("{ind}type {name} = borrow<{rn}>;\n"));
                        sc.tys.push((name, TK::Bor));
                    } else if !ress.is_empty() && self.r.chance(1, 4) {
                        let rn = ress[self.r.below(ress.len())].to_string();
                        self.feat("decl:alias-of-resource");
                        out.push_str(&format!("{ind}type {name} = {rn};\n"));
                        sc.tys.push((name, TK::Res));
                    } else {
                        let t = self.ty(sc, 2, false);
                        out.push_str(&format!("{ind}type {name} = {t};\n"));
                        sc.tys.push((name, TK::Val));
                    }
                }
                _ => {
                    let name = self.fresh("res");
                    self.feat("decl:resource");
                    // the resource is in scope inside its own methods
                    sc.tys.push((name.clone(), TK::Res));
                    if self.r.chance(1, 4) {
                        out.push_str(&format!("{ind}resource {name};\n"));
                    } else {
                        let mut body = String::new();
                        if self.r.chance(1, 2) {
                            self.feat("res:constructor");
                            let n = self.r.below(3);
                            let ps: Vec<String> = (0..n).map(|i| format!("p{}: {}", i, self.ty(sc, 2, true))).collect();
                            body.push_str(&format!("{ind}  constructor({});\n", ps.join(", ")));
                        }
                        let nm = self.r.below(3);
                        for _ in 0..nm {
                            let m = self.fresh("m");
                            let st = if self.r.chance(1, 3) {
                                self.feat("res:static");
                                "static "
                            } else {
                                self.feat("res:method");
                                ""
                            };
                            let sig = self.func_sig(sc);
                            let sig = sig.trim_start_matches("async ").to_string();
                            body.push_str(&format!("{ind}  {m}: {st}{sig};\n"));
                        }
                        if !body.is_empty() {
                            self.res_with_funcs.push(name.clone());
                        }
                        out.push_str(&format!("{ind}resource {name} {{\n{body}{ind}}}\n"));
                    }
                }
            }
        }
        for _ in 0..n_funcs {
            let f = self.fresh("fn");
            let sig = self.func_sig(sc);
            out.push_str(&format!("{ind}{f}: {sig};\n"));
            fn_names.push(f);
        }
    }

    /// `use <path>.{a, b as c};` lines taking types of earlier interfaces
    fn uses(&mut self, sc: &mut Scope, ind: &str, sources: &[(String, Scope)], out: &mut String, max: usize) {
        if sources.is_empty() {
            return;
        }
        let n = self.r.below(max + 1);
        for _ in 0..n {
            let (path, src) = &sources[self.r.below(sources.len())];
            if src.tys.is_empty() {
                continue;
            }
            let k = 1 + self.r.below(3.min(src.tys.len()));
            let mut items = Vec::new();
            let mut picked = Vec::new();
            for _ in 0..k {
                let (tn, tk) = &src.tys[self.r.below(src.tys.len())];
                if picked.contains(tn) {
                    continue;
                }
                let (local, item) = if self.r.chance(1, 3) {
                    let l = self.fresh("ren");
                    self.feat("use:rename");
                    (l.clone(), format!("{tn} as {l}"))
                } else {
                    (tn.clone(), tn.clone())
                };
                if sc.has(&local) {
                    continue;
                }
                picked.push(tn.clone());
                sc.tys.push((local, *tk));
                items.push(item);
            }
            if !items.is_empty() {
                self.feat("use");
                out.push_str(&format!("{ind}use {path}.{{{}}};\n", items.join(", ")));
            }
        }
    }

    /// The plain name of a function / inline-interface item of a world: fresh, or (1 in 5) a name
    /// the world already uses in the *other* direction -- imports and exports are separate name
    /// spaces, `import a: func(); export a: func();` is one name on both sides (and an
    /// `include … with { a as b }` renames both).
    fn item_name(&mut self, prefix: &str, dir: &str, imps: &mut Vec<String>, exps: &mut Vec<String>, names: &mut Vec<String>) -> String {
        let (same, other) = if dir == "import" { (imps, exps) } else { (exps, imps) };
        let reuse: Vec<String> = other.iter().filter(|n| !same.contains(n)).cloned().collect();
        let f = if !reuse.is_empty() && self.r.chance(1, 5) {
            self.feat("world:same-name-imported-and-exported");
            reuse[self.r.below(reuse.len())].clone()
        } else {
            let f = self.fresh(prefix);
            names.push(f.clone());
            f
        };
        same.push(f.clone());
        f
    }

    /// The renames of an `include … with { … }` over the plain names of the included world `w0`
    /// (its functions / inline interfaces, its world-level `use`d types, the value types it
    /// declares): independent renames to fresh names; chains `a as b, b as c, c as fresh`; cycles
    /// `a as b, b as a` (a swap) and longer ones; a cycle next to a chain.  Every included item is
    /// renamed at most once, by the entry whose source is its own name, so the targets inside a
    /// chain or cycle are names of *other* included items.  Returned in shuffled order.
    ///
    /// Two shapes are known findings of the unchanged tree (notes/C05.md); they are drawn at a low
    /// rate and the including world is then named with the returned tag, on which the entries of
    /// known_findings.d/decode.json match:
    /// * `wldnameclash`: a world-level *type* is renamed onto a name that an interface binds (by
    ///   declaration or `use`; `iface_names`) — the encoder keeps the aliases of an instance type in
    ///   the enclosing scope by name (`dec-instance-alias-name-leak`, no `include` needed);
    /// * `wldresfuncs`: a resource *declared by the included world* with constructor / methods is
    ///   renamed; its `[constructor]r` / `[method]r.m` names are not (`dec-include-rename-resource-functions`).
    /// Otherwise a type is never renamed onto an interface-bound name and world-declared resources
    /// keep their names.
    fn include_renames(&mut self, w0: &GenWorld, iface_names: &[String]) -> (Vec<(String, String)>, Option<&'static str>) {
        let (items, used, decl) = (&w0.names, &w0.used_types, &w0.decl_types);
        let is_type = |n: &String| used.contains(n) || decl.contains(n);
        let clashes = |plan: &[(String, String)]| plan.iter().any(|(a, b)| is_type(a) && iface_names.contains(b));
        let shape = self.r.below(14);
        let allow_clash = shape <= 1;
        let mode = self.r.below(5);
        let mut groups: Vec<bool> = vec![]; // true = cycle
        match mode {
            0 | 1 => {}
            2 => groups.push(false),
            3 => groups.push(true),
            _ => {
                groups.push(true);
                groups.push(false);
            }
        }
        // candidates of the chains and cycles
        let with_used = allow_clash || self.r.chance(1, 2);
        let with_decl = allow_clash || !with_used;
        let mut accepted: Option<(Vec<(String, String)>, Vec<Vec<String>>, Vec<String>)> = None;
        for attempt in 0..12 {
            let mut cands: Vec<String> = items.clone();
            // after a few rejected draws: without the used types (nothing can clash then)
            if with_used && (attempt < 8 || allow_clash) {
                cands.extend(used.iter().cloned());
            }
            if with_decl {
                cands.extend(decl.iter().cloned());
            }
            self.r.shuffle(&mut cands);
            let mut plan: Vec<(String, String)> = vec![];
            let mut drawn: Vec<Vec<String>> = vec![];
            for cycle in &groups {
                if cands.len() < 2 {
                    break;
                }
                let k = 2 + self.r.below((cands.len() - 1).min(3));
                let group: Vec<String> = cands.drain(..k).collect();
                for i in 0..k - 1 {
                    plan.push((group[i].clone(), group[i + 1].clone()));
                }
                if *cycle {
                    plan.push((group[k - 1].clone(), group[0].clone()));
                }
                drawn.push(group);
            }
            if allow_clash || !clashes(&plan) {
                accepted = Some((plan, drawn, cands));
                break;
            }
        }
        let (mut plan, drawn, left) = accepted.unwrap_or_default();
        let mut tag = None;
        if clashes(&plan) {
            self.feat("include:KNOWN-type-onto-interface-name");
            tag = Some("wldnameclash");
        }
        for (group, cycle) in drawn.iter().zip(groups.iter()) {
            let k = group.len();
            if *cycle {
                self.feat(if k == 2 { "include:swap" } else { "include:cycle" });
            } else {
                self.feat("include:chain");
                let to = self.fresh("inc");
                plan.push((group[k - 1].clone(), to));
            }
            if group.iter().any(|n| is_type(n)) {
                self.feat("include:chain/cycle-over-types");
            }
        }
        // the other names: independent renames to fresh names
        let mut rest: Vec<String> = left;
        for n in used.iter().chain(decl.iter()).chain(items.iter()) {
            if !rest.contains(n) && !plan.iter().any(|(a, _)| a == n) {
                rest.push(n.clone());
            }
        }
        for n in rest {
            if self.r.chance(if mode == 0 { 1 } else { 2 }, 4) {
                let to = self.fresh("inc");
                plan.push((n, to));
            }
        }
        if shape == 2 && tag.is_none() && !w0.decl_res_funcs.is_empty() {
            let n = w0.decl_res_funcs[self.r.below(w0.decl_res_funcs.len())].clone();
            let to = self.fresh("inc");
            plan.push((n, to));
            self.feat("include:KNOWN-renames-resource-with-functions");
            tag = Some("wldresfuncs");
        }
        if plan.iter().any(|(a, _)| used.contains(a)) {
            self.feat("include:renames-used-type");
        }
        if plan.iter().any(|(a, _)| decl.contains(a)) {
            self.feat("include:renames-declared-type");
        }
        self.r.shuffle(&mut plan);
        (plan, tag)
    }

    pub fn iface_body(&mut self, sources: &[(String, Scope)], ind: &str, sc: &mut Scope, out: &mut String) {
        self.uses(sc, ind, sources, out, 2);
        let nt = self.r.below(self.cfg.max_types + 1);
        let nf = self.r.below(self.cfg.max_funcs + 1);
        let mut fns = vec![];
        self.decls(sc, ind, nt, nf, out, &mut fns);
    }

    /// One package: interfaces i1..ik (later ones may `use` earlier ones, and `deps` — interfaces
    /// of other packages given by full path), and 1–2 worlds.
    pub fn package(&mut self, ns: &str, name: &str, version: Option<&str>, deps: &[(String, Scope)]) -> GenPkg {
        let mut pkg = GenPkg {
            ns: ns.to_string(),
            name: name.to_string(),
            version: version.map(|s| s.to_string()),
            ifaces: vec![],
            worlds: vec![],
            features: vec![],
        };
        let ni = 1 + self.r.below(self.cfg.max_interfaces);
        let mut sources: Vec<(String, Scope)> = deps.to_vec();
        for _ in 0..ni {
            let iname = self.fresh("ifc");
            let mut sc = Scope::default();
            let mut body = String::new();
            self.iface_body(&sources, "  ", &mut sc, &mut body);
            let text = format!("interface {iname} {{\n{body}}}\n");
            sources.push((iname.clone(), sc.clone()));
            pkg.ifaces.push(GenIface { name: iname, scope: sc, text });
        }
        let nw = 1 + self.r.below(2);
        for wi in 0..nw {
            let mut wprefix = "wld";
            let mut body = String::new();
            let mut sc = Scope::default();
            let mut names: Vec<String> = vec![];
            let mut used_types: Vec<String> = vec![];
            let mut decl_types: Vec<String> = vec![];
            // include of an earlier world of this package, optionally renaming some of its items
            if wi > 0 && self.r.chance(2, 3) {
                self.feat("world:include");
                let prev = pkg.worlds[0].name.clone();
                let iface_names: Vec<String> = sources.iter().flat_map(|(_, sc)| sc.tys.iter().map(|t| t.0.clone())).collect();
                let (withs, tag) = self.include_renames(&pkg.worlds[0], &iface_names);
                if let Some(t) = tag {
                    wprefix = t;
                }
                for n in &pkg.worlds[0].names {
                    names.push(withs.iter().find(|w| &w.0 == n).map(|w| w.1.clone()).unwrap_or_else(|| n.clone()));
                }
                if withs.is_empty() {
                    body.push_str(&format!("  include {prev};\n"));
                } else {
                    self.feat("world:include-with");
                    if withs.len() >= 2 {
                        self.feat("world:include-with-2+");
                    }
                    let withs: Vec<String> = withs.iter().map(|(a, b)| format!("{a} as {b}")).collect();
                    // WIT has no `;` after the `with` list, WAC requires one: `/*;*/` is a comment
                    // for WIT and is replaced by `;` for WAC
                    body.push_str(&format!("  include {prev} with {{ {} }}/*;*/\n", withs.join(", ")));
                }
            }
            {
                self.uses(&mut sc, "  ", &sources, &mut body, 2);
                let n_used = sc.tys.len();
                let nt = self.r.below(3);
                let mut fns = vec![];
                self.res_with_funcs.clear();
                self.decls(&mut sc, "  ", nt, 0, &mut body, &mut fns);
                for (i, (tn, tk)) in sc.tys.iter().enumerate() {
                    if i < n_used {
                        used_types.push(tn.clone());
                    } else if *tk == TK::Val {
                        decl_types.push(tn.clone());
                    }
                }
                let n_items = 1 + self.r.below(5);
                let mut imported_ifaces: Vec<String> = vec![];
                let mut exported_ifaces: Vec<String> = vec![];
                let (mut imp_names, mut exp_names): (Vec<String>, Vec<String>) = (vec![], vec![]);
                for _ in 0..n_items {
                    let dir = if self.r.chance(1, 2) { "import" } else { "export" };
                    match self.r.below(4) {
                        0 | 1 => {
                            // interface by name / path
                            let (path, _) = &sources[self.r.below(sources.len())];
                            let list = if dir == "import" { &mut imported_ifaces } else { &mut exported_ifaces };
                            if list.contains(path) {
                                continue;
                            }
                            list.push(path.clone());
                            self.feat(if dir == "import" { "world:import-iface" } else { "world:export-iface" });
                            body.push_str(&format!("  {dir} {path};\n"));
                        }
                        2 => {
                            let f = self.item_name("wf", dir, &mut imp_names, &mut exp_names, &mut names);
                            self.feat(if dir == "import" { "world:import-func" } else { "world:export-func" });
                            let sig = self.func_sig(&sc);
                            body.push_str(&format!("  {dir} {f}: {sig};\n"));
                        }
                        _ => {
                            let f = self.item_name("inl", dir, &mut imp_names, &mut exp_names, &mut names);
                            self.feat(if dir == "import" { "world:import-inline" } else { "world:export-inline" });
                            let mut isc = Scope::default();
                            let mut ib = String::new();
                            self.iface_body(&sources, "    ", &mut isc, &mut ib);
                            body.push_str(&format!("  {dir} {f}: interface {{\n{ib}  }}/*;*/\n"));
                        }
                    }
                }
            }
            // the name carries the tag of a shape that is a known finding (see `include_renames`)
            let wname = self.fresh(wprefix);
            let text = format!("world {wname} {{\n{body}}}\n");
            let decl_res_funcs = std::mem::take(&mut self.res_with_funcs);
            pkg.worlds.push(GenWorld { name: wname, text, names, used_types, decl_types, decl_res_funcs });
        }
        pkg.features = std::mem::take(&mut self.features);
        pkg
    }
}

/// A package, optionally preceded by a dependency package of another name/version whose
/// interfaces it uses by path.  Returns the texts in push order (dependency first).
pub fn gen_packages(r: &mut Rng, cfg: &GenCfg) -> (Vec<GenPkg>, Vec<&'static str>) {
    let mut g = Gen::new(r, cfg.clone());
    let mut pkgs = vec![];
    let mut deps: Vec<(String, Scope)> = vec![];
    let mut feats = vec![];
    if g.r.chance(1, 3) {
        let ver = ["1.0.0", "0.2.1", "2.3.4", "1.0.0+b1", "0.2.1-beta.2+build.5"][g.r.below(5)];
        let ver = if g.r.chance(3, 4) { Some(ver) } else { None };
        let mut dcfg = cfg.clone();
        dcfg.max_interfaces = 2;
        let saved = std::mem::replace(&mut g.cfg, dcfg);
        let dep = g.package("dep", "lib", ver, &[]);
        g.cfg = saved;
        for i in &dep.ifaces {
            deps.push((dep.path(&i.name), i.scope.clone()));
        }
        feats.push("pkg:dependency");
        feats.extend(dep.features.iter().copied());
        pkgs.push(dep);
    }
    let ver = if g.r.chance(1, 2) { Some(["1.2.0", "0.1.0", "3.0.0-rc.1", "1.2.0+build.7", "0.4.1-rc.1+build.7", "2.0.0+20260101.sha-abc"][g.r.below(6)]) } else { None };
    if let Some(v) = ver {
        feats.push("pkg:versioned");
        if v.contains('+') {
            feats.push("pkg:version-with-build-metadata");
        }
        if v.contains('-') {
            feats.push("pkg:version-with-pre-release");
        }
    }
    let main = g.package("t", "p", ver, &deps);
    feats.extend(main.features.iter().copied());
    pkgs.push(main);
    (pkgs, feats)
}

// ---------------------------------------------------------------------------------------------
// shaped WAT

fn wat_valtype(r: &mut Rng, depth: usize) -> String {
    let k = r.below(if depth == 0 { 3 } else { 14 });
    match k {
        0..=2 => PRIMS[r.below(PRIMS.len())].to_string(),
        3 => format!("(list {})", wat_valtype(r, depth - 1)),
        4 => format!("(option {})", wat_valtype(r, depth - 1)),
        5 => match r.below(4) {
            0 => "(result)".to_string(),
            1 => format!("(result {})", wat_valtype(r, depth - 1)),
            2 => format!("(result (error {}))", wat_valtype(r, depth - 1)),
            _ => format!("(result {} (error {}))", wat_valtype(r, depth - 1), wat_valtype(r, depth - 1)),
        },
        6 => {
            let n = 1 + r.below(3);
            format!("(tuple {})", (0..n).map(|_| wat_valtype(r, depth - 1)).collect::<Vec<_>>().join(" "))
        }
        7 => {
            let n = 1 + r.below(3);
            format!("(record {})", (0..n).map(|i| format!("(field \"f{}\" {})", i, wat_valtype(r, depth - 1))).collect::<Vec<_>>().join(" "))
        }
        8 => {
            let n = 1 + r.below(3);
            format!(
                "(variant {})",
                (0..n)
                    .map(|i| if r.chance(1, 2) { format!("(case \"c{}\" {})", i, wat_valtype(r, depth - 1)) } else { format!("(case \"c{}\")", i) })
                    .collect::<Vec<_>>()
                    .join(" ")
            )
        }
        9 => format!("(enum {})", (0..1 + r.below(3)).map(|i| format!("\"e{}\"", i)).collect::<Vec<_>>().join(" ")),
        10 => format!("(flags {})", (0..1 + r.below(3)).map(|i| format!("\"b{}\"", i)).collect::<Vec<_>>().join(" ")),
        11 => {
            if r.chance(1, 2) {
                "(future)".to_string()
            } else {
                format!("(future {})", wat_valtype(r, depth - 1))
            }
        }
        12 => {
            if r.chance(1, 2) {
                "(stream)".to_string()
            } else {
                format!("(stream {})", wat_valtype(r, depth - 1))
            }
        }
        _ => {
            if r.chance(1, 2) {
                "error-context".to_string()
            } else {
                format!("(list {} {})", wat_valtype(r, depth - 1), 1 + r.below(4))
            }
        }
    }
}

/// Value types inside imports/exports must be *named* when they are records/variants/enums/flags
/// etc.; so the shapes declare such types through type imports/exports and refer to them by
/// index.  `Decls` keeps the text of one type scope and its counters.
struct Decls {
    text: String,
    types: u32,
    /// indices of named (imported/exported) value types usable in signatures
    named_vals: Vec<u32>,
    /// indices of resource types in scope
    resources: Vec<u32>,
    names: usize,
    /// "import" for component-level scopes, "export" in instance types
    binder: &'static str,
    ind: String,
    /// core types declared in this scope (their own index space)
    core_types: u32,
}

impl Decls {
    fn new(binder: &'static str, ind: &str) -> Decls {
        Decls { text: String::new(), types: 0, named_vals: vec![], resources: vec![], names: 0, binder, ind: ind.to_string(), core_types: 0 }
    }
    fn name(&mut self, p: &str) -> String {
        self.names += 1;
        format!("{}{}", p, self.names)
    }
    fn line(&mut self, s: &str) {
        self.text.push_str(&self.ind);
        self.text.push_str(s);
        self.text.push('\n');
    }
    /// a value type usable in a signature: primitive, or anonymous structural (list/option/
    /// result/tuple) over usable ones, or a named type index, or own/borrow of a resource
    fn sig_val(&mut self, r: &mut Rng, depth: usize, borrow_ok: bool) -> String {
        let k = r.below(if depth == 0 { 4 } else { 10 });
        match k {
            0 | 1 => PRIMS[r.below(PRIMS.len())].to_string(),
            2 | 3 => {
                if !self.named_vals.is_empty() {
                    format!("{}", self.named_vals[r.below(self.named_vals.len())])
                } else {
                    "u32".to_string()
                }
            }
            4 => {
                let inner = self.sig_val(r, depth - 1, false);
                self.anon(&format!("(list {inner})"))
            }
            5 => {
                let inner = self.sig_val(r, depth - 1, false);
                self.anon(&format!("(option {inner})"))
            }
            6 => {
                let a = self.sig_val(r, depth - 1, false);
                let b = self.sig_val(r, depth - 1, false);
                self.anon(&format!("(result {a} (error {b}))"))
            }
            7 => {
                let a = self.sig_val(r, depth - 1, false);
                let b = self.sig_val(r, depth - 1, false);
                self.anon(&format!("(tuple {a} {b})"))
            }
            _ => {
                if !self.resources.is_empty() {
                    let ri = self.resources[r.below(self.resources.len())];
                    if borrow_ok && r.chance(1, 2) {
                        self.anon(&format!("(borrow {ri})"))
                    } else {
                        self.anon(&format!("(own {ri})"))
                    }
                } else {
                    "string".to_string()
                }
            }
        }
    }
    fn anon(&mut self, def: &str) -> String {
        let i = self.types;
        self.types += 1;
        self.line(&format!("(type (;{i};) {def})"));
        format!("{i}")
    }
    /// declare a named value type (record/variant/enum/flags/…), bound by import or export
    fn named_val(&mut self, r: &mut Rng) {
        let def = loop {
            let d = wat_valtype(r, 1);
            if d.starts_with('(') {
                break d;
            }
        };
        // components of the definition must be primitives or named: depth 1 gives primitives only
        let i = self.types;
        self.types += 1;
        self.line(&format!("(type (;{i};) {def})"));
        let n = self.name("t");
        let j = self.types;
        self.types += 1;
        let b = self.binder;
        self.line(&format!("({b} \"{n}\" (type (;{j};) (eq {i})))"));
        self.named_vals.push(j);
    }
    fn resource(&mut self, r: &mut Rng) {
        let n = self.name("r");
        let j = self.types;
        self.types += 1;
        let b = self.binder;
        if !self.resources.is_empty() && r.chance(1, 3) {
            let src = self.resources[r.below(self.resources.len())];
            self.line(&format!("({b} \"{n}\" (type (;{j};) (eq {src})))"));
        } else {
            self.line(&format!("({b} \"{n}\" (type (;{j};) (sub resource)))"));
        }
        self.resources.push(j);
    }
    /// declare a core module type and bind a module of that type (import or export of the scope)
    fn module(&mut self, r: &mut Rng, feats: &mut Vec<&'static str>) {
        let mt = core_module_type(r, feats);
        self.line(&mt);
        let n = self.name("m");
        let b = self.binder;
        let c = self.core_types;
        self.core_types += 1;
        self.line(&format!("({b} \"{n}\" (core module (type {c})))"));
    }
    fn func_type(&mut self, r: &mut Rng) -> String {
        let n = r.below(3);
        let mut ps = vec![];
        for i in 0..n {
            let v = self.sig_val(r, 2, true);
            ps.push(format!("(param \"p{i}\" {v})"));
        }
        let res = if r.chance(1, 2) { format!(" (result {})", self.sig_val(r, 2, false)) } else { String::new() };
        let a = if r.chance(1, 6) { "async " } else { "" };
        format!("(func {a}{}{})", ps.join(" "), res)
    }
}

/// abstract heap types of the reference types a core module type may mention
const CORE_HEAPS: &[&str] = &["func", "extern", "any", "eq", "i31", "struct", "array", "none", "nofunc", "noextern", "exn", "noexn"];
/// the nullable shorthands
const CORE_REF_SHORT: &[&str] = &[
    "funcref", "externref", "anyref", "eqref", "i31ref", "structref", "arrayref", "nullref", "nullfuncref", "nullexternref", "exnref",
    "nullexnref",
];

/// A core reference type: nullable and non-nullable, the two MVP heap types (`func`, `extern`;
/// half of the draws, both spellings of the nullable form) and the other abstract heap types.
/// At a low rate a reference to one of the function types declared so far (`(ref $t)`): the
/// converter reports concrete heap types as unsupported (the whole package then), it must not panic.
fn core_reftype(r: &mut Rng, ntypes: u32, feats: &mut Vec<&'static str>) -> String {
    if ntypes > 0 && r.chance(1, 12) {
        feats.push("core:ref-concrete");
        let i = r.below(ntypes as usize);
        return if r.chance(1, 2) { format!("(ref {i})") } else { format!("(ref null {i})") };
    }
    let mvp = r.chance(1, 2);
    let k = if mvp { r.below(2) } else { r.below(CORE_HEAPS.len()) };
    let nullable = r.chance(1, 2);
    feats.push(match (mvp, nullable) {
        (true, true) => "core:ref-null-func/extern",
        (true, false) => "core:ref-nonnull-func/extern",
        (false, true) => "core:ref-null-other",
        (false, false) => "core:ref-nonnull-other",
    });
    if !nullable {
        format!("(ref {})", CORE_HEAPS[k])
    } else if r.chance(1, 2) {
        CORE_REF_SHORT[k].to_string()
    } else {
        format!("(ref null {})", CORE_HEAPS[k])
    }
}

fn core_valtype(r: &mut Rng, ntypes: u32, feats: &mut Vec<&'static str>) -> String {
    if r.chance(1, 2) {
        ["i32", "i64", "f32", "f64", "v128"][r.below(5)].to_string()
    } else {
        core_reftype(r, ntypes, feats)
    }
}

/// `(func (param …) (result …))` over numeric, vector and reference types
fn core_functype(r: &mut Rng, ntypes: u32, feats: &mut Vec<&'static str>) -> String {
    let np = r.below(3);
    let nr = r.below(3);
    let ps: Vec<String> = (0..np).map(|_| core_valtype(r, ntypes, feats)).collect();
    let rs: Vec<String> = (0..nr).map(|_| core_valtype(r, ntypes, feats)).collect();
    let mut s = String::from("(func");
    if !ps.is_empty() {
        s.push_str(&format!(" (param {})", ps.join(" ")));
    }
    if !rs.is_empty() {
        s.push_str(&format!(" (result {})", rs.join(" ")));
    }
    s.push(')');
    s
}

fn core_globaltype(r: &mut Rng, ntypes: u32, feats: &mut Vec<&'static str>) -> String {
    let v = core_valtype(r, ntypes, feats);
    if r.chance(1, 3) {
        format!("(mut {v})")
    } else {
        v
    }
}

/// A core module type: imports and exports of functions, memories, tables, globals and tags;
/// reference types (see `core_reftype`) occur in function parameters/results, global contents,
/// table element types and tag parameters, on the import and on the export side.
fn core_module_type(r: &mut Rng, feats: &mut Vec<&'static str>) -> String {
    let mut s = String::from("(core type (module");
    let mut types = 0u32;
    let n = r.below(4);
    for i in 0..n {
        match r.below(5) {
            0 => {
                s.push_str(&format!(" (type {})", core_functype(r, types, feats)));
                s.push_str(&format!(" (import \"m{i}\" \"f{i}\" (func (type {types})))"));
                types += 1;
            }
            1 => s.push_str(&format!(
                " (import \"m\" \"mem{i}\" (memory {}{} {}))",
                if r.chance(1, 3) { "i64 " } else { "" },
                r.below(4),
                4 + r.below(4)
            )),
            2 => s.push_str(&format!(" (import \"m\" \"tab{i}\" (table {} {} {}))", r.below(3), 3 + r.below(3), core_reftype(r, types, feats))),
            3 => s.push_str(&format!(" (import \"m\" \"g{i}\" (global {}))", core_globaltype(r, types, feats))),
            _ => {
                let np = r.below(3);
                let ps: Vec<String> = (0..np).map(|_| core_valtype(r, types, feats)).collect();
                s.push_str(&format!(" (type (func (param i32 {})))", ps.join(" ")));
                s.push_str(&format!(" (import \"m\" \"tag{i}\" (tag (type {types})))"));
                types += 1;
            }
        }
    }
    let n = r.below(5);
    for i in 0..n {
        match r.below(5) {
            0 => {
                s.push_str(&format!(" (type {})", core_functype(r, types, feats)));
                s.push_str(&format!(" (export \"f{i}\" (func (type {types})))"));
                types += 1;
            }
            1 => s.push_str(&format!(" (export \"mem{i}\" (memory {} {} shared))", r.below(3), 3 + r.below(3))),
            2 => {
                let max = if r.chance(1, 2) { format!(" {}", 3 + r.below(3)) } else { String::new() };
                s.push_str(&format!(" (export \"tab{i}\" (table {}{max} {}))", r.below(3), core_reftype(r, types, feats)))
            }
            3 => {
                let np = r.below(2);
                let ps: Vec<String> = (0..np).map(|_| core_valtype(r, types, feats)).collect();
                s.push_str(&format!(" (type (func (param {})))", ps.join(" ")));
                s.push_str(&format!(" (export \"tag{i}\" (tag (type {types})))"));
                types += 1;
            }
            _ => s.push_str(&format!(" (export \"g{i}\" (global {}))", core_globaltype(r, types, feats))),
        }
    }
    s.push_str("))");
    s
}

/// the body of an instance type: named types, resources, functions, optionally a nested instance
fn instance_type_body(r: &mut Rng, depth: usize, ind: &str, feats: &mut Vec<&'static str>) -> String {
    let mut d = Decls::new("export", ind);
    let n = r.below(5);
    for _ in 0..n {
        match r.below(11) {
            10 => {
                feats.push("wat:module-in-instance-type");
                d.module(r, feats);
            }
            0 | 5 => d.named_val(r),
            1 | 6 => d.resource(r),
            2 | 3 | 7 | 8 => {
                let ft = d.func_type(r);
                let n = d.name("f");
                d.line(&format!("(export \"{n}\" {ft})"));
                d.types += 1; // the inline function type
            }
            _ => {
                if depth > 0 {
                    let inner = instance_type_body(r, depth - 1, &format!("{ind}  "), feats);
                    let n = d.name("i");
                    d.line(&format!("(export \"{n}\" (instance\n{inner}{ind}))"));
                    d.types += 1; // the inline instance type
                }
            }
        }
    }
    d.text
}

fn component_type_body(r: &mut Rng, depth: usize, ind: &str, feats: &mut Vec<&'static str>) -> String {
    let mut s = String::new();
    let mut d = Decls::new("import", ind);
    let n = r.below(4);
    for _ in 0..n {
        match r.below(11) {
            10 => {
                feats.push("wat:module-in-component-type");
                d.module(r, feats);
            }
            0 | 5 => d.named_val(r),
            1 | 6 => d.resource(r),
            2 | 7 => {
                let ft = d.func_type(r);
                let n = d.name("f");
                d.line(&format!("(import \"{n}\" {ft})"));
                d.types += 1;
            }
            3 | 8 => {
                let inner = instance_type_body(r, depth.saturating_sub(1), &format!("{ind}  "), feats);
                let n = d.name("i");
                d.line(&format!("(import \"{n}\" (instance\n{inner}{ind}))"));
                d.types += 1;
            }
            _ => {
                let n = d.name("v");
                d.line(&format!("(import \"{n}\" (value {}))", PRIMS[r.below(PRIMS.len())]));
            }
        }
    }
    let n = r.below(3);
    d.binder = "export";
    for _ in 0..n {
        match r.below(7) {
            6 => {
                feats.push("wat:module-in-component-type");
                d.module(r, feats);
            }
            0 | 3 => {
                let ft = d.func_type(r);
                let n = d.name("xf");
                d.line(&format!("(export \"{n}\" {ft})"));
                d.types += 1;
            }
            1 | 4 => {
                let inner = instance_type_body(r, depth.saturating_sub(1), &format!("{ind}  "), feats);
                let n = d.name("xi");
                d.line(&format!("(export \"{n}\" (instance\n{inner}{ind}))"));
                d.types += 1;
            }
            _ => d.resource(r),
        }
    }
    s.push_str(&d.text);
    s
}

/// A component made only of imports and re-exports of shaped types: nested component /
/// instance / module / value / type imports; exports re-export imported items.
pub fn gen_shaped_wat(r: &mut Rng) -> (String, Vec<&'static str>) {
    let mut feats = vec![];
    let mut d = Decls::new("import", "  ");
    let mut funcs: Vec<String> = vec![];
    let mut n_funcs = 0u32;
    let mut n_instances = 0u32;
    let mut n_components = 0u32;
    let mut n_modules = 0u32;
    let mut n_values = 0u32;
    let mut exports = String::new();
    let mut xn = 0;
    let n = 1 + r.below(6);
    let mut used = 0u32;
    for _ in 0..n {
        match r.below(11) {
            0 => {
                feats.push("wat:type-import");
                d.named_val(r);
                if r.chance(1, 3) {
                    xn += 1;
                    let j = d.named_vals[d.named_vals.len() - 1];
                    exports.push_str(&format!("  (export \"xt{xn}\" (type {j}))\n"));
                    feats.push("wat:type-export");
                }
            }
            1 => {
                feats.push("wat:resource-import");
                d.resource(r);
            }
            2 | 3 => {
                feats.push("wat:func-import");
                let ft = d.func_type(r);
                let n = d.name("f");
                d.line(&format!("(import \"{n}\" {ft})"));
                d.types += 1;
                funcs.push(n);
                if r.chance(1, 3) {
                    xn += 1;
                    exports.push_str(&format!("  (export \"xf{xn}\" (func {n_funcs}))\n"));
                    feats.push("wat:func-export");
                }
                n_funcs += 1;
            }
            4 => {
                feats.push("wat:instance-import");
                let inner = instance_type_body(r, 2, "    ", &mut feats);
                let n = if r.chance(1, 2) { format!("a:b/i{}", d.names + 1) } else { d.name("i") };
                d.names += 1;
                d.line(&format!("(import \"{n}\" (instance\n{inner}  ))"));
                d.types += 1;
                if r.chance(1, 3) {
                    xn += 1;
                    exports.push_str(&format!("  (export \"xi{xn}\" (instance {n_instances}))\n"));
                    feats.push("wat:instance-export");
                }
                n_instances += 1;
            }
            5 => {
                feats.push("wat:component-import");
                let inner = component_type_body(r, 2, "    ", &mut feats);
                let n = d.name("c");
                d.line(&format!("(import \"{n}\" (component\n{inner}  ))"));
                d.types += 1;
                if r.chance(1, 3) {
                    xn += 1;
                    exports.push_str(&format!("  (export \"xc{xn}\" (component {n_components}))\n"));
                    feats.push("wat:component-export");
                }
                n_components += 1;
            }
            6 | 10 => {
                feats.push("wat:module-import");
                d.module(r, &mut feats);
                if r.chance(1, 3) {
                    xn += 1;
                    exports.push_str(&format!("  (export \"xm{xn}\" (core module {n_modules}))\n"));
                    feats.push("wat:module-export");
                }
                n_modules += 1;
            }
            7 => {
                feats.push("wat:value-import");
                let v = match r.below(4) {
                    0 => format!("(list {})", PRIMS[r.below(PRIMS.len())]),
                    1 => format!("(option {})", PRIMS[r.below(PRIMS.len())]),
                    2 => format!("(tuple {} {})", PRIMS[r.below(PRIMS.len())], PRIMS[r.below(PRIMS.len())]),
                    _ => PRIMS[r.below(PRIMS.len())].to_string(),
                };
                let n = d.name("v");
                d.line(&format!("(import \"{n}\" (value {v}))"));
                // a value must be consumed exactly once: export it
                xn += 1;
                exports.push_str(&format!("  (export \"xv{xn}\" (value {n_values}))\n"));
                n_values += 1;
            }
            9 => {
                // an instance that exports a type, and a second instance that *uses* that type
                // (an alias of the first instance's export); either of them is imported under an
                // interface id or under a plain name (an instance without id cannot be `use`d)
                feats.push("wat:used-instance-type");
                used += 1;
                let k = used;
                let is_res = r.chance(1, 2);
                let src = if r.chance(1, 2) {
                    feats.push("wat:used-instance-plain-name");
                    d.name("i")
                } else {
                    d.names += 1;
                    format!("a:b/i{}", d.names)
                };
                let body = if is_res {
                    "(export \"t\" (type (sub resource)))".to_string()
                } else {
                    let def = loop {
                        let v = wat_valtype(r, 1);
                        if v.starts_with('(') {
                            break v;
                        }
                    };
                    format!("(type {def}) (export \"t\" (type (eq 0)))")
                };
                d.line(&format!("(import \"{src}\" (instance $si{k} {body}))"));
                d.types += 1;
                n_instances += 1;
                let t = d.types;
                d.types += 1;
                d.line(&format!("(alias export $si{k} \"t\" (type $st{k}))"));
                if is_res {
                    d.resources.push(t);
                } else {
                    d.named_vals.push(t);
                }
                let user = if r.chance(1, 2) {
                    d.name("i")
                } else {
                    d.names += 1;
                    format!("a:b/i{}", d.names)
                };
                let uname = if r.chance(1, 2) { "t" } else { "u" };
                d.line(&format!("(import \"{user}\" (instance (export \"{uname}\" (type (eq $st{k})))))"));
                d.types += 1;
                if r.chance(1, 3) {
                    xn += 1;
                    exports.push_str(&format!("  (export \"xi{xn}\" (instance {n_instances}))\n"));
                    feats.push("wat:instance-export");
                }
                n_instances += 1;
            }
            _ => {
                // a component *type* / instance *type* imported as a type
                feats.push("wat:typedef-import");
                let i = d.types;
                d.types += 1;
                if r.chance(1, 2) {
                    let inner = instance_type_body(r, 1, "    ", &mut feats);
                    d.line(&format!("(type (;{i};) (instance\n{inner}  ))"));
                } else {
                    let inner = component_type_body(r, 1, "    ", &mut feats);
                    d.line(&format!("(type (;{i};) (component\n{inner}  ))"));
                }
                let n = d.name("ty");
                let j = d.types;
                d.types += 1;
                d.line(&format!("(import \"{n}\" (type (;{j};) (eq {i})))"));
            }
        }
    }
    (format!("(component\n{}{})\n", d.text, exports), feats)
}
