//! Generators for the decode / WIT-meaning family (C08, C05): WIT packages and shaped WAT.
#![allow(dead_code)]

use wacv::Rng;

#[derive(Clone, Copy, PartialEq, Debug)]
pub enum TK {
    Val,
    Res,
}

#[derive(Clone, Default)]
pub struct Scope {
    /// types in scope: (name, kind)
    pub tys: Vec<(String, TK)>,
}

impl Scope {
    fn vals(&self) -> Vec<&str> {
        self.tys.iter().filter(|t| t.1 == TK::Val).map(|t| t.0.as_str()).collect()
    }
    fn ress(&self) -> Vec<&str> {
        self.tys.iter().filter(|t| t.1 == TK::Res).map(|t| t.0.as_str()).collect()
    }
    fn has(&self, n: &str) -> bool {
        self.tys.iter().any(|t| t.0 == n)
    }
}

#[derive(Clone)]
pub struct GenCfg {
    /// restrict to the syntax shared by WIT and WAC (C05): no `own<>`, no `async`, no
    /// stream/future, no fixed-size lists, no top-level `use`
    pub wac_subset: bool,
    pub max_interfaces: usize,
    pub max_types: usize,
    pub max_funcs: usize,
    /// allow `async func` (component encoding with the dummy module may reject some)
    pub async_funcs: bool,
}

impl Default for GenCfg {
    fn default() -> Self {
        GenCfg { wac_subset: false, max_interfaces: 4, max_types: 5, max_funcs: 3, async_funcs: false }
    }
}

pub struct GenIface {
    pub name: String,
    pub scope: Scope,
    /// exported type names with kind (includes used types)
    pub text: String,
}

pub struct GenWorld {
    pub name: String,
    pub text: String,
    /// plain (kebab) names of the world's function / inline-interface imports and exports
    pub names: Vec<String>,
}

pub struct GenPkg {
    pub ns: String,
    pub name: String,
    pub version: Option<String>,
    pub ifaces: Vec<GenIface>,
    pub worlds: Vec<GenWorld>,
    /// feature counters (names of features used)
    pub features: Vec<&'static str>,
}

impl GenPkg {
    pub fn header(&self) -> String {
        match &self.version {
            Some(v) => format!("package {}:{}@{};\n", self.ns, self.name, v),
            None => format!("package {}:{};\n", self.ns, self.name),
        }
    }
    pub fn text(&self) -> String {
        let mut s = self.header();
        for i in &self.ifaces {
            s.push_str(&i.text);
        }
        for w in &self.worlds {
            s.push_str(&w.text);
        }
        s
    }
    /// `ns:name/item[@version]`
    pub fn path(&self, item: &str) -> String {
        match &self.version {
            Some(v) => format!("{}:{}/{}@{}", self.ns, self.name, item, v),
            None => format!("{}:{}/{}", self.ns, self.name, item),
        }
    }
}

const PRIMS: &[&str] = &["u8", "s8", "u16", "s16", "u32", "s32", "u64", "s64", "f32", "f64", "char", "bool", "string"];

pub struct Gen<'a> {
    pub r: &'a mut Rng,
    pub cfg: GenCfg,
    pub features: Vec<&'static str>,
    uniq: usize,
}

impl<'a> Gen<'a> {
    pub fn new(r: &'a mut Rng, cfg: GenCfg) -> Self {
        Gen { r, cfg, features: vec![], uniq: 0 }
    }

    fn feat(&mut self, f: &'static str) {
        self.features.push(f);
    }

    fn fresh(&mut self, prefix: &str) -> String {
        self.uniq += 1;
        let n = self.uniq;
        // kebab id: letters and digits, segments start with a letter
        format!("{}{}", prefix, n)
    }

    /// a value type expression over the scope; `borrow_ok`: a borrow may appear (parameters only)
    pub fn ty(&mut self, sc: &Scope, depth: usize, borrow_ok: bool) -> String {
        let vals = sc.vals();
        let ress = sc.ress();
        let k = self.r.below(if depth == 0 { 4 } else { 12 });
        match k {
            0 | 1 => PRIMS[self.r.below(PRIMS.len())].to_string(),
            2 | 3 | 4 => {
                if !vals.is_empty() {
                    self.feat("ty:named");
                    vals[self.r.below(vals.len())].to_string()
                } else {
                    PRIMS[self.r.below(PRIMS.len())].to_string()
                }
            }
            5 => {
                self.feat("ty:list");
                format!("list<{}>", self.ty(sc, depth - 1, false))
            }
            6 => {
                self.feat("ty:option");
                format!("option<{}>", self.ty(sc, depth - 1, false))
            }
            7 => {
                self.feat("ty:result");
                match self.r.below(4) {
                    0 => "result".to_string(),
                    1 => format!("result<{}>", self.ty(sc, depth - 1, false)),
                    2 => format!("result<_, {}>", self.ty(sc, depth - 1, false)),
                    _ => format!("result<{}, {}>", self.ty(sc, depth - 1, false), self.ty(sc, depth - 1, false)),
                }
            }
            8 => {
                self.feat("ty:tuple");
                let n = 1 + self.r.below(3);
                let v: Vec<String> = (0..n).map(|_| self.ty(sc, depth - 1, false)).collect();
                format!("tuple<{}>", v.join(", "))
            }
            9 | 10 => {
                if !ress.is_empty() {
                    let rn = ress[self.r.below(ress.len())].to_string();
                    if borrow_ok && self.r.chance(1, 2) {
                        self.feat("ty:borrow");
                        format!("borrow<{rn}>")
                    } else if !self.cfg.wac_subset && self.r.chance(1, 3) {
                        self.feat("ty:own-explicit");
                        format!("own<{rn}>")
                    } else {
                        self.feat("ty:own");
                        rn
                    }
                } else {
                    PRIMS[self.r.below(PRIMS.len())].to_string()
                }
            }
            _ => {
                if !self.cfg.wac_subset && self.r.chance(1, 3) {
                    match self.r.below(3) {
                        0 => {
                            self.feat("ty:future");
                            if self.r.chance(1, 3) {
                                "future".to_string()
                            } else {
                                format!("future<{}>", self.ty(sc, depth - 1, false))
                            }
                        }
                        1 => {
                            self.feat("ty:stream");
                            if self.r.chance(1, 3) {
                                "stream".to_string()
                            } else {
                                format!("stream<{}>", self.ty(sc, depth - 1, false))
                            }
                        }
                        _ => {
                            self.feat("ty:error-context");
                            "error-context".to_string()
                        }
                    }
                } else {
                    PRIMS[self.r.below(PRIMS.len())].to_string()
                }
            }
        }
    }

    pub fn func_sig(&mut self, sc: &Scope) -> String {
        let n = self.r.below(4);
        let mut ps = Vec::new();
        for i in 0..n {
            ps.push(format!("p{}: {}", i, self.ty(sc, 2, true)));
        }
        let res = if self.r.chance(2, 3) { format!(" -> {}", self.ty(sc, 2, false)) } else { String::new() };
        let a = if self.cfg.async_funcs && !self.cfg.wac_subset && self.r.chance(1, 6) {
            self.feat("func:async");
            "async "
        } else {
            ""
        };
        format!("{}func({}){}", a, ps.join(", "), res)
    }

    /// type declarations and functions of an interface body (also used for inline interfaces and,
    /// without functions, for world-level types)
    fn decls(&mut self, sc: &mut Scope, ind: &str, n_types: usize, n_funcs: usize, out: &mut String, fn_names: &mut Vec<String>) {
        for _ in 0..n_types {
            let k = self.r.below(7);
            match k {
                0 => {
                    let name = self.fresh("rec");
                    self.feat("decl:record");
                    let n = 1 + self.r.below(3);
                    let fs: Vec<String> = (0..n).map(|i| format!("f{}: {}", i, self.ty(sc, 2, false))).collect();
                    out.push_str(&format!("{ind}record {name} {{ {} }}\n", fs.join(", ")));
                    sc.tys.push((name, TK::Val));
                }
                1 => {
                    let name = self.fresh("var");
                    self.feat("decl:variant");
                    let n = 1 + self.r.below(3);
                    let cs: Vec<String> = (0..n)
                        .map(|i| if self.r.chance(1, 2) { format!("c{}({})", i, self.ty(sc, 2, false)) } else { format!("c{}", i) })
                        .collect();
                    out.push_str(&format!("{ind}variant {name} {{ {} }}\n", cs.join(", ")));
                    sc.tys.push((name, TK::Val));
                }
                2 => {
                    let name = self.fresh("enm");
                    self.feat("decl:enum");
                    let n = 1 + self.r.below(3);
                    let cs: Vec<String> = (0..n).map(|i| format!("e{}", i)).collect();
                    out.push_str(&format!("{ind}enum {name} {{ {} }}\n", cs.join(", ")));
                    sc.tys.push((name, TK::Val));
                }
                3 => {
                    let name = self.fresh("flg");
                    self.feat("decl:flags");
                    let n = 1 + self.r.below(3);
                    let cs: Vec<String> = (0..n).map(|i| format!("b{}", i)).collect();
                    out.push_str(&format!("{ind}flags {name} {{ {} }}\n", cs.join(", ")));
                    sc.tys.push((name, TK::Val));
                }
                4 => {
                    let name = self.fresh("als");
                    self.feat("decl:alias");
                    // alias of a value type expression, or of a resource (a second name for it)
                    let ress = sc.ress();
                    if !ress.is_empty() && self.r.chance(1, 4) {
                        let rn = ress[self.r.below(ress.len())].to_string();
                        self.feat("decl:alias-of-resource");
                        out.push_str(&format!("{ind}type {name} = {rn};\n"));
                        sc.tys.push((name, TK::Res));
                    } else {
                        let t = self.ty(sc, 2, false);
                        out.push_str(&format!("{ind}type {name} = {t};\n"));
                        sc.tys.push((name, TK::Val));
                    }
                }
                _ => {
                    let name = self.fresh("res");
                    self.feat("decl:resource");
                    // the resource is in scope inside its own methods
                    sc.tys.push((name.clone(), TK::Res));
                    if self.r.chance(1, 4) {
                        out.push_str(&format!("{ind}resource {name};\n"));
                    } else {
                        let mut body = String::new();
                        if self.r.chance(1, 2) {
                            self.feat("res:constructor");
                            let n = self.r.below(3);
                            let ps: Vec<String> = (0..n).map(|i| format!("p{}: {}", i, self.ty(sc, 2, true))).collect();
                            body.push_str(&format!("{ind}  constructor({});\n", ps.join(", ")));
                        }
                        let nm = self.r.below(3);
                        for _ in 0..nm {
                            let m = self.fresh("m");
                            let st = if self.r.chance(1, 3) {
                                self.feat("res:static");
                                "static "
                            } else {
                                self.feat("res:method");
                                ""
                            };
                            let sig = self.func_sig(sc);
                            let sig = sig.trim_start_matches("async ").to_string();
                            body.push_str(&format!("{ind}  {m}: {st}{sig};\n"));
                        }
                        out.push_str(&format!("{ind}resource {name} {{\n{body}{ind}}}\n"));
                    }
                }
            }
        }
        for _ in 0..n_funcs {
            let f = self.fresh("fn");
            let sig = self.func_sig(sc);
            out.push_str(&format!("{ind}{f}: {sig};\n"));
            fn_names.push(f);
        }
    }

    /// `use <path>.{a, b as c};` lines taking types of earlier interfaces
    fn uses(&mut self, sc: &mut Scope, ind: &str, sources: &[(String, Scope)], out: &mut String, max: usize) {
        if sources.is_empty() {
            return;
        }
        let n = self.r.below(max + 1);
        for _ in 0..n {
            let (path, src) = &sources[self.r.below(sources.len())];
            if src.tys.is_empty() {
                continue;
            }
            let k = 1 + self.r.below(3.min(src.tys.len()));
            let mut items = Vec::new();
            let mut picked = Vec::new();
            for _ in 0..k {
                let (tn, tk) = &src.tys[self.r.below(src.tys.len())];
                if picked.contains(tn) {
                    continue;
                }
                let (local, item) = if self.r.chance(1, 3) {
                    let l = self.fresh("ren");
                    self.feat("use:rename");
                    (l.clone(), format!("{tn} as {l}"))
                } else {
                    (tn.clone(), tn.clone())
                };
                if sc.has(&local) {
                    continue;
                }
                picked.push(tn.clone());
                sc.tys.push((local, *tk));
                items.push(item);
            }
            if !items.is_empty() {
                self.feat("use");
                out.push_str(&format!("{ind}use {path}.{{{}}};\n", items.join(", ")));
            }
        }
    }

    pub fn iface_body(&mut self, sources: &[(String, Scope)], ind: &str, sc: &mut Scope, out: &mut String) {
        self.uses(sc, ind, sources, out, 2);
        let nt = self.r.below(self.cfg.max_types + 1);
        let nf = self.r.below(self.cfg.max_funcs + 1);
        let mut fns = vec![];
        self.decls(sc, ind, nt, nf, out, &mut fns);
    }

    /// One package: interfaces i1..ik (later ones may `use` earlier ones, and `deps` — interfaces
    /// of other packages given by full path), and 1–2 worlds.
    pub fn package(&mut self, ns: &str, name: &str, version: Option<&str>, deps: &[(String, Scope)]) -> GenPkg {
        let mut pkg = GenPkg {
            ns: ns.to_string(),
            name: name.to_string(),
            version: version.map(|s| s.to_string()),
            ifaces: vec![],
            worlds: vec![],
            features: vec![],
        };
        let ni = 1 + self.r.below(self.cfg.max_interfaces);
        let mut sources: Vec<(String, Scope)> = deps.to_vec();
        for _ in 0..ni {
            let iname = self.fresh("ifc");
            let mut sc = Scope::default();
            let mut body = String::new();
            self.iface_body(&sources, "  ", &mut sc, &mut body);
            let text = format!("interface {iname} {{\n{body}}}\n");
            sources.push((iname.clone(), sc.clone()));
            pkg.ifaces.push(GenIface { name: iname, scope: sc, text });
        }
        let nw = 1 + self.r.below(2);
        for wi in 0..nw {
            let wname = self.fresh("wld");
            let mut body = String::new();
            let mut sc = Scope::default();
            let mut names: Vec<String> = vec![];
            // include of an earlier world of this package, optionally renaming some of its items
            if wi > 0 && self.r.chance(2, 3) {
                self.feat("world:include");
                let prev = pkg.worlds[0].name.clone();
                let prev_names = pkg.worlds[0].names.clone();
                let mut withs = vec![];
                for n in &prev_names {
                    if self.r.chance(1, 2) {
                        let to = self.fresh("inc");
                        withs.push(format!("{n} as {to}"));
                        names.push(to);
                    } else {
                        names.push(n.clone());
                    }
                }
                if withs.is_empty() {
                    body.push_str(&format!("  include {prev};\n"));
                } else {
                    self.feat("world:include-with");
                    // WIT has no `;` after the `with` list, WAC requires one: `/*;*/` is a comment
                    // for WIT and is replaced by `;` for WAC
                    body.push_str(&format!("  include {prev} with {{ {} }}/*;*/\n", withs.join(", ")));
                }
            }
            {
                self.uses(&mut sc, "  ", &sources, &mut body, 2);
                let nt = self.r.below(3);
                let mut fns = vec![];
                self.decls(&mut sc, "  ", nt, 0, &mut body, &mut fns);
                let n_items = 1 + self.r.below(5);
                let mut imported_ifaces: Vec<String> = vec![];
                let mut exported_ifaces: Vec<String> = vec![];
                for _ in 0..n_items {
                    let dir = if self.r.chance(1, 2) { "import" } else { "export" };
                    match self.r.below(4) {
                        0 | 1 => {
                            // interface by name / path
                            let (path, _) = &sources[self.r.below(sources.len())];
                            let list = if dir == "import" { &mut imported_ifaces } else { &mut exported_ifaces };
                            if list.contains(path) {
                                continue;
                            }
                            list.push(path.clone());
                            self.feat(if dir == "import" { "world:import-iface" } else { "world:export-iface" });
                            body.push_str(&format!("  {dir} {path};\n"));
                        }
                        2 => {
                            let f = self.fresh("wf");
                            names.push(f.clone());
                            self.feat(if dir == "import" { "world:import-func" } else { "world:export-func" });
                            let sig = self.func_sig(&sc);
                            body.push_str(&format!("  {dir} {f}: {sig};\n"));
                        }
                        _ => {
                            let f = self.fresh("inl");
                            names.push(f.clone());
                            self.feat(if dir == "import" { "world:import-inline" } else { "world:export-inline" });
                            let mut isc = Scope::default();
                            let mut ib = String::new();
                            self.iface_body(&sources, "    ", &mut isc, &mut ib);
                            body.push_str(&format!("  {dir} {f}: interface {{\n{ib}  }}/*;*/\n"));
                        }
                    }
                }
            }
            let text = format!("world {wname} {{\n{body}}}\n");
            pkg.worlds.push(GenWorld { name: wname, text, names });
        }
        pkg.features = std::mem::take(&mut self.features);
        pkg
    }
}

/// A package, optionally preceded by a dependency package of another name/version whose
/// interfaces it uses by path.  Returns the texts in push order (dependency first).
pub fn gen_packages(r: &mut Rng, cfg: &GenCfg) -> (Vec<GenPkg>, Vec<&'static str>) {
    let mut g = Gen::new(r, cfg.clone());
    let mut pkgs = vec![];
    let mut deps: Vec<(String, Scope)> = vec![];
    let mut feats = vec![];
    if g.r.chance(1, 3) {
        let ver = ["1.0.0", "0.2.1", "2.3.4"][g.r.below(3)];
        let ver = if g.r.chance(3, 4) { Some(ver) } else { None };
        let mut dcfg = cfg.clone();
        dcfg.max_interfaces = 2;
        let saved = std::mem::replace(&mut g.cfg, dcfg);
        let dep = g.package("dep", "lib", ver, &[]);
        g.cfg = saved;
        for i in &dep.ifaces {
            deps.push((dep.path(&i.name), i.scope.clone()));
        }
        feats.push("pkg:dependency");
        feats.extend(dep.features.iter().copied());
        pkgs.push(dep);
    }
    let ver = if g.r.chance(1, 2) { Some(["1.2.0", "0.1.0", "3.0.0-rc.1"][g.r.below(3)]) } else { None };
    if ver.is_some() {
        feats.push("pkg:versioned");
    }
    let main = g.package("t", "p", ver, &deps);
    feats.extend(main.features.iter().copied());
    pkgs.push(main);
    (pkgs, feats)
}

// ---------------------------------------------------------------------------------------------
// shaped WAT

fn wat_valtype(r: &mut Rng, depth: usize) -> String {
    let k = r.below(if depth == 0 { 3 } else { 14 });
    match k {
        0..=2 => PRIMS[r.below(PRIMS.len())].to_string(),
        3 => format!("(list {})", wat_valtype(r, depth - 1)),
        4 => format!("(option {})", wat_valtype(r, depth - 1)),
        5 => match r.below(4) {
            0 => "(result)".to_string(),
            1 => format!("(result {})", wat_valtype(r, depth - 1)),
            2 => format!("(result (error {}))", wat_valtype(r, depth - 1)),
            _ => format!("(result {} (error {}))", wat_valtype(r, depth - 1), wat_valtype(r, depth - 1)),
        },
        6 => {
            let n = 1 + r.below(3);
            format!("(tuple {})", (0..n).map(|_| wat_valtype(r, depth - 1)).collect::<Vec<_>>().join(" "))
        }
        7 => {
            let n = 1 + r.below(3);
            format!("(record {})", (0..n).map(|i| format!("(field \"f{}\" {})", i, wat_valtype(r, depth - 1))).collect::<Vec<_>>().join(" "))
        }
        8 => {
            let n = 1 + r.below(3);
            format!(
                "(variant {})",
                (0..n)
                    .map(|i| if r.chance(1, 2) { format!("(case \"c{}\" {})", i, wat_valtype(r, depth - 1)) } else { format!("(case \"c{}\")", i) })
                    .collect::<Vec<_>>()
                    .join(" ")
            )
        }
        9 => format!("(enum {})", (0..1 + r.below(3)).map(|i| format!("\"e{}\"", i)).collect::<Vec<_>>().join(" ")),
        10 => format!("(flags {})", (0..1 + r.below(3)).map(|i| format!("\"b{}\"", i)).collect::<Vec<_>>().join(" ")),
        11 => {
            if r.chance(1, 2) {
                "(future)".to_string()
            } else {
                format!("(future {})", wat_valtype(r, depth - 1))
            }
        }
        12 => {
            if r.chance(1, 2) {
                "(stream)".to_string()
            } else {
                format!("(stream {})", wat_valtype(r, depth - 1))
            }
        }
        _ => {
            if r.chance(1, 2) {
                "error-context".to_string()
            } else {
                format!("(list {} {})", wat_valtype(r, depth - 1), 1 + r.below(4))
            }
        }
    }
}

/// Value types inside imports/exports must be *named* when they are records/variants/enums/flags
/// etc.; so the shapes declare such types through type imports/exports and refer to them by
/// index.  `Decls` keeps the text of one type scope and its counters.
struct Decls {
    text: String,
    types: u32,
    /// indices of named (imported/exported) value types usable in signatures
    named_vals: Vec<u32>,
    /// indices of resource types in scope
    resources: Vec<u32>,
    names: usize,
    /// "import" for component-level scopes, "export" in instance types
    binder: &'static str,
    ind: String,
}

impl Decls {
    fn new(binder: &'static str, ind: &str) -> Decls {
        Decls { text: String::new(), types: 0, named_vals: vec![], resources: vec![], names: 0, binder, ind: ind.to_string() }
    }
    fn name(&mut self, p: &str) -> String {
        self.names += 1;
        format!("{}{}", p, self.names)
    }
    fn line(&mut self, s: &str) {
        self.text.push_str(&self.ind);
        self.text.push_str(s);
        self.text.push('\n');
    }
    /// a value type usable in a signature: primitive, or anonymous structural (list/option/
    /// result/tuple) over usable ones, or a named type index, or own/borrow of a resource
    fn sig_val(&mut self, r: &mut Rng, depth: usize, borrow_ok: bool) -> String {
        let k = r.below(if depth == 0 { 4 } else { 10 });
        match k {
            0 | 1 => PRIMS[r.below(PRIMS.len())].to_string(),
            2 | 3 => {
                if !self.named_vals.is_empty() {
                    format!("{}", self.named_vals[r.below(self.named_vals.len())])
                } else {
                    "u32".to_string()
                }
            }
            4 => {
                let inner = self.sig_val(r, depth - 1, false);
                self.anon(&format!("(list {inner})"))
            }
            5 => {
                let inner = self.sig_val(r, depth - 1, false);
                self.anon(&format!("(option {inner})"))
            }
            6 => {
                let a = self.sig_val(r, depth - 1, false);
                let b = self.sig_val(r, depth - 1, false);
                self.anon(&format!("(result {a} (error {b}))"))
            }
            7 => {
                let a = self.sig_val(r, depth - 1, false);
                let b = self.sig_val(r, depth - 1, false);
                self.anon(&format!("(tuple {a} {b})"))
            }
            _ => {
                if !self.resources.is_empty() {
                    let ri = self.resources[r.below(self.resources.len())];
                    if borrow_ok && r.chance(1, 2) {
                        self.anon(&format!("(borrow {ri})"))
                    } else {
                        self.anon(&format!("(own {ri})"))
                    }
                } else {
                    "string".to_string()
                }
            }
        }
    }
    fn anon(&mut self, def: &str) -> String {
        let i = self.types;
        self.types += 1;
        self.line(&format!("(type (;{i};) {def})"));
        format!("{i}")
    }
    /// declare a named value type (record/variant/enum/flags/…), bound by import or export
    fn named_val(&mut self, r: &mut Rng) {
        let def = loop {
            let d = wat_valtype(r, 1);
            if d.starts_with('(') {
                break d;
            }
        };
        // components of the definition must be primitives or named: depth 1 gives primitives only
        let i = self.types;
        self.types += 1;
        self.line(&format!("(type (;{i};) {def})"));
        let n = self.name("t");
        let j = self.types;
        self.types += 1;
        let b = self.binder;
        self.line(&format!("({b} \"{n}\" (type (;{j};) (eq {i})))"));
        self.named_vals.push(j);
    }
    fn resource(&mut self, r: &mut Rng) {
        let n = self.name("r");
        let j = self.types;
        self.types += 1;
        let b = self.binder;
        if !self.resources.is_empty() && r.chance(1, 3) {
            let src = self.resources[r.below(self.resources.len())];
            self.line(&format!("({b} \"{n}\" (type (;{j};) (eq {src})))"));
        } else {
            self.line(&format!("({b} \"{n}\" (type (;{j};) (sub resource)))"));
        }
        self.resources.push(j);
    }
    fn func_type(&mut self, r: &mut Rng) -> String {
        let n = r.below(3);
        let mut ps = vec![];
        for i in 0..n {
            let v = self.sig_val(r, 2, true);
            ps.push(format!("(param \"p{i}\" {v})"));
        }
        let res = if r.chance(1, 2) { format!(" (result {})", self.sig_val(r, 2, false)) } else { String::new() };
        let a = if r.chance(1, 6) { "async " } else { "" };
        format!("(func {a}{}{})", ps.join(" "), res)
    }
}

fn core_module_type(r: &mut Rng) -> String {
    let mut s = String::from("(core type (module");
    let mut types = 0;
    let n = r.below(4);
    for i in 0..n {
        match r.below(5) {
            0 => {
                s.push_str(&format!(" (type (func (param i32 {}) (result {})))", ["i64", "f32", "f64", "v128"][r.below(4)], ["i32", "i64", "funcref", "externref"][r.below(4)]));
                s.push_str(&format!(" (import \"m{i}\" \"f{i}\" (func (type {types})))"));
                types += 1;
            }
            1 => s.push_str(&format!(
                " (import \"m\" \"mem{i}\" (memory {}{} {}))",
                if r.chance(1, 3) { "i64 " } else { "" },
                r.below(4),
                4 + r.below(4)
            )),
            2 => s.push_str(&format!(" (import \"m\" \"tab{i}\" (table {} {} {}))", r.below(3), 3 + r.below(3), ["funcref", "externref"][r.below(2)])),
            3 => s.push_str(&format!(" (import \"m\" \"g{i}\" (global {}))", ["i32", "(mut i64)", "f32", "(mut externref)"][r.below(4)])),
            _ => {
                s.push_str(" (type (func (param i32)))");
                s.push_str(&format!(" (import \"m\" \"tag{i}\" (tag (type {types})))"));
                types += 1;
            }
        }
    }
    let n = r.below(4);
    for i in 0..n {
        match r.below(4) {
            0 => {
                s.push_str(" (type (func (result i32 i64)))");
                s.push_str(&format!(" (export \"f{i}\" (func (type {types})))"));
                types += 1;
            }
            1 => s.push_str(&format!(" (export \"mem{i}\" (memory {} {} shared))", r.below(3), 3 + r.below(3))),
            2 => s.push_str(&format!(" (export \"tab{i}\" (table {} funcref))", r.below(3))),
            _ => s.push_str(&format!(" (export \"g{i}\" (global {}))", ["i32", "(mut f64)", "v128"][r.below(3)])),
        }
    }
    s.push_str("))");
    s
}

/// the body of an instance type: named types, resources, functions, optionally a nested instance
fn instance_type_body(r: &mut Rng, depth: usize, ind: &str) -> String {
    let mut d = Decls::new("export", ind);
    let n = r.below(5);
    for _ in 0..n {
        match r.below(5) {
            0 => d.named_val(r),
            1 => d.resource(r),
            2 | 3 => {
                let ft = d.func_type(r);
                let n = d.name("f");
                d.line(&format!("(export \"{n}\" {ft})"));
                d.types += 1; // the inline function type
            }
            _ => {
                if depth > 0 {
                    let inner = instance_type_body(r, depth - 1, &format!("{ind}  "));
                    let n = d.name("i");
                    d.line(&format!("(export \"{n}\" (instance\n{inner}{ind}))"));
                    d.types += 1; // the inline instance type
                }
            }
        }
    }
    d.text
}

fn component_type_body(r: &mut Rng, depth: usize, ind: &str) -> String {
    let mut s = String::new();
    let mut d = Decls::new("import", ind);
    let n = r.below(4);
    for _ in 0..n {
        match r.below(5) {
            0 => d.named_val(r),
            1 => d.resource(r),
            2 => {
                let ft = d.func_type(r);
                let n = d.name("f");
                d.line(&format!("(import \"{n}\" {ft})"));
                d.types += 1;
            }
            3 => {
                let inner = instance_type_body(r, depth.saturating_sub(1), &format!("{ind}  "));
                let n = d.name("i");
                d.line(&format!("(import \"{n}\" (instance\n{inner}{ind}))"));
                d.types += 1;
            }
            _ => {
                let n = d.name("v");
                d.line(&format!("(import \"{n}\" (value {}))", PRIMS[r.below(PRIMS.len())]));
            }
        }
    }
    let n = r.below(3);
    d.binder = "export";
    for _ in 0..n {
        match r.below(3) {
            0 => {
                let ft = d.func_type(r);
                let n = d.name("xf");
                d.line(&format!("(export \"{n}\" {ft})"));
                d.types += 1;
            }
            1 => {
                let inner = instance_type_body(r, depth.saturating_sub(1), &format!("{ind}  "));
                let n = d.name("xi");
                d.line(&format!("(export \"{n}\" (instance\n{inner}{ind}))"));
                d.types += 1;
            }
            _ => d.resource(r),
        }
    }
    s.push_str(&d.text);
    s
}

/// A component made only of imports and re-exports of shaped types: nested component /
/// instance / module / value / type imports; exports re-export imported items.
pub fn gen_shaped_wat(r: &mut Rng) -> (String, Vec<&'static str>) {
    let mut feats = vec![];
    let mut d = Decls::new("import", "  ");
    let mut core_types = 0u32;
    let mut funcs: Vec<String> = vec![];
    let mut n_funcs = 0u32;
    let mut n_instances = 0u32;
    let mut n_components = 0u32;
    let mut n_modules = 0u32;
    let mut n_values = 0u32;
    let mut exports = String::new();
    let mut xn = 0;
    let n = 1 + r.below(6);
    let mut used = 0u32;
    for _ in 0..n {
        match r.below(10) {
            0 => {
                feats.push("wat:type-import");
                d.named_val(r);
                if r.chance(1, 3) {
                    xn += 1;
                    let j = d.named_vals[d.named_vals.len() - 1];
                    exports.push_str(&format!("  (export \"xt{xn}\" (type {j}))\n"));
                    feats.push("wat:type-export");
                }
            }
            1 => {
                feats.push("wat:resource-import");
                d.resource(r);
            }
            2 | 3 => {
                feats.push("wat:func-import");
                let ft = d.func_type(r);
                let n = d.name("f");
                d.line(&format!("(import \"{n}\" {ft})"));
                d.types += 1;
                funcs.push(n);
                if r.chance(1, 3) {
                    xn += 1;
                    exports.push_str(&format!("  (export \"xf{xn}\" (func {n_funcs}))\n"));
                    feats.push("wat:func-export");
                }
                n_funcs += 1;
            }
            4 => {
                feats.push("wat:instance-import");
                let inner = instance_type_body(r, 2, "    ");
                let n = if r.chance(1, 2) { format!("a:b/i{}", d.names + 1) } else { d.name("i") };
                d.names += 1;
                d.line(&format!("(import \"{n}\" (instance\n{inner}  ))"));
                d.types += 1;
                if r.chance(1, 3) {
                    xn += 1;
                    exports.push_str(&format!("  (export \"xi{xn}\" (instance {n_instances}))\n"));
                    feats.push("wat:instance-export");
                }
                n_instances += 1;
            }
            5 => {
                feats.push("wat:component-import");
                let inner = component_type_body(r, 2, "    ");
                let n = d.name("c");
                d.line(&format!("(import \"{n}\" (component\n{inner}  ))"));
                d.types += 1;
                if r.chance(1, 3) {
                    xn += 1;
                    exports.push_str(&format!("  (export \"xc{xn}\" (component {n_components}))\n"));
                    feats.push("wat:component-export");
                }
                n_components += 1;
            }
            6 => {
                feats.push("wat:module-import");
                let mt = core_module_type(r);
                d.line(&mt);
                let n = d.name("m");
                d.line(&format!("(import \"{n}\" (core module (type {core_types})))"));
                core_types += 1;
                if r.chance(1, 3) {
                    xn += 1;
                    exports.push_str(&format!("  (export \"xm{xn}\" (core module {n_modules}))\n"));
                    feats.push("wat:module-export");
                }
                n_modules += 1;
            }
            7 => {
                feats.push("wat:value-import");
                let v = match r.below(4) {
                    0 => format!("(list {})", PRIMS[r.below(PRIMS.len())]),
                    1 => format!("(option {})", PRIMS[r.below(PRIMS.len())]),
                    2 => format!("(tuple {} {})", PRIMS[r.below(PRIMS.len())], PRIMS[r.below(PRIMS.len())]),
                    _ => PRIMS[r.below(PRIMS.len())].to_string(),
                };
                let n = d.name("v");
                d.line(&format!("(import \"{n}\" (value {v}))"));
                // a value must be consumed exactly once: export it
                xn += 1;
                exports.push_str(&format!("  (export \"xv{xn}\" (value {n_values}))\n"));
                n_values += 1;
            }
            9 => {
                // an instance that exports a type, and a second instance that *uses* that type
                // (an alias of the first instance's export); either of them is imported under an
                // interface id or under a plain name (an instance without id cannot be `use`d)
                feats.push("wat:used-instance-type");
                used += 1;
                let k = used;
                let is_res = r.chance(1, 2);
                let src = if r.chance(1, 2) {
                    feats.push("wat:used-instance-plain-name");
                    d.name("i")
                } else {
                    d.names += 1;
                    format!("a:b/i{}", d.names)
                };
                let body = if is_res {
                    "(export \"t\" (type (sub resource)))".to_string()
                } else {
                    let def = loop {
                        let v = wat_valtype(r, 1);
                        if v.starts_with('(') {
                            break v;
                        }
                    };
                    format!("(type {def}) (export \"t\" (type (eq 0)))")
                };
                d.line(&format!("(import \"{src}\" (instance $si{k} {body}))"));
                d.types += 1;
                n_instances += 1;
                let t = d.types;
                d.types += 1;
                d.line(&format!("(alias export $si{k} \"t\" (type $st{k}))"));
                if is_res {
                    d.resources.push(t);
                } else {
                    d.named_vals.push(t);
                }
                let user = if r.chance(1, 2) {
                    d.name("i")
                } else {
                    d.names += 1;
                    format!("a:b/i{}", d.names)
                };
                let uname = if r.chance(1, 2) { "t" } else { "u" };
                d.line(&format!("(import \"{user}\" (instance (export \"{uname}\" (type (eq $st{k})))))"));
                d.types += 1;
                if r.chance(1, 3) {
                    xn += 1;
                    exports.push_str(&format!("  (export \"xi{xn}\" (instance {n_instances}))\n"));
                    feats.push("wat:instance-export");
                }
                n_instances += 1;
            }
            _ => {
                // a component *type* / instance *type* imported as a type
                feats.push("wat:typedef-import");
                let i = d.types;
                d.types += 1;
                if r.chance(1, 2) {
                    let inner = instance_type_body(r, 1, "    ");
                    d.line(&format!("(type (;{i};) (instance\n{inner}  ))"));
                } else {
                    let inner = component_type_body(r, 1, "    ");
                    d.line(&format!("(type (;{i};) (component\n{inner}  ))"));
                }
                let n = d.name("ty");
                let j = d.types;
                d.types += 1;
                d.line(&format!("(import \"{n}\" (type (;{j};) (eq {i})))"));
            }
        }
    }
    (format!("(component\n{}{})\n", d.text, exports), feats)
}
