//! Shared by the decode / WIT-meaning family (C08, C05); included with `#[path]`.
//!
//! * `walk_component`: an *independent* reading of a component's type, made from the reference
//!   validator's own type information (`wasmparser::types::Types`), never through
//!   `wac_types::Package`.  The result is the "validated component type" graph `W`: every type
//!   id the validator created (alias ids included) is interned in first-visit order and dumped
//!   with its structure, its alias edge (`peel_alias`) and, for resources, its base resource.
//! * `dump_types`: the `wac_types::Types` arenas read through the public API (`A`).
//! * oracles built on `wasmparser::Validator`.
//!
//! Text form: S-expressions; atoms are escaped with `atom()` (no blanks, no parentheses).
#![allow(dead_code)]

use std::collections::HashMap;
use std::fmt::Write as _;
use wac_types::{Package, Types};
use wasmparser::component_types as wt;
use wasmparser::{types::Types as WTypes, Validator, WasmFeatures};

// ---------------------------------------------------------------------------------------------
// atoms

/// `$`-prefixed string atom of the shared text form (see lean/WacModel/Tree.lean)
pub fn atom(s: &str) -> String {
    let mut out = String::with_capacity(s.len() + 1);
    out.push('$');
    for c in s.chars() {
        let ok = c.is_ascii_alphanumeric() || "-_.:/@[]#+=<>!*~^&|?;".contains(c);
        if ok {
            out.push(c);
        } else {
            write!(out, "%{:x};", c as u32).unwrap();
        }
    }
    out
}

fn opt(s: Option<String>) -> String {
    s.unwrap_or_else(|| "_".to_string())
}

// ---------------------------------------------------------------------------------------------
// core externs of the validator's module types, in the shared text form (`extern` grammar of
// lean/WacModel/Tree.lean) -- written from wasmparser's types, independently of wac's CoreExtern

fn w_heap(h: wasmparser::HeapType) -> String {
    match h {
        wasmparser::HeapType::Abstract { shared, ty } => {
            let n = match ty {
                wasmparser::AbstractHeapType::Any => "any",
                wasmparser::AbstractHeapType::Func => "func",
                wasmparser::AbstractHeapType::Extern => "extern",
                wasmparser::AbstractHeapType::Eq => "eq",
                wasmparser::AbstractHeapType::I31 => "i31",
                wasmparser::AbstractHeapType::None => "none",
                wasmparser::AbstractHeapType::NoExtern => "noextern",
                wasmparser::AbstractHeapType::NoFunc => "nofunc",
                wasmparser::AbstractHeapType::Struct => "struct",
                wasmparser::AbstractHeapType::Array => "array",
                wasmparser::AbstractHeapType::Exn => "exn",
                wasmparser::AbstractHeapType::NoExn => "noexn",
                wasmparser::AbstractHeapType::Cont => "cont",
                wasmparser::AbstractHeapType::NoCont => "nocont",
            };
            if shared {
                format!("shared-{n}")
            } else {
                n.to_string()
            }
        }
        wasmparser::HeapType::Concrete(i) => format!("(concrete,{})", i.as_module_index().unwrap_or(u32::MAX)),
        wasmparser::HeapType::Exact(i) => format!("(exact,{})", i.as_module_index().unwrap_or(u32::MAX)),
    }
}

fn w_ref(r: wasmparser::RefType) -> String {
    format!("(ref,{},{})", r.is_nullable() as u8, w_heap(r.heap_type()))
}

fn w_valtype(v: wasmparser::ValType) -> String {
    match v {
        wasmparser::ValType::I32 => "i32".into(),
        wasmparser::ValType::I64 => "i64".into(),
        wasmparser::ValType::F32 => "f32".into(),
        wasmparser::ValType::F64 => "f64".into(),
        wasmparser::ValType::V128 => "v128".into(),
        wasmparser::ValType::Ref(r) => w_ref(r),
    }
}

fn w_core_func(t: &WTypes, id: wasmparser::types::CoreTypeId) -> String {
    let f = t[id].unwrap_func();
    format!(
        "(({}),({}))",
        f.params().iter().map(|v| w_valtype(*v)).collect::<Vec<_>>().join(","),
        f.results().iter().map(|v| w_valtype(*v)).collect::<Vec<_>>().join(",")
    )
}

fn w_extern(t: &WTypes, e: wasmparser::types::EntityType) -> String {
    use wasmparser::types::EntityType as E;
    match e {
        E::Func(id) => format!("(func,{})", w_core_func(t, id)),
        E::FuncExact(id) => format!("(funcexact,{})", w_core_func(t, id)),
        E::Table(ty) => format!(
            "(table,{},{},{},{},{})",
            w_ref(ty.element_type),
            ty.initial,
            opt(ty.maximum.map(|m| m.to_string())),
            ty.table64 as u8,
            ty.shared as u8
        ),
        E::Memory(ty) => format!(
            "(memory,{},{},{},{},{})",
            ty.memory64 as u8,
            ty.shared as u8,
            ty.initial,
            opt(ty.maximum.map(|m| m.to_string())),
            opt(ty.page_size_log2.map(|m| m.to_string()))
        ),
        E::Global(ty) => format!("(global,{},{},{})", w_valtype(ty.content_type), ty.mutable as u8, ty.shared as u8),
        E::Tag(id) => format!("(tag,{})", w_core_func(t, id)),
    }
}

// ---------------------------------------------------------------------------------------------
// W: the validator's view.  Grammar (documented again in lean/WacModel/Decode.lean); every table
// is in interned (first-visit) order, an entry's number is its position:
//
//   w     ::= (W root (D wdef*) (F wfunc*) (I winst*) (C wcomp*) (M module*) (R wres*))
//   wval  ::= prim | (d n)                         owval ::= _ | wval
//   wdef  ::= (opeel body)                         opeel ::= _ | n
//   body  ::= (prim p) | (record ($name wval)*) | (variant ($name owval)*) | (list wval)
//           | (tuple wval*) | (flags $name*) | (enum $name*) | (option wval) | (result owval owval)
//           | (own r) | (borrow r) | (stream owval) | (future owval) | (flist wval n) | (map wval wval)
//   wfunc ::= (async (($name wval)*) owval)
//   went  ::= (module n) | (func n) | (value wval) | (type wany wany) | (instance n) | (component n)
//   wany  ::= (r n) | (d n) | (f n) | (i n) | (c n)          -- (type referenced created)
//   winst ::= ((($name went)*))
//   wcomp ::= ((($name went)*) (($name went)*))              -- imports, exports
//   wres  ::= (base opeel)

pub fn prim_name(p: wasmparser::PrimitiveValType) -> &'static str {
    use wasmparser::PrimitiveValType as P;
    match p {
        P::Bool => "bool",
        P::S8 => "s8",
        P::U8 => "u8",
        P::S16 => "s16",
        P::U16 => "u16",
        P::S32 => "s32",
        P::U32 => "u32",
        P::S64 => "s64",
        P::U64 => "u64",
        P::F32 => "f32",
        P::F64 => "f64",
        P::Char => "char",
        P::String => "string",
        P::ErrorContext => "error-context",
    }
}

pub struct Walk<'a> {
    t: &'a WTypes,
    dmap: HashMap<wt::ComponentDefinedTypeId, usize>,
    ddefs: Vec<String>,
    fmap: HashMap<wt::ComponentFuncTypeId, usize>,
    fdefs: Vec<String>,
    imap: HashMap<wt::ComponentInstanceTypeId, usize>,
    idefs: Vec<String>,
    cmap: HashMap<wt::ComponentTypeId, usize>,
    cdefs: Vec<String>,
    mmap: HashMap<wt::ComponentCoreModuleTypeId, usize>,
    mdefs: Vec<String>,
    rmap: HashMap<wt::AliasableResourceId, usize>,
    rdefs: Vec<String>,
    bmap: HashMap<wt::ResourceId, usize>,
    pub counts: HashMap<&'static str, u64>,
}

impl<'a> Walk<'a> {
    pub fn new(t: &'a WTypes) -> Self {
        Walk {
            t,
            dmap: Default::default(),
            ddefs: vec![],
            fmap: Default::default(),
            fdefs: vec![],
            imap: Default::default(),
            idefs: vec![],
            cmap: Default::default(),
            cdefs: vec![],
            mmap: Default::default(),
            mdefs: vec![],
            rmap: Default::default(),
            rdefs: vec![],
            bmap: Default::default(),
            counts: Default::default(),
        }
    }

    fn hit(&mut self, k: &'static str) {
        *self.counts.entry(k).or_insert(0) += 1;
    }

    fn res(&mut self, id: wt::AliasableResourceId) -> usize {
        if let Some(n) = self.rmap.get(&id) {
            return *n;
        }
        let n = self.rdefs.len();
        self.rmap.insert(id, n);
        self.rdefs.push(String::new());
        let nb = self.bmap.len();
        let base = *self.bmap.entry(id.resource()).or_insert(nb);
        let peel = self.t.peel_alias(id).map(|p| self.res(p).to_string());
        if peel.is_some() {
            self.hit("w:resource-alias-edge");
        }
        self.rdefs[n] = format!("({},{})", base, opt(peel));
        n
    }

    fn val(&mut self, v: wt::ComponentValType) -> String {
        match v {
            wt::ComponentValType::Primitive(p) => prim_name(p).to_string(),
            wt::ComponentValType::Type(id) => format!("(d,{})", self.defined(id)),
        }
    }

    fn oval(&mut self, v: Option<wt::ComponentValType>) -> String {
        match v {
            None => "_".into(),
            Some(v) => self.val(v),
        }
    }

    fn defined(&mut self, id: wt::ComponentDefinedTypeId) -> usize {
        if let Some(n) = self.dmap.get(&id) {
            return *n;
        }
        let n = self.ddefs.len();
        self.dmap.insert(id, n);
        self.ddefs.push(String::new());
        let peel = self.t.peel_alias(id).map(|p| self.defined(p).to_string());
        if peel.is_some() {
            self.hit("w:defined-alias-edge");
        }
        let t = self.t;
        use wt::ComponentDefinedType as D;
        let body = match &t[id] {
            D::Primitive(p) => {
                self.hit("w:def-prim");
                format!("(prim,{})", prim_name(*p))
            }
            D::Record(r) => {
                self.hit("w:def-record");
                let fs: Vec<String> = r.fields.iter().map(|(n, v)| format!(",({},{})", atom(n.as_str()), self.val(*v))).collect();
                format!("(record{})", fs.concat())
            }
            D::Variant(r) => {
                self.hit("w:def-variant");
                let cs: Vec<String> = r.cases.iter().map(|(n, c)| format!(",({},{})", atom(n.as_str()), self.oval(c.ty))).collect();
                format!("(variant{})", cs.concat())
            }
            D::List(v) => {
                self.hit("w:def-list");
                format!("(list,{})", self.val(*v))
            }
            D::Tuple(tt) => {
                self.hit("w:def-tuple");
                let vs: Vec<String> = tt.types.iter().map(|v| format!(",{}", self.val(*v))).collect();
                format!("(tuple{})", vs.concat())
            }
            D::Flags(fs) => {
                self.hit("w:def-flags");
                format!("(flags{})", fs.iter().map(|f| format!(",{}", atom(f.as_str()))).collect::<Vec<_>>().concat())
            }
            D::Enum(fs) => {
                self.hit("w:def-enum");
                format!("(enum{})", fs.iter().map(|f| format!(",{}", atom(f.as_str()))).collect::<Vec<_>>().concat())
            }
            D::Option(v) => {
                self.hit("w:def-option");
                format!("(option,{})", self.val(*v))
            }
            D::Result { ok, err } => {
                self.hit("w:def-result");
                format!("(result,{},{})", self.oval(*ok), self.oval(*err))
            }
            D::Own(r) => {
                self.hit("w:def-own");
                format!("(own,{})", self.res(*r))
            }
            D::Borrow(r) => {
                self.hit("w:def-borrow");
                format!("(borrow,{})", self.res(*r))
            }
            D::Stream(v) => {
                self.hit("w:def-stream");
                format!("(stream,{})", self.oval(*v))
            }
            D::Future(v) => {
                self.hit("w:def-future");
                format!("(future,{})", self.oval(*v))
            }
            D::FixedLengthList(v, n) => {
                self.hit("w:def-fixed");
                format!("(flist,{},{})", self.val(*v), n)
            }
            D::Map(k, v) => {
                self.hit("w:def-map");
                format!("(map,{},{})", self.val(*k), self.val(*v))
            }
        };
        self.ddefs[n] = format!("({},{})", opt(peel), body);
        n
    }

    fn func(&mut self, id: wt::ComponentFuncTypeId) -> usize {
        if let Some(n) = self.fmap.get(&id) {
            return *n;
        }
        let n = self.fdefs.len();
        self.fmap.insert(id, n);
        self.fdefs.push(String::new());
        let t = self.t;
        let f = &t[id];
        let ps: Vec<String> = f.params.iter().map(|(n, v)| format!("({},{})", atom(n.as_str()), self.val(*v))).collect();
        let r = self.oval(f.result);
        if f.async_ {
            self.hit("w:func-async");
        }
        self.fdefs[n] = format!("({},({}),{})", f.async_ as u8, ps.join(","), r);
        n
    }

    fn module(&mut self, id: wt::ComponentCoreModuleTypeId) -> usize {
        if let Some(n) = self.mmap.get(&id) {
            return *n;
        }
        let n = self.mdefs.len();
        self.mmap.insert(id, n);
        let t = self.t;
        let m = &t[id];
        let is: Vec<String> = m.imports.iter().map(|((a, b), e)| format!("({},{},{})", atom(a), atom(b), w_extern(t, *e))).collect();
        let es: Vec<String> = m.exports.iter().map(|(a, e)| format!("({},{})", atom(a), w_extern(t, *e))).collect();
        self.mdefs.push(format!("(module,({}),({}))", is.join(","), es.join(",")));
        n
    }

    fn any(&mut self, id: wt::ComponentAnyTypeId) -> String {
        match id {
            wt::ComponentAnyTypeId::Resource(r) => format!("(r,{})", self.res(r)),
            wt::ComponentAnyTypeId::Defined(d) => format!("(d,{})", self.defined(d)),
            wt::ComponentAnyTypeId::Func(f) => format!("(f,{})", self.func(f)),
            wt::ComponentAnyTypeId::Instance(i) => format!("(i,{})", self.instance(i)),
            wt::ComponentAnyTypeId::Component(c) => format!("(c,{})", self.component(c)),
        }
    }

    pub fn entity(&mut self, e: wt::ComponentEntityType) -> String {
        use wt::ComponentEntityType as E;
        match e {
            E::Module(m) => {
                self.hit("w:ent-module");
                format!("(module,{})", self.module(m))
            }
            E::Func(f) => {
                self.hit("w:ent-func");
                format!("(func,{})", self.func(f))
            }
            E::Value(v) => {
                self.hit("w:ent-value");
                format!("(value,{})", self.val(v))
            }
            E::Type { referenced, created } => {
                self.hit("w:ent-type");
                let r = self.any(referenced);
                let c = self.any(created);
                format!("(type,{},{})", r, c)
            }
            E::Instance(i) => {
                self.hit("w:ent-instance");
                format!("(instance,{})", self.instance(i))
            }
            E::Component(c) => {
                self.hit("w:ent-component");
                format!("(component,{})", self.component(c))
            }
        }
    }

    fn named<'b>(&mut self, m: impl Iterator<Item = (&'b String, &'b wt::ComponentEntityType)>) -> String {
        let v: Vec<String> = m.map(|(n, e)| format!("({},{})", atom(n), self.entity(*e))).collect();
        v.join(",")
    }

    fn instance(&mut self, id: wt::ComponentInstanceTypeId) -> usize {
        if let Some(n) = self.imap.get(&id) {
            return *n;
        }
        let n = self.idefs.len();
        self.imap.insert(id, n);
        self.idefs.push(String::new());
        let t = self.t;
        let body = self.named(t[id].exports.iter());
        self.idefs[n] = format!("(({}))", body);
        n
    }

    pub fn component(&mut self, id: wt::ComponentTypeId) -> usize {
        if let Some(n) = self.cmap.get(&id) {
            return *n;
        }
        let n = self.cdefs.len();
        self.cmap.insert(id, n);
        self.cdefs.push(String::new());
        let t = self.t;
        let is = self.named(t[id].imports.iter());
        let es = self.named(t[id].exports.iter());
        self.cdefs[n] = format!("(({}),({}))", is, es);
        n
    }

    pub fn finish(self, root: usize) -> String {
        let sec = |tag: &str, v: &Vec<String>| {
            let mut s = format!("({tag}");
            for x in v {
                s.push(',');
                s.push_str(x);
            }
            s.push(')');
            s
        };
        format!(
            "(W,{},{},{},{},{},{},{})",
            root,
            sec("D", &self.ddefs),
            sec("F", &self.fdefs),
            sec("I", &self.idefs),
            sec("C", &self.cdefs),
            sec("M", &self.mdefs),
            sec("R", &self.rdefs)
        )
    }
}

/// Validate `bytes` with all features and return the validator's types.
pub fn validate(bytes: &[u8]) -> Result<WTypes, String> {
    let mut v = Validator::new_with_features(WasmFeatures::all());
    v.validate_all(bytes).map_err(|e| e.to_string())
}

/// Wrap components as nested components of one outer component, so that their types live in
/// one validator: `(component (component <a>) (component <b>) …)`.
pub fn nest(parts: &[&[u8]]) -> Vec<u8> {
    let mut c = wasm_encoder::Component::new();
    for p in parts {
        c.section(&wasm_encoder::RawSection { id: wasm_encoder::ComponentSectionId::Component as u8, data: p });
    }
    c.finish()
}

/// The independent walk: the component is nested in an empty outer component and its type is
/// taken from the validator (`component_at(0)`), imports and exports in declaration order.
pub fn walk_component(bytes: &[u8]) -> Result<(String, HashMap<&'static str, u64>), String> {
    let outer = nest(&[bytes]);
    let types = validate(&outer)?;
    let id = types.as_ref().component_at(0);
    let mut w = Walk::new(&types);
    let root = w.component(id);
    let counts = w.counts.clone();
    Ok((w.finish(root), counts))
}

// ---------------------------------------------------------------------------------------------
// A: wac's view, through the public `Types` API (shared serialiser harness/src/tree.rs)

/// Decode with wac into a fresh `Types`; returns `(A, world index, instance-type index, definitions)`.
pub fn wac_decode(name: &str, bytes: &[u8]) -> Result<(String, String, String, String), String> {
    let mut types = Types::new();
    let pkg = Package::from_bytes(name, None, bytes.to_vec(), &mut types).map_err(|e| format!("{e:#}"))?;
    let defs = pkg.definitions().iter().map(|(n, k)| format!("({},{})", atom(n), crate::tree::ser_kind(*k))).collect::<Vec<_>>().join(",");
    Ok((crate::tree::ser_types(&types, 0), pkg.ty().to_string(), pkg.instance_type().to_string(), format!("({defs})")))
}

// ---------------------------------------------------------------------------------------------
// oracles

pub struct OracleResult {
    /// encode with `define_components: false` succeeded
    pub encoded: Option<Vec<u8>>,
    pub encode_error: Option<String>,
    /// the composition (with the dependency imported) validates by itself
    pub composition_valid: Result<(), String>,
    /// oracle A: actual component type <: type of the `unlocked-dep` import (both nested in one validator)
    pub subtype: Option<bool>,
    /// the reverse direction (informative: the written type is *exactly* the component's type)
    pub supertype: Option<bool>,
    /// oracle B: the composition with the import replaced by the real component validates
    pub substituted_valid: Option<Result<(), String>>,
    /// sanity of the oracle itself: is the component a subtype of a byte-identical copy of
    /// itself?  (`false` for shapes on which the reference validator's type equality is not
    /// reflexive across two declarations, e.g. an imported instance *type* that declares
    /// resources; `None` when the validator panicked.)  The oracles do not judge such shapes.
    pub reflexive: Option<bool>,
    /// import names of the written type that the component itself does not have
    pub extra_imports: Vec<String>,
}

fn subtype_guarded(a: &wt::ComponentEntityType, b: &wt::ComponentEntityType, t: wasmparser::types::TypesRef<'_>) -> Option<bool> {
    std::panic::catch_unwind(std::panic::AssertUnwindSafe(|| wt::ComponentEntityType::is_subtype_of(a, t, b, t))).ok()
}

/// Build a graph that registers and instantiates the package and encode it with dependencies
/// imported (`define_components: false`, no validation inside wac).
pub fn encode_importing(name: &str, version: Option<&semver::Version>, bytes: &[u8]) -> Result<Vec<u8>, String> {
    let mut graph = wac_graph::CompositionGraph::new();
    let pkg = Package::from_bytes(name, version, bytes.to_vec(), graph.types_mut()).map_err(|e| format!("decode: {e:#}"))?;
    let id = graph.register_package(pkg).map_err(|e| format!("register: {e:#}"))?;
    let inst = graph.instantiate(id);
    graph.export(inst, "inst").map_err(|e| format!("export: {e:#}"))?;
    graph
        .encode(wac_graph::EncodeOptions { define_components: false, validate: false, processor: None })
        .map_err(|e| format!("encode: {e:#}"))
}

/// Replace the component import `import_name` of `composition` by the nested component `real`
/// (same component index, since indices are allocated in order of appearance).
pub fn substitute_import(composition: &[u8], import_name: &str, real: &[u8]) -> Result<Vec<u8>, String> {
    use wasmparser::{Parser, Payload};
    let mut out = wasm_encoder::Component::new();
    let mut depth = 0usize;
    let mut done = false;
    let mut skip_until: usize = 0;
    for payload in Parser::new(0).parse_all(composition) {
        let payload = payload.map_err(|e| e.to_string())?;
        match &payload {
            Payload::Version { .. } => continue,
            Payload::End(_) => {
                if depth > 0 {
                    depth -= 1;
                }
                continue;
            }
            _ => {}
        }
        if depth > 0 {
            // inside a nested module/component: already copied raw with its parent section
            if let Payload::ModuleSection { .. } | Payload::ComponentSection { .. } = payload {
                depth += 1;
            }
            continue;
        }
        if let Some((id, range)) = payload.as_section() {
            if range.start < skip_until {
                continue;
            }
            match payload {
                Payload::ComponentImportSection(s) => {
                    // split the section around the import that is replaced
                    let mut before = wasm_encoder::ComponentImportSection::new();
                    let mut n_before = 0;
                    let mut after = wasm_encoder::ComponentImportSection::new();
                    let mut n_after = 0;
                    let mut found = false;
                    for imp in s {
                        let imp = imp.map_err(|e| e.to_string())?;
                        if imp.name.0 == import_name && !found {
                            found = true;
                            continue;
                        }
                        let ty = reencode_typeref(imp.ty);
                        if found {
                            after.import(imp.name.0, ty);
                            n_after += 1;
                        } else {
                            before.import(imp.name.0, ty);
                            n_before += 1;
                        }
                    }
                    if n_before > 0 {
                        out.section(&before);
                    }
                    if found {
                        done = true;
                        out.section(&wasm_encoder::RawSection { id: wasm_encoder::ComponentSectionId::Component as u8, data: real });
                    }
                    if n_after > 0 {
                        out.section(&after);
                    }
                }
                Payload::ModuleSection { .. } | Payload::ComponentSection { .. } => {
                    out.section(&wasm_encoder::RawSection { id, data: &composition[range.clone()] });
                    depth += 1;
                    skip_until = range.end;
                }
                _ => {
                    out.section(&wasm_encoder::RawSection { id, data: &composition[range.clone()] });
                }
            }
        }
    }
    if !done {
        return Err(format!("import {import_name} not found"));
    }
    Ok(out.finish())
}

fn reencode_typeref(t: wasmparser::ComponentTypeRef) -> wasm_encoder::ComponentTypeRef {
    use wasm_encoder::ComponentTypeRef as E;
    use wasmparser::ComponentTypeRef as P;
    match t {
        P::Module(i) => E::Module(i),
        P::Func(i) => E::Func(i),
        P::Value(v) => E::Value(match v {
            wasmparser::ComponentValType::Primitive(p) => wasm_encoder::ComponentValType::Primitive(reencode_prim(p)),
            wasmparser::ComponentValType::Type(i) => wasm_encoder::ComponentValType::Type(i),
        }),
        P::Type(b) => E::Type(match b {
            wasmparser::TypeBounds::Eq(i) => wasm_encoder::TypeBounds::Eq(i),
            wasmparser::TypeBounds::SubResource => wasm_encoder::TypeBounds::SubResource,
        }),
        P::Instance(i) => E::Instance(i),
        P::Component(i) => E::Component(i),
    }
}

fn reencode_prim(p: wasmparser::PrimitiveValType) -> wasm_encoder::PrimitiveValType {
    use wasm_encoder::PrimitiveValType as E;
    use wasmparser::PrimitiveValType as P;
    match p {
        P::Bool => E::Bool,
        P::S8 => E::S8,
        P::U8 => E::U8,
        P::S16 => E::S16,
        P::U16 => E::U16,
        P::S32 => E::S32,
        P::U32 => E::U32,
        P::S64 => E::S64,
        P::U64 => E::U64,
        P::F32 => E::F32,
        P::F64 => E::F64,
        P::Char => E::Char,
        P::String => E::String,
        P::ErrorContext => E::ErrorContext,
    }
}

pub fn unlocked_dep_name(name: &str, version: Option<&semver::Version>) -> String {
    match version {
        Some(v) => format!("unlocked-dep=<{name}@{{>={v}}}>"),
        None => format!("unlocked-dep=<{name}>"),
    }
}

/// The component type written for the package when it is imported (`define_components: false`),
/// by itself: `(component (type (component …)) (import "unlocked-dep=<…>" (component (type 0))))`.
/// Uses the verification hook `wac_graph::verif::encode_component_type_import`, which runs
/// exactly the code of `CompositionGraphEncoder::instantiation` for that case.
pub fn encode_type_import(name: &str, version: Option<&semver::Version>, bytes: &[u8]) -> Result<Vec<u8>, String> {
    let mut types = Types::new();
    let pkg = Package::from_bytes(name, version, bytes.to_vec(), &mut types).map_err(|e| format!("decode: {e:#}"))?;
    Ok(wac_graph::verif::encode_component_type_import(&types, pkg.ty(), &unlocked_dep_name(name, version)))
}

/// `(component (component <real>) (component <importer>) (instance (instantiate 1 (with <name> (component 0)))))`
pub fn instantiate_with(importer: &[u8], import_name: &str, real: &[u8]) -> Vec<u8> {
    let mut c = wasm_encoder::Component::new();
    c.section(&wasm_encoder::RawSection { id: wasm_encoder::ComponentSectionId::Component as u8, data: real });
    c.section(&wasm_encoder::RawSection { id: wasm_encoder::ComponentSectionId::Component as u8, data: importer });
    let mut i = wasm_encoder::ComponentInstanceSection::new();
    i.instantiate(1, [(import_name, wasm_encoder::ComponentExportKind::Component, 0u32)]);
    c.section(&i);
    c.finish()
}

/// Oracles A and B on the written component type alone.
pub fn oracles(name: &str, version: Option<&semver::Version>, bytes: &[u8]) -> OracleResult {
    let mut r = OracleResult {
        encoded: None,
        encode_error: None,
        composition_valid: Ok(()),
        subtype: None,
        supertype: None,
        substituted_valid: None,
        reflexive: None,
        extra_imports: vec![],
    };
    if let Ok(types) = validate(&nest(&[bytes, bytes])) {
        let tr = types.as_ref();
        let a = wt::ComponentEntityType::Component(tr.component_at(0));
        let b = wt::ComponentEntityType::Component(tr.component_at(1));
        r.reflexive = subtype_guarded(&a, &b, tr);
    }
    if r.reflexive != Some(true) {
        // the reference validator cannot judge this shape (see `reflexive`)
        return r;
    }
    let enc = match encode_type_import(name, version, bytes) {
        Ok(b) => b,
        Err(e) => {
            r.encode_error = Some(e);
            return r;
        }
    };
    r.composition_valid = validate(&enc).map(|_| ());
    let import_name = unlocked_dep_name(name, version);
    // A: nest the real component and the importer in one validator
    let outer = nest(&[bytes, &enc]);
    if let Ok(types) = validate(&outer) {
        let tr = types.as_ref();
        let real = wt::ComponentEntityType::Component(tr.component_at(0));
        let comp = &types[tr.component_at(1)];
        if let Some(want) = comp.imports.get(&import_name) {
            r.subtype = subtype_guarded(&real, want, tr);
            r.supertype = subtype_guarded(want, &real, tr);
            if let wt::ComponentEntityType::Component(wid) = want {
                let have = &types[tr.component_at(0)].imports;
                r.extra_imports = types[*wid].imports.keys().filter(|k| !have.contains_key(*k)).cloned().collect();
            }
        }
    }
    // B: pass the real component where the import is expected
    r.substituted_valid = Some(validate(&instantiate_with(&enc, &import_name, bytes)).map(|_| ()));
    r.encoded = Some(enc);
    r
}

/// The whole composition (register + instantiate + export, dependencies imported): encoded by
/// `CompositionGraph::encode`, validated, and validated again with the real component
/// substituted for the import.  Failures here that the type-only oracles do not show lie outside
/// the written component type (implicit imports, argument passing) and belong to C01/C03.
pub fn composition_oracle(name: &str, version: Option<&semver::Version>, bytes: &[u8]) -> Result<(), String> {
    let enc = encode_importing(name, version, bytes)?;
    validate(&enc).map_err(|e| format!("invalid: {e}"))?;
    let sub = substitute_import(&enc, &unlocked_dep_name(name, version), bytes)?;
    validate(&sub).map(|_| ()).map_err(|e| format!("substituted invalid: {e}"))
}
