//! Grammar-directed generator of WAC documents (token sequences), randomised layout, and
//! single-token mutants.  Shared by the C12, C13 and C14 harness binaries (`#[path]` include).
//! Written from LANGUAGE.md ("WAC Grammar"), not from the parser.
#![allow(dead_code)]
use wacv::Rng;

pub const KEYWORDS: &[&str] = &[
    "import", "with", "type", "tuple", "list", "option", "result", "borrow", "resource", "variant", "record", "flags",
    "enum", "func", "static", "constructor", "u8", "s8", "u16", "s16", "u32", "s32", "u64", "s64", "f32", "f64", "char",
    "bool", "string", "interface", "world", "export", "new", "let", "use", "include", "as", "package", "targets",
];
pub const SYMBOLS: &[&str] = &[";", "{", "}", ":", "=", "(", ")", "->", "<", ">", "_", "[", "]", ".", "...", ",", "/", "@"];

const IDENTS: &[&str] = &[
    "a", "b", "c", "x", "y", "foo", "bar", "baz", "my-inst", "foo-bar", "x1", "FOO", "foo123-BAR", "f-b", "item", "i",
    "w", "run", "get-x", "t0", "A-b-C9", "%type", "%interface", "%use", "%as", "%new", "%foo", "%x-y", "%string", "%result",
    "%record", "%import", "%export", "%let", "%with", "%include", "%static", "%constructor", "%u8", "%borrow", "%targets",
    "%package", "%world", "%func", "%enum", "%flags", "%variant", "%resource", "%tuple", "%list", "%option", "%char", "%bool",
    "types", "imports", "letter", "user", "asx", "u8x", "new-thing", "a1-b2-c3", "X", "X9-Y", "%A-b",
];
const STRINGS: &[&str] = &[
    "\"foo\"", "\"\"", "\"a:b/c\"", "\"foo bar\"", "\"\u{e9}\u{4e16}\"", "\"x\ny\"", "\"//\"", "\"/* */\"", "\"a:b/c@1.0.0\"",
    "\"%\"", "\"\\\"", "\"b-name\"", "\"wasi:http/types@0.2.0\"", "\"\u{a0}\u{200b}\"", "\"/// not a doc\"", "\"'\"",
];
const PKG_NAMES: &[&str] = &[
    "a:b", "foo:bar", "test:comp", "foo:bar:baz", "a:b@1.0.0", "foo:bar@0.1.0-rc.1+build.5", "%a:b", "a:%b-c", "x:y@10.20.30",
    "n:m@1.2.3----RC-SNAPSHOT.12.9.1--.12+788", "a:b@0.0.0", "UP:low", "a:b@18446744073709551615.0.0", "foo:bar@1.2.3",
    "foo:bar:baz@1.2.3-rc.1+build.5", "a-b:c-d", "%type:%use", "a:b:c:d:e", "a:b@1.0.0+0.build.1-rc.10000aaa-kk-0.1",
];
const BAD_PKG_NAMES: &[&str] = &[
    "a:b@1", "a:b@1.0", "a:b@01.0.0", "a:b@1.2.3-01", "a:b@1.0.0.0", "a:b@1.2.3-", "a:b@1.2.3+", "a:b@1.2.3-a..b",
    "a:b@18446744073709551616.0.0", "a:b@1.2.3+a+b", "a:b@1.2.-3",
];
const PKG_PATHS: &[&str] = &[
    "a:b/c", "foo:bar/baz", "foo:bar/baz/qux", "a:b/c@1.0.0", "foo:bar:baz/q@2.0.0-beta", "a:b/%c", "wasi:http/types@0.2.0",
    "a:b/c/d/e@0.1.0+meta", "x:y/z@1.1.2-prerelease+meta", "foo:bar:baz/qux/jam@1.2.3-rc.1+build.5", "%a:%b/%c", "A:B/C",
    "a-b:c-d/e-f/g-h", "wasi:cli/command@0.2.0", "a:b/c@0.0.0-0", "a:b/c@1.0.0-alpha.beta.1", "foo:bar/baz@1.0.0-0A.is.legal",
];
const BAD_PKG_PATHS: &[&str] = &["a:b/c@1", "a:b/c@1.0", "a:b/c@1.00.0", "a:b/c@1.0.0-00", "a:b/c@0.0.00"];

#[derive(Clone, Debug, PartialEq)]
pub struct Doc {
    pub toks: Vec<String>,
    /// number of statements
    pub statements: usize,
}

pub struct Gen<'r> {
    pub r: &'r mut Rng,
    pub toks: Vec<String>,
    /// probability (per 1000) of choosing an invalid-version name where a versioned name is legal
    pub bad_version_permille: usize,
    pub counts: std::collections::BTreeMap<String, u64>,
}

impl<'r> Gen<'r> {
    pub fn new(r: &'r mut Rng) -> Self {
        Gen { r, toks: Vec::new(), bad_version_permille: 15, counts: Default::default() }
    }
    fn hit(&mut self, k: &str) {
        *self.counts.entry(k.to_string()).or_insert(0) += 1;
    }
    fn t(&mut self, s: &str) {
        self.toks.push(s.to_string());
    }
    fn id(&mut self) {
        let s = *self.r.pick(IDENTS);
        self.t(s);
    }
    fn string(&mut self) {
        let s = *self.r.pick(STRINGS);
        self.t(s);
    }
    fn pkg_name(&mut self) {
        let s = if self.r.below(1000) < self.bad_version_permille { *self.r.pick(BAD_PKG_NAMES) } else { *self.r.pick(PKG_NAMES) };
        self.t(s);
    }
    fn pkg_path(&mut self) {
        let s = if self.r.below(1000) < self.bad_version_permille { *self.r.pick(BAD_PKG_PATHS) } else { *self.r.pick(PKG_PATHS) };
        self.t(s);
    }
    /// `p (',' p)* ','?` with n >= min elements
    fn list(&mut self, min: usize, max: usize, f: &mut dyn FnMut(&mut Self)) {
        let n = min + self.r.below(max - min + 1);
        for i in 0..n {
            if i > 0 {
                self.t(",");
            }
            f(self);
        }
        if n > 0 && self.r.chance(1, 4) {
            self.t(",");
            self.hit("trailing-comma");
        }
    }
    pub fn ty(&mut self, depth: usize) {
        let k = if depth == 0 || self.r.chance(2, 5) { self.r.below(14) } else { 14 + self.r.below(5) };
        match k {
            0..=12 => {
                let p = ["u8", "s8", "u16", "s16", "u32", "s32", "u64", "s64", "f32", "f64", "char", "bool", "string"][k];
                self.t(p)
            }
            13 | 19 | 20 => self.id(),
            14 => {
                self.hit("ty:tuple");
                self.t("tuple");
                self.t("<");
                self.list(1, 3, &mut |g| g.ty(depth - 1));
                self.t(">");
            }
            15 => {
                self.hit("ty:list");
                self.t("list");
                self.t("<");
                self.ty(depth - 1);
                self.t(">");
            }
            16 => {
                self.hit("ty:option");
                self.t("option");
                self.t("<");
                self.ty(depth - 1);
                self.t(">");
            }
            17 => {
                self.hit("ty:result");
                self.t("result");
                match self.r.below(6) {
                    0 => {}
                    4 => {
                        self.t("<");
                        self.t("_");
                        if self.r.chance(1, 2) {
                            self.t(",");
                            self.t("_");
                        }
                        self.t(">");
                    }
                    5 => {
                        self.t("<");
                        self.ty(depth - 1);
                        self.t(",");
                        self.t("_");
                        self.t(">");
                    }
                    1 => {
                        self.t("<");
                        self.ty(depth - 1);
                        self.t(">");
                    }
                    2 => {
                        self.t("<");
                        self.t("_");
                        self.t(",");
                        self.ty(depth - 1);
                        self.t(">");
                    }
                    _ => {
                        self.t("<");
                        self.ty(depth - 1);
                        self.t(",");
                        self.ty(depth - 1);
                        self.t(">");
                    }
                }
            }
            18 => {
                self.hit("ty:borrow");
                self.t("borrow");
                self.t("<");
                self.id();
                self.t(">");
            }
            _ => self.t("string"),
        }
    }
    fn named_type(&mut self) {
        self.id();
        self.t(":");
        self.ty(2);
    }
    fn params(&mut self) {
        self.t("(");
        self.list(0, 3, &mut |g| g.named_type());
        self.t(")");
    }
    fn func_type(&mut self) {
        self.t("func");
        self.params();
        if self.r.chance(1, 2) {
            self.t("->");
            self.ty(2);
        }
    }
    fn type_decl(&mut self, allow_resource: bool) {
        let k = if allow_resource && self.r.chance(1, 3) { 5 } else { self.r.below(5) };
        match k {
            0 => {
                self.hit("decl:variant");
                self.t("variant");
                self.id();
                self.t("{");
                self.list(1, 3, &mut |g| {
                    g.id();
                    if g.r.chance(1, 2) {
                        g.t("(");
                        g.ty(2);
                        g.t(")");
                    }
                });
                self.t("}");
            }
            1 => {
                self.hit("decl:record");
                self.t("record");
                self.id();
                self.t("{");
                self.list(1, 3, &mut |g| g.named_type());
                self.t("}");
            }
            2 => {
                self.hit("decl:flags");
                self.t("flags");
                self.id();
                self.t("{");
                self.list(1, 3, &mut |g| g.id());
                self.t("}");
            }
            3 => {
                self.hit("decl:enum");
                self.t("enum");
                self.id();
                self.t("{");
                self.list(1, 3, &mut |g| g.id());
                self.t("}");
            }
            4 => {
                self.hit("decl:alias");
                self.t("type");
                self.id();
                self.t("=");
                if self.r.chance(1, 3) {
                    self.func_type();
                } else {
                    self.ty(3);
                }
                self.t(";");
            }
            _ => {
                self.hit("decl:resource");
                self.t("resource");
                self.id();
                if self.r.chance(1, 3) {
                    self.t(";");
                } else {
                    self.t("{");
                    let n = self.r.below(5);
                    for _ in 0..n {
                        if self.r.chance(1, 3) {
                            self.t("constructor");
                            self.params();
                            self.t(";");
                        } else {
                            self.id();
                            self.t(":");
                            if self.r.chance(1, 3) {
                                self.t("static");
                                self.hit("method:static");
                            }
                            self.func_type();
                            self.t(";");
                        }
                    }
                    self.t("}");
                }
            }
        }
    }
    fn use_item(&mut self) {
        self.hit("item:use");
        self.t("use");
        if self.r.chance(1, 2) {
            self.pkg_path();
        } else {
            self.id();
        }
        self.t(".");
        self.t("{");
        self.list(0, 3, &mut |g| {
            g.id();
            if g.r.chance(1, 3) {
                g.t("as");
                g.id();
            }
        });
        self.t("}");
        self.t(";");
    }
    fn interface_items(&mut self, max: usize) {
        let n = self.r.below(max + 1);
        for _ in 0..n {
            match self.r.below(5) {
                0 => self.use_item(),
                1 | 2 => self.type_decl(true),
                _ => {
                    self.hit("item:export-func");
                    self.id();
                    self.t(":");
                    if self.r.chance(1, 4) {
                        self.id();
                    } else {
                        self.func_type();
                    }
                    self.t(";");
                }
            }
        }
    }
    fn world_item_path(&mut self) {
        match self.r.below(5) {
            0 => self.pkg_path(),
            1 => self.id(),
            2 => {
                self.id();
                self.t(":");
                self.func_type();
            }
            3 => {
                self.id();
                self.t(":");
                self.id();
            }
            _ => {
                self.hit("inline-interface");
                self.id();
                self.t(":");
                self.t("interface");
                self.t("{");
                self.interface_items(2);
                self.t("}");
            }
        }
    }
    fn world_items(&mut self) {
        let n = self.r.below(4);
        for _ in 0..n {
            match self.r.below(6) {
                0 => self.use_item(),
                1 => self.type_decl(true),
                2 => {
                    self.hit("world:import");
                    self.t("import");
                    self.world_item_path();
                    self.t(";");
                }
                3 | 4 => {
                    self.hit("world:export");
                    self.t("export");
                    self.world_item_path();
                    self.t(";");
                }
                _ => {
                    self.hit("world:include");
                    self.t("include");
                    if self.r.chance(1, 2) {
                        self.pkg_path();
                    } else {
                        self.id();
                    }
                    if self.r.chance(1, 2) {
                        self.t("with");
                        self.t("{");
                        self.list(0, 2, &mut |g| {
                            g.id();
                            g.t("as");
                            g.id();
                        });
                        self.t("}");
                    }
                    self.t(";");
                }
            }
        }
    }
    pub fn expr(&mut self, depth: usize) {
        let k = if depth == 0 { 0 } else { self.r.below(5) };
        match k {
            0 | 1 => self.id(),
            2 => {
                self.hit("expr:nested");
                self.t("(");
                self.expr(depth - 1);
                self.t(")");
            }
            _ => {
                self.hit("expr:new");
                self.t("new");
                self.pkg_name();
                self.t("{");
                let n = self.r.below(4);
                for i in 0..n {
                    if i > 0 {
                        self.t(",");
                    }
                    match self.r.below(7) {
                        0 | 1 => {
                            self.hit("arg:inferred");
                            self.id()
                        }
                        2 => {
                            self.hit("arg:spread");
                            self.t("...");
                            self.id();
                        }
                        3 => {
                            self.hit("arg:fill");
                            self.t("...");
                        }
                        4 => {
                            self.hit("arg:named-string");
                            self.string();
                            self.t(":");
                            self.expr(depth - 1);
                        }
                        _ => {
                            self.hit("arg:named-id");
                            self.id();
                            self.t(":");
                            self.expr(depth - 1);
                        }
                    }
                }
                if n > 0 && self.r.chance(1, 4) {
                    self.t(",");
                }
                self.t("}");
            }
        }
        let p = self.r.below(6);
        for _ in 0..p.saturating_sub(3) {
            if self.r.chance(1, 2) {
                self.hit("postfix:access");
                self.t(".");
                self.id();
            } else {
                self.hit("postfix:named");
                self.t("[");
                self.string();
                self.t("]");
            }
        }
    }
    fn statement(&mut self) {
        match self.r.below(9) {
            0 | 1 => {
                self.hit("stmt:import");
                self.t("import");
                self.id();
                if self.r.chance(1, 3) {
                    self.t("as");
                    if self.r.chance(1, 2) {
                        self.id();
                    } else {
                        self.string();
                    }
                }
                self.t(":");
                match self.r.below(4) {
                    0 => self.pkg_path(),
                    1 => self.func_type(),
                    2 => {
                        self.t("interface");
                        self.t("{");
                        self.interface_items(2);
                        self.t("}");
                    }
                    _ => self.id(),
                }
                self.t(";");
            }
            2 => {
                self.hit("stmt:interface");
                self.t("interface");
                self.id();
                self.t("{");
                self.interface_items(4);
                self.t("}");
            }
            3 => {
                self.hit("stmt:world");
                self.t("world");
                self.id();
                self.t("{");
                self.world_items();
                self.t("}");
            }
            4 => self.type_decl(false),
            5 | 6 => {
                self.hit("stmt:let");
                self.t("let");
                self.id();
                self.t("=");
                self.expr(3);
                self.t(";");
            }
            _ => {
                self.hit("stmt:export");
                self.t("export");
                self.expr(2);
                match self.r.below(4) {
                    0 => {
                        self.hit("export:spread");
                        self.t("...")
                    }
                    1 => {
                        self.t("as");
                        if self.r.chance(1, 2) {
                            self.id();
                        } else {
                            self.string();
                        }
                    }
                    _ => {}
                }
                self.t(";");
            }
        }
    }
    pub fn document(&mut self, max_statements: usize) -> Doc {
        self.toks.clear();
        self.t("package");
        self.pkg_name();
        if self.r.chance(1, 4) {
            self.hit("package:targets");
            self.t("targets");
            self.pkg_path();
        }
        self.t(";");
        let n = self.r.below(max_statements + 1);
        for _ in 0..n {
            self.statement();
        }
        Doc { toks: std::mem::take(&mut self.toks), statements: n }
    }
}

fn is_alnum(c: char) -> bool {
    c.is_ascii_alphanumeric()
}

/// may `left` and `right` be written without anything between them and still be two tokens?
/// (conservative; `next_start` is the first character of the token after `right`)
pub fn safe_glue(left: &str, right: &str) -> bool {
    let l = left.chars().last().unwrap_or(' ');
    let r = right.chars().next().unwrap_or(' ');
    if is_alnum(l) && (is_alnum(r) || r == '%' || r == '-' || r == '_') {
        return false;
    }
    if l == ':' && (r.is_ascii_alphabetic() || r == '%') {
        return false;
    }
    if is_alnum(l) && r == ':' && left.contains(':') {
        return false; // package name followed by a colon
    }
    if (l == '.' && r == '.') || (l == '-' && r == '>') || (l == '/' && (r == '/' || r == '*')) {
        return false;
    }
    if (l == '@' || l == '/') && (is_alnum(r) || r == '%') {
        return false;
    }
    if is_alnum(l) && (r == '@' || r == '/' || r == '+') {
        return false;
    }
    if l == '_' || r == '_' {
        return is_alnum(l) == false && is_alnum(r) == false;
    }
    true
}

const DOC_TEXTS: &[&str] = &["doc", "Doc comment #1!", "a  b", "", " ", "x */ y", "\u{e9}t\u{e9}", "/", "*", "// not", "with \"quote\""];

/// white space / comments between two tokens
pub fn separator(r: &mut Rng, left: &str, right: &str) -> String {
    let k = r.below(108);
    let s: String = match k {
        0..=49 => " ".into(),
        50..=64 => "".into(),
        65..=74 => "\n".into(),
        75..=79 => "\n    ".into(),
        80..=81 => "  ".into(),
        82 => "\t".into(),
        83..=84 => "\r\n".into(),
        85..=86 => " /* c */ ".into(),
        87 => "/* a /* nested */ b */".into(),
        88 => " // line comment\n".into(),
        89 => "//\n".into(),
        90..=92 => {
            let t = *r.pick(DOC_TEXTS);
            if t.contains("*/") { format!("\n/// {}\n", t.replace('\n', " ")) } else { format!("\n/// {}\n", t) }
        }
        93..=94 => {
            let t = *r.pick(DOC_TEXTS);
            let t = t.replace("*/", "* /");
            format!("\n/** {} */\n", t)
        }
        95 => " /**/ ".into(),
        96 => "/***/".into(),
        97 => "\n/// first\n/// second\n".into(),
        98 => "\n/** multi\n  line\n\n  doc */ ".into(),
        _ => {
            let v: &[&str] = &[
                " /* /* */ // */ ", "/* /* a */*/", "/*/ */", "/* * / */ ", "/*/**/*/", "/* \u{e9}\u{4e16} */", "/*\n*/", " //\r\n", " // \u{e9}\n",
                "\n/**\n * line one\n * line two\n */\n", "\n    /** indented\n        doc\n     */\n    ", "\n///\n", "\n/// \n", "\n////\n", "\n/// a\r\n/// b\r\n",
                "\n/** a\n\n b */\n", "\n/***/\n", "\n/** */\n", "\n/**x*/", "\n///x\n", "\n/// \u{a0}pad\u{a0} \n", "\n/** /* nested */ doc */\n", "\t\t", "\n\n\n",
                "\n/// tab\there\n", "\n/** \r\n crlf \r\n */\n",
            ];
            v[r.below(v.len())].to_string()
        }
    };
    if s.is_empty() && !safe_glue(left, right) {
        " ".into()
    } else {
        s
    }
}

/// the text of a token sequence with randomised layout
pub fn layout(r: &mut Rng, toks: &[String]) -> String {
    let mut out = String::new();
    if r.chance(1, 6) {
        out.push_str(&separator(r, ";", ";"));
    }
    for (i, t) in toks.iter().enumerate() {
        if i > 0 {
            out.push_str(&separator(r, &toks[i - 1], t));
        }
        out.push_str(t);
    }
    if r.chance(1, 3) {
        out.push_str(&separator(r, ";", ";"));
    }
    out
}

/// plain layout: single spaces
pub fn layout_plain(toks: &[String]) -> String {
    toks.join(" ")
}

/// a replacement token for substitution mutants
pub fn random_token(r: &mut Rng) -> String {
    match r.below(10) {
        0..=3 => (*r.pick(KEYWORDS)).to_string(),
        4..=6 => (*r.pick(SYMBOLS)).to_string(),
        7 => (*r.pick(IDENTS)).to_string(),
        8 => (*r.pick(STRINGS)).to_string(),
        _ => {
            if r.chance(1, 2) {
                (*r.pick(PKG_NAMES)).to_string()
            } else {
                (*r.pick(PKG_PATHS)).to_string()
            }
        }
    }
}

#[derive(Clone, Copy, Debug, PartialEq)]
pub enum Mutation {
    Delete(usize),
    Duplicate(usize),
    Swap(usize),
    Substitute(usize),
}

pub fn apply(r: &mut Rng, toks: &[String], m: Mutation) -> Vec<String> {
    let mut v = toks.to_vec();
    match m {
        Mutation::Delete(i) => {
            v.remove(i);
        }
        Mutation::Duplicate(i) => {
            let t = v[i].clone();
            v.insert(i, t);
        }
        Mutation::Swap(i) => v.swap(i, i + 1),
        Mutation::Substitute(i) => {
            let mut t = random_token(r);
            let mut guard = 0;
            while t == v[i] && guard < 8 {
                t = random_token(r);
                guard += 1;
            }
            v[i] = t;
        }
    }
    v
}

/// all single-token deletions, duplications, adjacent swaps and `subs` substitutions per position
pub fn all_mutations(n: usize, subs: usize) -> Vec<Mutation> {
    let mut v = Vec::new();
    for i in 0..n {
        v.push(Mutation::Delete(i));
        v.push(Mutation::Duplicate(i));
        if i + 1 < n {
            v.push(Mutation::Swap(i));
        }
        for _ in 0..subs {
            v.push(Mutation::Substitute(i));
        }
    }
    v
}

/// every `.wac` file below `dir`
pub fn wac_files(dir: &str) -> Vec<std::path::PathBuf> {
    let mut out = Vec::new();
    let mut stack = vec![std::path::PathBuf::from(dir)];
    while let Some(d) = stack.pop() {
        let Ok(rd) = std::fs::read_dir(&d) else { continue };
        for e in rd.flatten() {
            let p = e.path();
            let name = p.file_name().and_then(|s| s.to_str()).unwrap_or("");
            if p.is_dir() {
                if name != "target" && name != ".git" {
                    stack.push(p);
                }
            } else if name.ends_with(".wac") {
                out.push(p);
            }
        }
    }
    out.sort();
    out
}


/// documents that use every production of the grammar (tokens separated by single blanks, no blank
/// inside a string), so that every single-token mutant of every production is exercised on every run
pub const SHOWCASE: &[&str] = &[
    "package foo:bar:baz@1.2.3-rc.1+build.5 targets wasi:cli/command@0.2.0 ; import a : foo:bar:baz/qux/jam@1.2.3-rc.1+build.5 ; import b as \"b-name\" : func ( x : u8 , y : list < string > , ) -> result < tuple < u8 , s64 > , borrow < r > > ; import c as %type : interface { use t . { a as %record , b , } ; use foo:bar/baz@1.0.0 . { z } ; resource r { constructor ( a : u8 , ) ; m : func ( ) ; s : static func ( x : borrow < r > ) -> option < r > ; } f : func ( ) ; g : h ; type t2 = func ( ) -> u8 ; } ; import d : e ;",
    "package a:b ; interface i { variant v { a , b ( u8 ) , } record r { f : u8 , g : tuple < u8 , > } flags fl { x , y , } enum en { p , q } type al = result ; type a2 = result < _ , string > ; type a3 = result < u8 > ; type a4 = result < u8 , string > ; type a5 = result < _ > ; type a6 = result < u8 , _ > ; resource res ; resource res2 { } } world w { import i ; import n : func ( ) ; import m : interface { } ; export foo:bar/baz ; export o : t ; include x ; include foo:bar/w@1.0.0 with { a as b , c as d , } ; include y with { } ; use i . { r } ; use j . { } ; type t = u8 ; } variant tv { a } record tr { a : u8 } flags tf { a } enum te { a } type tt = char ; type tf2 = func ( a : bool , b : f32 , c : f64 , d : s8 , e : s16 , f : s32 , g : u16 , h : u32 , i : u64 ) ;",
    "package a:b ; let a = new foo:bar@1.2.3 { } ; let b = new foo:bar { ... } ; let c = new foo:bar { x , ... y , \"s\" : z , n : ( new a:b { ... } ) . e [ \"f\" ] , ... , } ; let d = ( ( c ) ) . x . y [ \"z\" ] ; export a ; export b ... ; export c as \"name\" ; export d . e as %export ; export new a:b { ... , x } ;",
];
