//! Resource-bearing item kinds for C07 (the resource clause): `own` / `borrow` handles nested
//! in every value constructor, in function, instance and component types, over two resource
//! names `r`, `s` and an alias `q=r` (a resource named `q` that is an alias of `r`).
//! Built by `tree::Builder`, which creates one resource per name per collection: inside one
//! collection resource names are injective; across two collections a name used on both sides
//! is shared by two distinct resources (not injective).
use crate::tree::*;
use wac_types::PrimitiveType as P;

fn bx(d: D) -> Box<D> {
    Box::new(d)
}
fn own(n: &str) -> D {
    D::Own(n.to_string())
}
fn bor(n: &str) -> D {
    D::Borrow(n.to_string())
}
fn res(n: &str) -> D {
    D::Type(bx(D::Resource(n.to_string())))
}
fn u8_() -> D {
    D::Prim(P::U8)
}

/// the pool of resource-bearing kinds (all ordered pairs are checked)
pub fn pool() -> Vec<D> {
    let vts = vec![
        own("r"),
        own("s"),
        own("q=r"),
        bor("r"),
        bor("s"),
        D::List(bx(own("r"))),
        D::List(bx(own("s"))),
        D::Option(bx(bor("r"))),
        D::Tuple(vec![own("r"), u8_()]),
        D::Tuple(vec![own("s"), u8_()]),
        D::Result(Some(bx(own("r"))), Some(bx(own("s")))),
        D::Result(Some(bx(own("s"))), Some(bx(own("r")))),
        D::Record(named(&[("a", own("r")), ("b", D::List(bx(bor("s"))))])),
        D::Record(named(&[("a", own("s")), ("b", D::List(bx(bor("s"))))])),
        D::Variant(vec![("x".to_string(), Some(own("q=r"))), ("y".to_string(), None)]),
        D::Variant(vec![("x".to_string(), Some(own("r"))), ("y".to_string(), None)]),
        D::Alias(bx(D::Option(bx(own("s"))))),
        D::Option(bx(own("s"))),
    ];
    let mut v: Vec<D> = vts.iter().map(|t| D::Value(bx(t.clone()))).collect();
    v.push(D::Type(bx(vts[12].clone())));
    v.push(res("r"));
    v.push(res("s"));
    v.push(res("q=r"));
    let f_r = func(false, &[("p", own("r"))], Some(D::Option(bx(own("s")))));
    let f_q = func(false, &[("p", own("q=r"))], Some(D::Option(bx(own("s")))));
    let f_s = func(false, &[("p", own("s"))], Some(D::Option(bx(own("s")))));
    let f_b = func(false, &[("p", bor("r"))], None);
    v.extend([f_r.clone(), f_q.clone(), f_s.clone(), f_b.clone()]);
    let i_rf = D::Instance(named(&[("t", res("r")), ("f", f_r.clone())]));
    let i_r = D::Instance(named(&[("t", res("r"))]));
    let i_sf = D::Instance(named(&[("t", res("s")), ("f", f_r.clone())]));
    let i_qf = D::Instance(named(&[("t", res("q=r")), ("f", f_q.clone()), ("g", f_b.clone())]));
    v.extend([i_rf.clone(), i_r.clone(), i_sf.clone(), i_qf.clone()]);
    v.push(D::Component(named(&[("i", i_r.clone())]), named(&[("e", i_rf.clone())])));
    v.push(D::Component(named(&[("i", i_rf.clone())]), named(&[("e", i_r.clone())])));
    v.push(D::Component(named(&[("i", i_sf.clone())]), named(&[("e", f_s.clone())])));
    v
}
