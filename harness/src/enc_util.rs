//! Shared pieces of the encoding checks (C01, C02, C03): component libraries (WAT + WIT),
//! the dump of a real `CompositionGraph` as a graph *value*, and an independent section-level
//! reader of the encoded output that rebuilds the provenance of every index.
//!
//! Included with `#[path]` by `src/bin/c0{1,2,3}.rs`.
#![allow(dead_code)]

use std::collections::{BTreeMap, HashMap};
use wac_graph::types::{
    DefinedType, InterfaceId, ItemKind, Package, PrimitiveType, Record, Type, Types, ValueType,
};
use wac_graph::{CompositionGraph, NodeId, NodeKind, PackageId};
use wacv::{esc, Rng};

// ---------------------------------------------------------------------------------------------
// token streams: one protocol field = space separated tokens, each token escaped on its own

#[derive(Default, Clone)]
pub struct Toks(pub Vec<String>);

impl Toks {
    pub fn s(&mut self, s: &str) -> &mut Self {
        self.0.push(esc(s));
        self
    }
    pub fn n(&mut self, n: usize) -> &mut Self {
        self.0.push(n.to_string());
        self
    }
    pub fn opt(&mut self, s: Option<&str>) -> &mut Self {
        match s {
            None => self.0.push("-".into()),
            Some(s) => self.0.push(format!("+{}", esc(s))),
        }
        self
    }
    pub fn field(&self) -> String {
        esc(&self.0.join(" "))
    }
}

// ---------------------------------------------------------------------------------------------
// shapes of WAT-built packages

#[derive(Clone, Debug, PartialEq, Eq)]
pub enum Shape {
    F0,
    F1,
    Inst(Vec<(String, Shape)>),
}

impl Shape {
    pub fn inst(fields: &[(&str, Shape)]) -> Shape {
        Shape::Inst(fields.iter().map(|(n, s)| (n.to_string(), s.clone())).collect())
    }
    /// the WAT text of the type, as used in an import/export type ascription
    pub fn ty_text(&self) -> String {
        match self {
            Shape::F0 => "(func)".into(),
            Shape::F1 => "(func (param \"x\" u32) (result u32))".into(),
            Shape::Inst(fs) => {
                let mut s = String::from("(instance");
                for (n, sh) in fs {
                    s.push_str(&format!(" (export \"{}\" {})", n, sh.ty_text()));
                }
                s.push(')');
                s
            }
        }
    }
}

pub struct WatPkg {
    pub name: String,
    pub version: Option<String>,
    pub imports: Vec<(String, Shape)>,
    pub exports: Vec<(String, Shape)>,
    /// distinguishes the bytes of packages with the same world (0: the plain text)
    pub salt: u32,
}

impl WatPkg {
    pub fn wat(&self) -> String {
        let mut s = String::from("(component\n");
        for (n, sh) in &self.imports {
            s.push_str(&format!("  (import \"{}\" {})\n", n, sh.ty_text()));
        }
        if self.salt == 0 {
            s.push_str(
                "  (core module $m (func (export \"f0\")) (func (export \"f1\") (param i32) (result i32) local.get 0))\n",
            );
        } else {
            s.push_str(&format!(
                "  (core module $m (func (export \"f0\") i32.const {} drop) (func (export \"f1\") (param i32) (result i32) local.get 0))\n",
                self.salt
            ));
        }
        s.push_str("  (core instance $ci (instantiate $m))\n");
        s.push_str("  (func $lf0 (canon lift (core func $ci \"f0\")))\n");
        s.push_str(
            "  (func $lf1 (param \"x\" u32) (result u32) (canon lift (core func $ci \"f1\")))\n",
        );
        let mut counter = 0usize;
        fn realise(sh: &Shape, out: &mut String, counter: &mut usize) -> String {
            match sh {
                Shape::F0 => "(func $lf0)".into(),
                Shape::F1 => "(func $lf1)".into(),
                Shape::Inst(fs) => {
                    let parts: Vec<(String, String)> =
                        fs.iter().map(|(n, s)| (n.clone(), realise(s, out, counter))).collect();
                    let id = format!("$gi{}", *counter);
                    *counter += 1;
                    out.push_str(&format!("  (instance {}", id));
                    for (n, r) in parts {
                        out.push_str(&format!(" (export \"{}\" {})", n, r));
                    }
                    out.push_str(")\n");
                    format!("(instance {})", id)
                }
            }
        }
        for (n, sh) in &self.exports {
            let r = realise(sh, &mut s, &mut counter);
            s.push_str(&format!("  (export \"{}\" {})\n", n, r));
        }
        s.push_str(")\n");
        s
    }
}

/// A package of a library, ready to be decoded into a graph's `Types`.
#[derive(Clone)]
pub struct LibPkg {
    pub name: String,
    pub version: Option<String>,
    pub bytes: Vec<u8>,
    pub origin: &'static str,
    /// for generated WAT packages: `(imports, exports)` with their shapes
    pub shapes: Option<(Vec<(String, Shape)>, Vec<(String, Shape)>)>,
}

impl Shape {
    /// structural subtyping of the shapes (an instance may offer more)
    pub fn sub(&self, want: &Shape) -> bool {
        match (self, want) {
            (Shape::F0, Shape::F0) | (Shape::F1, Shape::F1) => true,
            (Shape::Inst(have), Shape::Inst(want)) => {
                want.iter().all(|(n, w)| have.iter().any(|(m, h)| m == n && h.sub(w)))
            }
            _ => false,
        }
    }
}

/// import and export names of the world of a library package
pub fn lib_names(p: &LibPkg) -> (Vec<String>, Vec<String>) {
    if let Some((i, e)) = &p.shapes {
        return (i.iter().map(|(n, _)| n.clone()).collect(), e.iter().map(|(n, _)| n.clone()).collect());
    }
    let mut types = Types::default();
    match Package::from_bytes(&p.name, None, p.bytes.clone(), &mut types) {
        Ok(pkg) => {
            let w = &types[pkg.ty()];
            (w.imports.keys().cloned().collect(), w.exports.keys().cloned().collect())
        }
        Err(_) => (Vec::new(), Vec::new()),
    }
}

pub fn wit_component_bytes(wit: &str, world: &str) -> anyhow::Result<Vec<u8>> {
    use wit_component::{ComponentEncoder, StringEncoding};
    let mut resolve = wit_parser::Resolve::default();
    let id = resolve.push_str("lib.wit", wit)?;
    let world = resolve.select_world(&[id], Some(world))?;
    let mut module = wit_component::dummy_module(
        &resolve,
        world,
        wit_parser::ManglingAndAbi::Legacy(wit_parser::LiftLowerAbi::Sync),
    );
    wit_component::embed_component_metadata(&mut module, &resolve, world, StringEncoding::default())?;
    let mut encoder = ComponentEncoder::default().validate(true).module(&module)?;
    encoder.encode()
}

// ---------------------------------------------------------------------------------------------
// dump of the real graph as a graph value

pub fn kind_tag(k: &ItemKind) -> &'static str {
    match k {
        ItemKind::Type(_) => "type",
        ItemKind::Func(_) => "func",
        ItemKind::Instance(_) => "instance",
        ItemKind::Component(_) => "component",
        ItemKind::Module(_) => "module",
        ItemKind::Value(_) => "value",
    }
}

/// `(iface id, deps)` of an item kind: the interface id of a named-interface instance and the
/// ids of the interfaces it uses, dependencies first (the order `import_deps` visits them in).
pub fn item_ty(types: &Types, k: &ItemKind) -> (Option<String>, Vec<String>) {
    fn visit(types: &Types, id: InterfaceId, out: &mut Vec<String>) {
        let Some(iid) = types[id].id.clone() else { return };
        if out.contains(&iid) {
            return;
        }
        for u in types[id].uses.values() {
            visit(types, u.interface, out);
        }
        if !out.contains(&iid) {
            out.push(iid);
        }
    }
    match k {
        ItemKind::Instance(id) => {
            let mut deps = Vec::new();
            for u in types[*id].uses.values() {
                visit(types, u.interface, &mut deps);
            }
            (types[*id].id.clone(), deps)
        }
        ItemKind::Component(id) => {
            let mut deps = Vec::new();
            for u in types[*id].uses.values() {
                visit(types, u.interface, &mut deps);
            }
            (None, deps)
        }
        _ => (None, Vec::new()),
    }
}

fn push_item_ty(t: &mut Toks, types: &Types, k: &ItemKind) {
    let (iface, deps) = item_ty(types, k);
    t.s(kind_tag(k)).opt(iface.as_deref()).n(deps.len());
    for d in &deps {
        t.s(d);
    }
    match k {
        ItemKind::Instance(id) => {
            let ex = &types[*id].exports;
            t.n(ex.len());
            for n in ex.keys() {
                t.s(n);
            }
        }
        _ => {
            t.n(0);
        }
    }
}

pub fn node_index(id: NodeId) -> usize {
    id.to_string().parse().unwrap()
}

pub struct GraphDump {
    pub toks: Toks,
    /// slot -> package bytes class
    pub bytes_class: BTreeMap<usize, usize>,
    /// distinct package byte strings, by class
    pub classes: Vec<Vec<u8>>,
    pub n_nodes: usize,
    pub n_inst: usize,
    pub n_alias: usize,
    pub n_import: usize,
    pub n_def: usize,
    pub n_arg: usize,
    pub n_exports: usize,
    pub multi_export_nodes: usize,
    pub shared_sources: usize,
    pub multi_inst_pkgs: usize,
    pub alias_of_alias: usize,
    /// package names instantiated at more than one version
    pub multi_version_names: usize,
    /// (instantiation, source instance) pairs with more than one argument aliased from that instance
    pub multi_arg_pairs: usize,
}

/// Dump the graph through its public API (+ the adjacency-order hook).
/// `pkg_ids`: the ids of the packages registered by the harness (slot recovered via the hook).
pub fn dump_graph(g: &CompositionGraph, pkg_ids: &[PackageId]) -> GraphDump {
    let mut t = Toks::default();
    let types = g.types();
    // packages
    let mut classes: Vec<Vec<u8>> = Vec::new();
    let mut bytes_class = BTreeMap::new();
    let live: Vec<PackageId> = pkg_ids.to_vec();
    t.n(live.len());
    for id in &live {
        let p: &Package = &g[*id];
        let slot = CompositionGraph::verif_package_slot(*id);
        let class = match classes.iter().position(|b| b.as_slice() == p.bytes()) {
            Some(c) => c,
            None => {
                classes.push(p.bytes().to_vec());
                classes.len() - 1
            }
        };
        bytes_class.insert(slot, class);
        t.n(slot).s(p.name());
        let v = p.version().map(|v| v.to_string());
        t.opt(v.as_deref());
        t.n(class);
        let world = &types[p.ty()];
        t.n(world.imports.len());
        for (name, kind) in &world.imports {
            t.s(name);
            push_item_ty(&mut t, types, kind);
        }
    }
    // nodes
    let edges = g.verif_encode_edges();
    let ids: Vec<NodeId> = g.node_ids().collect();
    let by_index: HashMap<usize, NodeId> = ids.iter().map(|i| (node_index(*i), *i)).collect();
    t.n(ids.len());
    let mut d = GraphDump {
        toks: Toks::default(),
        bytes_class: BTreeMap::new(),
        classes: Vec::new(),
        n_nodes: ids.len(),
        n_inst: 0,
        n_alias: 0,
        n_import: 0,
        n_def: 0,
        n_arg: 0,
        n_exports: 0,
        multi_export_nodes: 0,
        shared_sources: 0,
        multi_inst_pkgs: 0,
        alias_of_alias: 0,
        multi_version_names: 0,
        multi_arg_pairs: 0,
    };
    let mut versions_per_name: BTreeMap<String, Vec<usize>> = BTreeMap::new();
    let mut args_per_pair: BTreeMap<(usize, usize), usize> = BTreeMap::new();
    let mut inst_per_pkg: BTreeMap<usize, usize> = BTreeMap::new();
    let mut uses_of_source: BTreeMap<usize, usize> = BTreeMap::new();
    for (pos, id) in ids.iter().enumerate() {
        let node = &g[*id];
        let idx = node_index(*id);
        let (eidx, out, inc) = &edges[pos];
        assert_eq!(*eidx, idx);
        t.n(idx);
        match node.kind() {
            NodeKind::Import(name) => {
                d.n_import += 1;
                t.s("import").s(name);
            }
            NodeKind::Instantiation(sat) => {
                d.n_inst += 1;
                let slot = CompositionGraph::verif_package_slot(node.package().unwrap());
                *inst_per_pkg.entry(slot).or_insert(0) += 1;
                let v = versions_per_name.entry(g[node.package().unwrap()].name().to_string()).or_default();
                if !v.contains(&slot) {
                    v.push(slot);
                }
                let mut sat: Vec<usize> = sat.iter().copied().collect();
                sat.sort();
                t.s("inst").n(slot).n(sat.len());
                for s in sat {
                    t.n(s);
                }
            }
            NodeKind::Alias => {
                d.n_alias += 1;
                t.s("alias");
            }
            NodeKind::Definition => {
                d.n_def += 1;
                // a definition whose type is an alias of another definition's type
                let alias_of = match node.item_kind() {
                    ItemKind::Type(Type::Value(ValueType::Defined(id))) => match &types[id] {
                        DefinedType::Alias(aliased @ ValueType::Defined(_)) => ids.iter().copied().find(|m| {
                            matches!(g[*m].kind(), NodeKind::Definition)
                                && g[*m].item_kind() == ItemKind::Type(Type::Value(*aliased))
                        }),
                        _ => None,
                    },
                    _ => None,
                };
                t.s("def");
                let a = alias_of.map(|m| node_index(m).to_string());
                t.opt(a.as_deref());
            }
        }
        let k = node.item_kind();
        push_item_ty(&mut t, types, &k);
        t.opt(node.name());
        t.opt(node.export_name());
        // incoming edges in adjacency order; names resolved through the public queries
        let args: Vec<(String, usize)> = g
            .get_instantiation_arguments(*id)
            .map(|(n, s)| (n.to_string(), node_index(s)))
            .collect();
        let alias_src = g.get_alias_source(*id).map(|(s, e)| (node_index(s), e.to_string()));
        let mut arg_it = args.iter();
        t.n(inc.len());
        for (src, tag, payload) in inc {
            match tag {
                0 => {
                    // alias edge: the export name is `exports[payload]` of the source's instance type
                    let name = match g[by_index[src]].item_kind() {
                        ItemKind::Instance(iid) => {
                            types[iid].exports.get_index(*payload).map(|(n, _)| n.clone())
                        }
                        _ => None,
                    }
                    .unwrap_or_else(|| "?".into());
                    if let Some((s, e)) = &alias_src {
                        if s == src {
                            assert_eq!(&name, e, "get_alias_source disagrees with the edge");
                        }
                    }
                    if matches!(g[by_index[src]].kind(), NodeKind::Alias) {
                        d.alias_of_alias += 1;
                    }
                    t.s("alias").s(&name).n(*src);
                }
                1 => {
                    let (n, s) = arg_it.next().expect("argument edge without query result");
                    assert_eq!(s, src, "get_instantiation_arguments order differs from adjacency");
                    d.n_arg += 1;
                    *uses_of_source.entry(*src).or_insert(0) += 1;
                    if let Some((root, _)) = g.get_alias_source(by_index[src]) {
                        *args_per_pair.entry((idx, node_index(root))).or_insert(0) += 1;
                    }
                    t.s("arg").n(*payload).s(n).n(*src);
                }
                _ => {
                    t.s("dep").n(*src);
                }
            }
        }
        assert!(arg_it.next().is_none());
        t.n(out.len());
        for (dst, _, _) in out {
            t.n(*dst);
        }
    }
    d.multi_inst_pkgs = inst_per_pkg.values().filter(|n| **n > 1).count();
    d.multi_version_names = versions_per_name.values().filter(|v| v.len() > 1).count();
    d.multi_arg_pairs = args_per_pair.values().filter(|n| **n > 1).count();
    d.shared_sources = uses_of_source.values().filter(|n| **n > 1).count();
    d.toks = t;
    d.bytes_class = bytes_class;
    d.classes = classes;
    d
}

/// Append the exports list `(name, node)` in `IndexMap` order (hook `verif_encode_exports`,
/// cross-checked against `get_export`).
pub fn push_exports(d: &mut GraphDump, g: &CompositionGraph) {
    let live = g.verif_encode_exports();
    d.toks.n(live.len());
    let mut per_node: BTreeMap<usize, usize> = BTreeMap::new();
    for (n, id) in &live {
        assert_eq!(g.get_export(n).map(node_index), Some(*id), "get_export disagrees with the hook");
        d.toks.s(n).n(*id);
        *per_node.entry(*id).or_insert(0) += 1;
    }
    d.n_exports = live.len();
    d.multi_export_nodes = per_node.values().filter(|n| **n > 1).count();
}

// ---------------------------------------------------------------------------------------------
// independent section-level reader: provenance per index

#[derive(Clone, Debug, PartialEq, Eq)]
pub enum Term {
    /// the import item of that name
    Imp(String),
    /// the k-th `instantiate` item (emission order)
    Inst(usize),
    /// the k-th embedded component
    Comp(usize),
    /// alias of export `name` of the instance with the given provenance
    AliasOf(Box<Term>, String),
    /// the index allocated by `export name ... idx`
    Exported(String, Box<Term>),
    /// a type-section entry / anything the reader does not trace
    Opaque,
    /// out of range
    Bad,
}

impl Term {
    pub fn push(&self, t: &mut Toks) {
        match self {
            Term::Imp(n) => {
                t.s("I").s(n);
            }
            Term::Inst(k) => {
                t.s("N").n(*k);
            }
            Term::Comp(k) => {
                t.s("C").n(*k);
            }
            Term::AliasOf(i, n) => {
                t.s("A");
                i.push(t);
                t.s(n);
            }
            Term::Exported(n, i) => {
                t.s("X").s(n);
                i.push(t);
            }
            Term::Opaque => {
                t.s("L");
            }
            Term::Bad => {
                t.s("B");
            }
        }
    }
    pub fn rooted_at_import(&self) -> bool {
        matches!(self, Term::Imp(_))
    }
}

#[derive(Default, Debug)]
pub struct Wiring {
    /// `(name, kind)` of every top-level import in order
    pub imports: Vec<(String, &'static str)>,
    /// byte ranges of the embedded components, in order
    pub comps: Vec<Vec<u8>>,
    /// `(component provenance, [(name, kind, provenance)])` per instantiate item, in order
    pub insts: Vec<(Term, Vec<(String, &'static str, Term)>)>,
    /// `(instance provenance, kind, name)` per alias item, in order (type aliases read
    /// directly from an imported instance are the type encoder's and are left out)
    pub aliases: Vec<(Term, &'static str, String)>,
    /// `(name, kind, provenance)` per export item, in order
    pub exports: Vec<(String, &'static str, Term)>,
    /// `(kind, provenance, name)` of the component-name section
    pub names: Vec<(&'static str, Term, String)>,
    pub n_type_items: usize,
    pub other_items: Vec<String>,
    /// for every instance import: the export names of its instance type
    pub import_exports: Vec<(String, Vec<String>)>,
}

fn ext_kind(k: wasmparser::ComponentExternalKind) -> &'static str {
    use wasmparser::ComponentExternalKind as K;
    match k {
        K::Module => "module",
        K::Func => "func",
        K::Value => "value",
        K::Type => "type",
        K::Instance => "instance",
        K::Component => "component",
    }
}

pub fn read_wiring(bytes: &[u8]) -> anyhow::Result<Wiring> {
    use wasmparser::{ComponentAlias, ComponentInstance, ComponentTypeRef, Parser, Payload};
    let mut w = Wiring::default();
    let mut prov: HashMap<&'static str, Vec<Term>> = HashMap::new();
    for k in ["module", "func", "value", "type", "instance", "component"] {
        prov.insert(k, Vec::new());
    }
    let look = |prov: &HashMap<&'static str, Vec<Term>>, k: &'static str, i: u32| -> Term {
        prov[k].get(i as usize).cloned().unwrap_or(Term::Bad)
    };
    let mut depth = 0usize;
    let mut n_inst = 0usize;
    // per type index: the export names when it is an instance type defined at the top level
    let mut type_exports: Vec<Option<Vec<String>>> = Vec::new();
    for payload in Parser::new(0).parse_all(bytes) {
        let payload = payload?;
        if depth > 0 {
            match payload {
                Payload::ModuleSection { .. } | Payload::ComponentSection { .. } => depth += 1,
                Payload::End(_) => depth -= 1,
                _ => {}
            }
            continue;
        }
        match payload {
            Payload::Version { .. } => {}
            Payload::End(_) => {}
            Payload::ComponentImportSection(r) => {
                for imp in r {
                    let imp = imp?;
                    let kind = match imp.ty {
                        ComponentTypeRef::Module(_) => "module",
                        ComponentTypeRef::Func(_) => "func",
                        ComponentTypeRef::Value(_) => "value",
                        ComponentTypeRef::Type(_) => "type",
                        ComponentTypeRef::Instance(_) => "instance",
                        ComponentTypeRef::Component(_) => "component",
                    };
                    w.imports.push((imp.name.0.to_string(), kind));
                    if let ComponentTypeRef::Instance(t) = imp.ty {
                        let ex = type_exports.get(t as usize).cloned().flatten().unwrap_or_default();
                        w.import_exports.push((imp.name.0.to_string(), ex));
                    }
                    if kind == "type" {
                        type_exports.push(None);
                    }
                    prov.get_mut(kind).unwrap().push(Term::Imp(imp.name.0.to_string()));
                }
            }
            Payload::ComponentTypeSection(r) => {
                for ty in r {
                    let ty = ty?;
                    w.n_type_items += 1;
                    type_exports.push(match ty {
                        wasmparser::ComponentType::Instance(decls) => Some(
                            decls
                                .iter()
                                .filter_map(|d| match d {
                                    wasmparser::InstanceTypeDeclaration::Export { name, .. } => Some(name.0.to_string()),
                                    _ => None,
                                })
                                .collect(),
                        ),
                        _ => None,
                    });
                    prov.get_mut("type").unwrap().push(Term::Opaque);
                }
            }
            Payload::CoreTypeSection(r) => {
                for ty in r {
                    ty?;
                }
            }
            Payload::ComponentSection { unchecked_range, .. } => {
                depth += 1;
                let k = w.comps.len();
                w.comps.push(bytes[unchecked_range].to_vec());
                prov.get_mut("component").unwrap().push(Term::Comp(k));
            }
            Payload::ModuleSection { .. } => {
                depth += 1;
                w.other_items.push("core-module".into());
                prov.get_mut("module").unwrap().push(Term::Opaque);
            }
            Payload::ComponentInstanceSection(r) => {
                for inst in r {
                    match inst? {
                        ComponentInstance::Instantiate { component_index, args } => {
                            let c = look(&prov, "component", component_index);
                            let a = args
                                .iter()
                                .map(|a| {
                                    let k = ext_kind(a.kind);
                                    (a.name.to_string(), k, look(&prov, k, a.index))
                                })
                                .collect();
                            w.insts.push((c, a));
                            prov.get_mut("instance").unwrap().push(Term::Inst(n_inst));
                            n_inst += 1;
                        }
                        ComponentInstance::FromExports(_) => {
                            w.other_items.push("instance-from-exports".into());
                            prov.get_mut("instance").unwrap().push(Term::Opaque);
                        }
                    }
                }
            }
            Payload::ComponentAliasSection(r) => {
                for a in r {
                    match a? {
                        ComponentAlias::InstanceExport { kind, instance_index, name } => {
                            let k = ext_kind(kind);
                            let i = look(&prov, "instance", instance_index);
                            if !(k == "type" && i.rooted_at_import()) {
                                w.aliases.push((i.clone(), k, name.to_string()));
                            }
                            if k == "type" {
                                type_exports.push(None);
                            }
                            prov.get_mut(k)
                                .unwrap()
                                .push(Term::AliasOf(Box::new(i), name.to_string()));
                        }
                        ComponentAlias::CoreInstanceExport { .. } => {
                            w.other_items.push("core-alias".into());
                        }
                        ComponentAlias::Outer { .. } => {
                            w.other_items.push("outer-alias".into());
                        }
                    }
                }
            }
            Payload::ComponentExportSection(r) => {
                for e in r {
                    let e = e?;
                    let k = ext_kind(e.kind);
                    let t = look(&prov, k, e.index);
                    if k == "type" {
                        type_exports.push(None);
                    }
                    w.exports.push((e.name.0.to_string(), k, t.clone()));
                    prov.get_mut(k)
                        .unwrap()
                        .push(Term::Exported(e.name.0.to_string(), Box::new(t)));
                }
            }
            Payload::CustomSection(c) => {
                if let wasmparser::KnownCustom::ComponentName(r) = c.as_known() {
                    use wasmparser::ComponentName as N;
                    for sub in r {
                        let (k, map) = match sub? {
                            N::Types(m) => ("type", m),
                            N::Instances(m) => ("instance", m),
                            N::Components(m) => ("component", m),
                            N::Funcs(m) => ("func", m),
                            N::Values(m) => ("value", m),
                            N::CoreModules(m) => ("module", m),
                            _ => continue,
                        };
                        for n in map {
                            let n = n?;
                            w.names.push((k, look(&prov, k, n.index), n.name.to_string()));
                        }
                    }
                }
            }
            other => {
                w.other_items.push(format!("{:?}", other).chars().take(24).collect());
            }
        }
    }
    Ok(w)
}

impl Wiring {
    pub fn import_exports_toks(&self) -> Toks {
        let mut t = Toks::default();
        t.n(self.import_exports.len());
        for (n, ex) in &self.import_exports {
            t.s(n).n(ex.len());
            for e in ex {
                t.s(e);
            }
        }
        t
    }
    /// `classes`: package byte classes of the dumped graph; an embedded component that is not
    /// byte-identical to any registered package gets class 999999.
    pub fn toks(&self, classes: &[Vec<u8>]) -> Toks {
        let mut t = Toks::default();
        t.n(self.imports.len());
        for (n, k) in &self.imports {
            t.s(n).s(k);
        }
        t.n(self.comps.len());
        for c in &self.comps {
            t.n(classes.iter().position(|b| b == c).unwrap_or(999999));
        }
        t.n(self.insts.len());
        for (c, args) in &self.insts {
            c.push(&mut t);
            t.n(args.len());
            for (n, k, p) in args {
                t.s(n).s(k);
                p.push(&mut t);
            }
        }
        t.n(self.aliases.len());
        for (i, k, n) in &self.aliases {
            i.push(&mut t);
            t.s(k).s(n);
        }
        t.n(self.exports.len());
        for (n, k, p) in &self.exports {
            t.s(n).s(k);
            p.push(&mut t);
        }
        t.n(self.names.len());
        for (k, p, n) in &self.names {
            t.s(k);
            p.push(&mut t);
            t.s(n);
        }
        t
    }
}

/// validate with every feature on (the oracle of C01; used as a sanity oracle elsewhere)
pub fn validate_all(bytes: &[u8]) -> Result<(), String> {
    wasmparser::Validator::new_with_features(wasmparser::WasmFeatures::all())
        .validate_all(bytes)
        .map(|_| ())
        .map_err(|e| e.to_string())
}

// ---------------------------------------------------------------------------------------------
// types defined directly in the graph

pub fn add_record(types: &mut Types, fields: &[(&str, ValueType)]) -> Type {
    let id = types.add_defined_type(DefinedType::Record(Record {
        fields: fields.iter().map(|(n, t)| (n.to_string(), *t)).collect(),
    }));
    Type::Value(ValueType::Defined(id))
}

pub fn add_list(types: &mut Types, of: ValueType) -> Type {
    let id = types.add_defined_type(DefinedType::List(of));
    Type::Value(ValueType::Defined(id))
}

pub fn add_alias(types: &mut Types, of: ValueType) -> Type {
    let id = types.add_defined_type(DefinedType::Alias(of));
    Type::Value(ValueType::Defined(id))
}

pub fn u32_ty() -> ValueType {
    ValueType::Primitive(PrimitiveType::U32)
}

pub fn value_of(t: Type) -> ValueType {
    match t {
        Type::Value(v) => v,
        _ => panic!("not a value type"),
    }
}

pub fn pick_weighted(rng: &mut Rng, weights: &[usize]) -> usize {
    let total: usize = weights.iter().sum();
    let mut x = rng.below(total.max(1));
    for (i, w) in weights.iter().enumerate() {
        if x < *w {
            return i;
        }
        x -= *w;
    }
    weights.len() - 1
}
