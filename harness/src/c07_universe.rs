//! The exhaustive small-scope universe of C07: item kinds of depth <= 2 over all constructors,
//! with field/case/param renames, arity changes, async flag, option/result arms, alias chains,
//! instance/component width and depth variants, module limits and flags.
use crate::tree::*;
use wac_types::{CoreExtern, CoreFuncType, CoreRefType, CoreType, HeapType, ModuleType, PrimitiveType as P};

fn bx(d: D) -> Box<D> {
    Box::new(d)
}
fn s(x: &str) -> String {
    x.to_string()
}
fn u8_() -> D {
    D::Prim(P::U8)
}
fn st() -> D {
    D::Prim(P::String)
}
fn rec(fs: &[(&str, D)]) -> D {
    D::Record(named(fs))
}
fn var(cs: &[(&str, Option<D>)]) -> D {
    D::Variant(cs.iter().map(|(n, d)| (s(n), d.clone())).collect())
}
fn names(ns: &[&str]) -> Vec<String> {
    ns.iter().map(|n| s(n)).collect()
}
fn inst(es: &[(&str, D)]) -> D {
    D::Instance(named(es))
}
fn comp(is: &[(&str, D)], es: &[(&str, D)]) -> D {
    D::Component(named(is), named(es))
}

/// value types of depth <= 2
pub fn value_types() -> Vec<D> {
    let mut v = vec![
        u8_(),
        st(),
        D::Prim(P::U32),
        D::Prim(P::Bool),
        D::Prim(P::ErrorContext),
        // depth 1
        D::Tuple(vec![u8_()]),
        D::Tuple(vec![u8_(), u8_()]),
        D::Tuple(vec![u8_(), st()]),
        D::Tuple(vec![st(), u8_()]),
        D::List(bx(u8_())),
        D::List(bx(st())),
        D::FList(bx(u8_()), 2),
        D::FList(bx(u8_()), 3),
        D::FList(bx(st()), 2),
        D::Option(bx(u8_())),
        D::Option(bx(st())),
        D::Result(None, None),
        D::Result(Some(bx(u8_())), None),
        D::Result(None, Some(bx(u8_()))),
        D::Result(Some(bx(u8_())), Some(bx(u8_()))),
        D::Result(Some(bx(u8_())), Some(bx(st()))),
        D::Result(Some(bx(st())), Some(bx(u8_()))),
        var(&[("a", None)]),
        var(&[("a", Some(u8_()))]),
        var(&[("b", Some(u8_()))]),
        var(&[("a", Some(st()))]),
        var(&[("a", Some(u8_())), ("b", None)]),
        var(&[("b", None), ("a", Some(u8_()))]),
        var(&[("a", None), ("b", None)]),
        rec(&[("a", u8_())]),
        rec(&[("b", u8_())]),
        rec(&[("a", st())]),
        rec(&[("a", u8_()), ("b", u8_())]),
        rec(&[("b", u8_()), ("a", u8_())]),
        rec(&[("a", u8_()), ("b", st())]),
        D::Flags(names(&["a"])),
        D::Flags(names(&["b"])),
        D::Flags(names(&["a", "b"])),
        D::Flags(names(&["b", "a"])),
        D::Enum(names(&["a"])),
        D::Enum(names(&["b"])),
        D::Enum(names(&["a", "b"])),
        D::Enum(names(&["b", "a"])),
        D::Stream(None),
        D::Stream(Some(bx(u8_()))),
        D::Stream(Some(bx(st()))),
        D::Future(None),
        D::Future(Some(bx(u8_()))),
        D::Future(Some(bx(st()))),
        // alias chains
        D::Alias(bx(u8_())),
        D::Alias(bx(D::Alias(bx(u8_())))),
        D::Alias(bx(D::List(bx(u8_())))),
        D::Alias(bx(D::Alias(bx(D::List(bx(u8_())))))),
        D::Alias(bx(rec(&[("a", u8_())]))),
        // depth 2
        D::List(bx(D::List(bx(u8_())))),
        D::List(bx(D::Alias(bx(D::List(bx(u8_())))))),
        D::List(bx(D::Alias(bx(u8_())))),
        D::List(bx(rec(&[("a", u8_())]))),
        D::List(bx(rec(&[("b", u8_())]))),
        D::List(bx(D::Enum(names(&["a"])))),
        D::List(bx(D::Option(bx(u8_())))),
        D::Option(bx(D::List(bx(u8_())))),
        D::Option(bx(D::Option(bx(u8_())))),
        D::Option(bx(D::Flags(names(&["a"])))),
        D::Tuple(vec![D::List(bx(u8_())), u8_()]),
        D::Tuple(vec![D::Tuple(vec![u8_()])]),
        D::FList(bx(D::List(bx(u8_()))), 2),
        rec(&[("a", D::List(bx(u8_())))]),
        rec(&[("a", rec(&[("a", u8_())]))]),
        rec(&[("a", rec(&[("b", u8_())]))]),
        rec(&[("a", D::Alias(bx(u8_())))]),
        var(&[("a", Some(rec(&[("a", u8_())])))]),
        var(&[("a", Some(D::List(bx(u8_()))))]),
        D::Result(Some(bx(D::List(bx(u8_())))), None),
        D::Result(None, Some(bx(D::List(bx(u8_()))))),
        D::Result(Some(bx(D::Alias(bx(u8_())))), None),
        D::Stream(Some(bx(D::List(bx(u8_()))))),
        D::Future(Some(bx(D::Option(bx(u8_()))))),
    ];
    v.dedup();
    v
}

pub fn funcs() -> Vec<D> {
    let r = rec(&[("a", u8_())]);
    let rb = rec(&[("b", u8_())]);
    vec![
        func(false, &[], None),
        func(true, &[], None),
        func(false, &[("a", u8_())], None),
        func(false, &[("b", u8_())], None),
        func(false, &[("a", st())], None),
        func(false, &[("a", u8_()), ("b", u8_())], None),
        func(false, &[("b", u8_()), ("a", u8_())], None),
        func(false, &[("a", u8_()), ("b", st())], None),
        func(false, &[], Some(u8_())),
        func(false, &[], Some(st())),
        func(true, &[], Some(u8_())),
        func(false, &[("a", u8_())], Some(u8_())),
        func(true, &[("a", u8_())], Some(u8_())),
        func(false, &[("a", D::List(bx(u8_())))], None),
        func(false, &[("a", D::Alias(bx(u8_())))], None),
        func(false, &[("a", D::Alias(bx(D::List(bx(u8_())))))], None),
        func(false, &[("a", r.clone())], None),
        func(false, &[("a", rb.clone())], None),
        func(false, &[], Some(r.clone())),
        func(false, &[], Some(D::Result(Some(bx(u8_())), None))),
        func(false, &[], Some(D::Result(None, Some(bx(u8_()))))),
        func(false, &[], Some(D::Option(bx(u8_())))),
    ]
}

pub fn instances() -> Vec<D> {
    let f0 = func(false, &[], None);
    let f1 = func(false, &[("a", u8_())], None);
    let r = rec(&[("a", u8_())]);
    let rb = rec(&[("b", u8_())]);
    vec![
        inst(&[]),
        inst(&[("f", f0.clone())]),
        inst(&[("f", f1.clone())]),
        inst(&[("g", f0.clone())]),
        inst(&[("f", f0.clone()), ("g", f0.clone())]),
        inst(&[("g", f0.clone()), ("f", f0.clone())]),
        inst(&[("f", f0.clone()), ("g", f1.clone())]),
        inst(&[("f", func(true, &[], None))]),
        inst(&[("v", D::Value(bx(u8_())))]),
        inst(&[("v", D::Value(bx(st())))]),
        inst(&[("f", D::Value(bx(u8_())))]),
        inst(&[("t", D::Type(bx(r.clone())))]),
        inst(&[("t", D::Type(bx(rb.clone())))]),
        inst(&[("t", D::Type(bx(D::Alias(bx(r.clone())))))]),
        inst(&[("t", D::Type(bx(r.clone()))), ("f", func(false, &[("a", r.clone())], None))]),
        inst(&[("t", D::Type(bx(f0.clone())))]),
        // depth
        inst(&[("x", inst(&[]))]),
        inst(&[("x", inst(&[("f", f0.clone())]))]),
        inst(&[("x", inst(&[("f", f0.clone()), ("g", f0.clone())]))]),
        inst(&[("x", inst(&[("f", f1.clone())]))]),
        inst(&[("x", inst(&[("f", f0.clone())])), ("f", f0.clone())]),
        inst(&[("x", D::Type(bx(inst(&[("f", f0.clone())]))))]),
        inst(&[("c", comp(&[], &[]))]),
        inst(&[("c", comp(&[("f", f0.clone())], &[]))]),
        inst(&[("c", comp(&[], &[("f", f0.clone())]))]),
    ]
}

pub fn components() -> Vec<D> {
    let f0 = func(false, &[], None);
    let f1 = func(false, &[("a", u8_())], None);
    let i1 = inst(&[("f", f0.clone())]);
    let i2 = inst(&[("f", f0.clone()), ("g", f0.clone())]);
    vec![
        comp(&[], &[]),
        comp(&[("f", f0.clone())], &[]),
        comp(&[("f", f1.clone())], &[]),
        comp(&[("g", f0.clone())], &[]),
        comp(&[("f", f0.clone()), ("g", f0.clone())], &[]),
        comp(&[], &[("f", f0.clone())]),
        comp(&[], &[("f", f1.clone())]),
        comp(&[], &[("f", f0.clone()), ("g", f0.clone())]),
        comp(&[("f", f0.clone())], &[("f", f0.clone())]),
        comp(&[("f", f0.clone())], &[("g", f0.clone())]),
        comp(&[("f", f1.clone())], &[("f", f0.clone())]),
        comp(&[("v", D::Value(bx(u8_())))], &[]),
        // instance imports/exports of different widths: contravariance vs covariance
        comp(&[("x", i1.clone())], &[]),
        comp(&[("x", i2.clone())], &[]),
        comp(&[], &[("x", i1.clone())]),
        comp(&[], &[("x", i2.clone())]),
        comp(&[("x", i1.clone())], &[("x", i2.clone())]),
        comp(&[("x", i2.clone())], &[("x", i1.clone())]),
        // component-typed imports: contravariance twice
        comp(&[("c", comp(&[], &[]))], &[]),
        comp(&[("c", comp(&[("f", f0.clone())], &[]))], &[]),
        comp(&[("c", comp(&[], &[("f", f0.clone())]))], &[]),
        comp(&[], &[("c", comp(&[("f", f0.clone())], &[]))]),
        comp(&[], &[("c", comp(&[], &[("f", f0.clone())]))]),
        comp(&[("t", D::Type(bx(rec(&[("a", u8_())]))))], &[]),
    ]
}

fn funcref() -> CoreRefType {
    CoreRefType { nullable: true, heap_type: HeapType::Func }
}
fn externref() -> CoreRefType {
    CoreRefType { nullable: true, heap_type: HeapType::Extern }
}
fn cf(ps: &[CoreType], rs: &[CoreType]) -> CoreFuncType {
    CoreFuncType { params: ps.to_vec(), results: rs.to_vec() }
}
fn table(e: CoreRefType, i: u64, m: Option<u64>, t64: bool, sh: bool) -> CoreExtern {
    CoreExtern::Table { element_type: e, initial: i, maximum: m, table64: t64, shared: sh }
}
fn mem(i: u64, m: Option<u64>, m64: bool, sh: bool, p: Option<u32>) -> CoreExtern {
    CoreExtern::Memory { memory64: m64, shared: sh, initial: i, maximum: m, page_size_log2: p }
}
fn glob(t: CoreType, m: bool, sh: bool) -> CoreExtern {
    CoreExtern::Global { val_type: t, mutable: m, shared: sh }
}

pub fn externs() -> Vec<CoreExtern> {
    vec![
        CoreExtern::Func(cf(&[], &[])),
        CoreExtern::Func(cf(&[CoreType::I32], &[])),
        CoreExtern::Func(cf(&[CoreType::I64], &[])),
        CoreExtern::Func(cf(&[], &[CoreType::I32])),
        CoreExtern::Func(cf(&[CoreType::I32, CoreType::I32], &[])),
        CoreExtern::Func(cf(&[CoreType::Ref(funcref())], &[])),
        CoreExtern::Tag(cf(&[], &[])),
        CoreExtern::Tag(cf(&[CoreType::I32], &[])),
        table(funcref(), 1, None, false, false),
        table(funcref(), 2, None, false, false),
        table(funcref(), 1, Some(5), false, false),
        table(funcref(), 1, Some(3), false, false),
        table(funcref(), 2, Some(5), false, false),
        table(externref(), 1, None, false, false),
        table(CoreRefType { nullable: false, heap_type: HeapType::Func }, 1, None, false, false),
        table(funcref(), 1, None, true, false),
        table(funcref(), 1, Some(5), false, true),
        mem(1, None, false, false, None),
        mem(2, None, false, false, None),
        mem(1, Some(2), false, false, None),
        mem(1, Some(1), false, false, None),
        mem(2, Some(2), false, false, None),
        mem(1, None, true, false, None),
        mem(1, Some(2), false, true, None),
        mem(1, None, false, false, Some(16)),
        mem(1, None, false, false, Some(0)),
        glob(CoreType::I32, false, false),
        glob(CoreType::I32, true, false),
        glob(CoreType::I64, false, false),
        glob(CoreType::I32, false, true),
        glob(CoreType::Ref(funcref()), false, false),
        glob(CoreType::Ref(CoreRefType { nullable: false, heap_type: HeapType::Func }), false, false),
    ]
}

pub fn modules() -> Vec<D> {
    let mut v = Vec::new();
    let mk = |is: Vec<((String, String), CoreExtern)>, es: Vec<(String, CoreExtern)>| {
        D::Module(MDesc(ModuleType { imports: is.into_iter().collect(), exports: es.into_iter().collect() }))
    };
    v.push(mk(vec![], vec![]));
    for e in externs() {
        v.push(mk(vec![], vec![(s("x"), e.clone())]));
        v.push(mk(vec![((s("m"), s("x")), e.clone())], vec![]));
    }
    let f = CoreExtern::Func(cf(&[], &[]));
    let g = glob(CoreType::I32, false, false);
    v.push(mk(vec![], vec![(s("x"), f.clone()), (s("y"), g.clone())]));
    v.push(mk(vec![], vec![(s("y"), g.clone()), (s("x"), f.clone())]));
    v.push(mk(vec![], vec![(s("y"), g.clone())]));
    v.push(mk(vec![((s("m"), s("x")), f.clone()), ((s("m"), s("y")), g.clone())], vec![]));
    v.push(mk(vec![((s("n"), s("x")), f.clone())], vec![]));
    v.push(mk(vec![((s("m"), s("x")), f.clone())], vec![(s("x"), f.clone())]));
    v
}

/// every item kind of the universe
pub fn universe() -> Vec<D> {
    let mut v = Vec::new();
    let vts = value_types();
    for t in &vts {
        v.push(D::Value(bx(t.clone())));
    }
    for (i, t) in vts.iter().enumerate() {
        // type items for a spread of the value types
        if i % 3 == 0 || matches!(t, D::Alias(_)) {
            v.push(D::Type(bx(t.clone())));
        }
    }
    let fs = funcs();
    v.extend(fs.iter().cloned());
    for f in fs.iter().take(4) {
        v.push(D::Type(bx(f.clone())));
    }
    let is = instances();
    v.extend(is.iter().cloned());
    for i in is.iter().take(5) {
        v.push(D::Type(bx(i.clone())));
    }
    let cs = components();
    v.extend(cs.iter().cloned());
    for c in cs.iter().take(6) {
        v.push(D::Type(bx(c.clone())));
    }
    v.extend(modules());
    v.push(D::Type(bx(modules()[0].clone())));
    v.push(D::Type(bx(modules()[1].clone())));
    v
}
