//! Helpers shared by the C18/C19/C20 harnesses: auxiliary crates and binaries (feature variants
//! of wac-resolver, the Warg server/client helper, the `wac` CLI) are built with cargo (offline)
//! below the runner's target directory `$WACV_TARGET`, once:
//!   * `<harness> --prebuild 1` (called by the runner before the shards start and by
//!     `./check --setup`) builds them and exits;
//!   * a normal run only compares a stamp of the relevant sources (path, size, mtime of every
//!     *.rs / *.toml / *.lock file) with the stamp recorded at the last build; if it is stale
//!     the build is repeated under a file lock, so concurrent shards never all invoke cargo.
//! Scratch directories go to tmpfs when there is one.
#![allow(dead_code)]
use std::fs;
use std::path::{Path, PathBuf};

pub struct Env {
    pub repo: String,
    pub verif: String,
    pub target: String,
}

pub fn env() -> Option<Env> {
    Some(Env { repo: std::env::var("WACV_REPO").ok()?, verif: std::env::var("WACV_VERIF").ok()?, target: std::env::var("WACV_TARGET").ok()? })
}

/// scratch directories live on tmpfs when there is one (`/dev/shm`)
pub fn scratch_base() -> PathBuf {
    let shm = Path::new("/dev/shm");
    if shm.is_dir() {
        let probe = shm.join(format!(".wacv-probe-{}", std::process::id()));
        if fs::write(&probe, b"x").is_ok() {
            fs::remove_file(&probe).ok();
            return shm.to_path_buf();
        }
    }
    std::env::temp_dir()
}

pub fn write_if_changed(p: &Path, s: &str) {
    if fs::read_to_string(p).ok().as_deref() != Some(s) {
        if let Some(d) = p.parent() {
            fs::create_dir_all(d).unwrap();
        }
        fs::write(p, s).unwrap();
    }
}

fn walk(dir: &Path, out: &mut Vec<(String, u64, u128)>) {
    let Ok(rd) = fs::read_dir(dir) else { return };
    for e in rd.flatten() {
        let p = e.path();
        let name = e.file_name().to_string_lossy().to_string();
        if name == "target" || name.starts_with('.') {
            continue;
        }
        if p.is_dir() {
            walk(&p, out);
        } else if name.ends_with(".rs") || name.ends_with(".toml") || name.ends_with(".lock") || name.ends_with(".in") {
            if let Ok(m) = e.metadata() {
                let t = m.modified().ok().and_then(|t| t.duration_since(std::time::UNIX_EPOCH).ok()).map(|d| d.as_nanos()).unwrap_or(0);
                out.push((p.to_string_lossy().to_string(), m.len(), t));
            }
        }
    }
}

/// stamp of the sources below `roots` (files or directories) plus a free-form `extra`
pub fn source_stamp(roots: &[PathBuf], extra: &str) -> String {
    let mut all = Vec::new();
    for r in roots {
        if r.is_dir() {
            walk(r, &mut all);
        } else if let Ok(m) = fs::metadata(r) {
            let t = m.modified().ok().and_then(|t| t.duration_since(std::time::UNIX_EPOCH).ok()).map(|d| d.as_nanos()).unwrap_or(0);
            all.push((r.to_string_lossy().to_string(), m.len(), t));
        }
    }
    all.sort();
    let mut h: u64 = 0xcbf29ce484222325;
    let mut feed = |b: &[u8]| {
        for x in b {
            h ^= *x as u64;
            h = h.wrapping_mul(0x100000001b3);
        }
    };
    feed(extra.as_bytes());
    for (p, l, t) in &all {
        feed(p.as_bytes());
        feed(&l.to_le_bytes());
        feed(&t.to_le_bytes());
    }
    format!("{:016x}-{}", h, all.len())
}

/// Make sure `products` exist and were built from the sources described by `stamp`; otherwise
/// run `build` under an exclusive file lock (a concurrent caller waits, then finds the stamp).
pub fn ensure_built(dir: &Path, name: &str, stamp: &str, products: &[PathBuf], build: impl FnOnce() -> Result<(), String>) -> Result<(), String> {
    fs::create_dir_all(dir).map_err(|e| e.to_string())?;
    let stamp_file = dir.join(format!("{name}.stamp"));
    let fresh = |sf: &Path| products.iter().all(|p| p.exists()) && fs::read_to_string(sf).ok().as_deref() == Some(stamp);
    if fresh(&stamp_file) {
        return Ok(());
    }
    let lock = fs::File::create(dir.join(format!("{name}.lock"))).map_err(|e| e.to_string())?;
    lock.lock().map_err(|e| e.to_string())?;
    if fresh(&stamp_file) {
        return Ok(());
    }
    fs::remove_file(&stamp_file).ok();
    build()?;
    fs::write(&stamp_file, stamp).map_err(|e| e.to_string())?;
    Ok(())
}

pub fn cargo(cwd: &Path, target_dir: &Path, args: &[&str], rustflags: Option<&str>) -> Result<(), String> {
    let mut c = std::process::Command::new("cargo");
    c.args(["build", "--offline", "--quiet", "-j", "6"]).args(args).current_dir(cwd).env("CARGO_TARGET_DIR", target_dir).env("CARGO_NET_OFFLINE", "true");
    match rustflags {
        Some(f) => c.env("RUSTFLAGS", f),
        None => c.env_remove("RUSTFLAGS"),
    };
    let st = c.output().map_err(|e| format!("cargo: {e}"))?;
    if st.status.success() {
        Ok(())
    } else {
        Err(format!("cargo build {:?} failed:\n{}", args, String::from_utf8_lossy(&st.stderr)))
    }
}

/// the repository sources every helper depends on
pub fn repo_sources(env: &Env, with_cli: bool) -> Vec<PathBuf> {
    let r = PathBuf::from(&env.repo);
    let mut v = vec![r.join("crates"), r.join("Cargo.toml"), r.join("Cargo.lock")];
    if with_cli {
        v.push(r.join("src"));
    }
    v
}

/// Generate `<target>/<ws_name>/` as a single-package workspace (Cargo.toml, src/main.rs, the
/// repository's Cargo.lock) and build it when stale; returns the path of the binary.
pub fn build_helper(env: &Env, ws_name: &str, pkg: &str, deps_toml: &str, main_rs: &str, harness_sources: &[&str]) -> Result<PathBuf, String> {
    let ws = PathBuf::from(&env.target).join(ws_name);
    let bin = ws.join("target/debug").join(pkg);
    let mut roots = repo_sources(env, false);
    for h in harness_sources {
        roots.push(PathBuf::from(&env.verif).join("harness/src").join(h));
    }
    let stamp = source_stamp(&roots, &format!("{deps_toml}\n{main_rs}"));
    let ws2 = ws.clone();
    let repo = env.repo.clone();
    ensure_built(&PathBuf::from(&env.target), ws_name, &stamp, &[bin.clone()], move || {
        fs::create_dir_all(ws2.join("src")).map_err(|e| e.to_string())?;
        let toml = format!(
            "[package]\nname = \"{pkg}\"\nversion = \"0.0.0\"\nedition = \"2021\"\npublish = false\n\n[workspace]\n\n[dependencies]\n{deps_toml}\n\
             [profile.dev]\nopt-level = 1\ndebug = 1\n\n[lints.rust]\nunexpected_cfgs = {{ level = \"allow\" }}\n"
        );
        write_if_changed(&ws2.join("Cargo.toml"), &toml);
        write_if_changed(&ws2.join("src/main.rs"), main_rs);
        if !ws2.join("Cargo.lock").exists() {
            fs::copy(PathBuf::from(&repo).join("Cargo.lock"), ws2.join("Cargo.lock")).map_err(|e| e.to_string())?;
        }
        match cargo(&ws2, &ws2.join("target"), &[], Some("--cfg wac_verif")) {
            Ok(()) => Ok(()),
            Err(e) if e.contains("Cargo.lock") => {
                fs::copy(PathBuf::from(&repo).join("Cargo.lock"), ws2.join("Cargo.lock")).map_err(|e| e.to_string())?;
                cargo(&ws2, &ws2.join("target"), &[], Some("--cfg wac_verif"))
            }
            Err(e) => Err(e),
        }
    })?;
    Ok(bin)
}
