//! Helper used by the C19/C20 harnesses: build (cargo, offline) an auxiliary crate below the
//! runner's target directory.  This keeps heavy or feature-specific dependencies (the Warg
//! server and client, the `wac` binary) out of the shared harness crate.
use std::fs;
use std::path::{Path, PathBuf};

pub struct Env {
    pub repo: String,
    pub verif: String,
    pub target: String,
}

pub fn env() -> Option<Env> {
    Some(Env { repo: std::env::var("WACV_REPO").ok()?, verif: std::env::var("WACV_VERIF").ok()?, target: std::env::var("WACV_TARGET").ok()? })
}

/// scratch directories live on tmpfs when there is one (`/dev/shm`)
pub fn scratch_base() -> PathBuf {
    let shm = Path::new("/dev/shm");
    if shm.is_dir() {
        let probe = shm.join(format!(".wacv-probe-{}", std::process::id()));
        if fs::write(&probe, b"x").is_ok() {
            fs::remove_file(&probe).ok();
            return shm.to_path_buf();
        }
    }
    std::env::temp_dir()
}

pub fn write_if_changed(p: &Path, s: &str) {
    if fs::read_to_string(p).ok().as_deref() != Some(s) {
        if let Some(d) = p.parent() {
            fs::create_dir_all(d).unwrap();
        }
        fs::write(p, s).unwrap();
    }
}

/// Generate `<target>/<ws_name>/` as a single-package workspace (Cargo.toml, src/main.rs, the
/// repository's Cargo.lock), build it and return the path of the binary.
pub fn build_helper(env: &Env, ws_name: &str, pkg: &str, deps_toml: &str, main_rs: &str) -> Result<PathBuf, String> {
    let ws = PathBuf::from(&env.target).join(ws_name);
    fs::create_dir_all(ws.join("src")).map_err(|e| e.to_string())?;
    let toml = format!(
        "[package]\nname = \"{pkg}\"\nversion = \"0.0.0\"\nedition = \"2021\"\npublish = false\n\n[workspace]\n\n[dependencies]\n{deps_toml}\n\
         [profile.dev]\nopt-level = 1\ndebug = 1\n\n[lints.rust]\nunexpected_cfgs = {{ level = \"allow\" }}\n"
    );
    write_if_changed(&ws.join("Cargo.toml"), &toml);
    write_if_changed(&ws.join("src/main.rs"), main_rs);
    if !ws.join("Cargo.lock").exists() {
        fs::copy(PathBuf::from(&env.repo).join("Cargo.lock"), ws.join("Cargo.lock")).map_err(|e| e.to_string())?;
    }
    let run = |ws: &Path| {
        std::process::Command::new("cargo")
            .args(["build", "--offline", "--quiet", "-j", "6"])
            .current_dir(ws)
            .env("CARGO_TARGET_DIR", ws.join("target"))
            .env("CARGO_NET_OFFLINE", "true")
            .env("RUSTFLAGS", "--cfg wac_verif")
            .output()
    };
    let mut st = run(&ws).map_err(|e| format!("cargo: {e}"))?;
    if !st.status.success() && String::from_utf8_lossy(&st.stderr).contains("Cargo.lock") {
        fs::copy(PathBuf::from(&env.repo).join("Cargo.lock"), ws.join("Cargo.lock")).map_err(|e| e.to_string())?;
        st = run(&ws).map_err(|e| format!("cargo: {e}"))?;
    }
    if !st.status.success() {
        return Err(format!("cargo build of {pkg} failed:\n{}", String::from_utf8_lossy(&st.stderr)));
    }
    Ok(ws.join("target/debug").join(pkg))
}
