//! C18 core: `FileSystemPackageResolver::resolve` on real scratch directories, exhaustively over
//! layouts (absent / file / directory at each candidate path; contents binary / WAT / WIT /
//! malformed) x override kinds x key shapes x both unknown-package modes, plus multi-key requests.
//!
//! One case per line (kind `fs`, see lean/Driver/C18.lean).  The file-system state sent to the
//! Lean side is read back from the scratch directory by walking it, so the model sees exactly
//! what the resolver saw.  The foreign encoders (`wit_component::encode` of a directory / file,
//! `wat::parse_bytes`) are evaluated independently by the harness and sent as the `Codec`
//! parameter of the model.
//!
//! Which cargo features the linked wac-resolver really has is *probed* at start-up (a lone
//! `x.wat` file / a WIT directory) and the probe result is what the cases report.
use super::api::{esc, guarded, quiet_panics, Args, Out, Rng};
use indexmap::IndexMap;
use miette::SourceSpan;
use semver::Version;
use std::collections::{BTreeMap, HashMap};
use std::fs;
use std::path::{Path, PathBuf};
use wac_resolver::{Error, FileSystemPackageResolver};
use wac_types::BorrowedPackageKey;

// ------------------------------------------------------------------------------------------
// contents

const WAT1: &str = "(component)";
const WAT2: &str = "(component (core module))";
const WAT_BAD: &str = "(component";
const WIT1: &str = "package c18:one;\ninterface i { f: func(); }\n";
const WIT2: &str = "package c18:two;\nworld w { export g: func() -> u32; }\n";
const WIT_BAD: &str = "package c18:bad;\ninterface {";

#[derive(Clone, Copy, PartialEq, Eq, Debug, PartialOrd, Ord)]
pub enum Node {
    Absent,
    /// regular file with these contents
    Bin1,
    Bin2,
    Wat1,
    Wat2,
    WatBad,
    Wit1,
    WitBad,
    Empty,
    /// directories
    DirWit1,
    DirWit2,
    DirWitBad,
    DirEmpty,
}

impl Node {
    fn is_dir(self) -> bool {
        matches!(self, Node::DirWit1 | Node::DirWit2 | Node::DirWitBad | Node::DirEmpty)
    }
    fn contents(self) -> Vec<u8> {
        match self {
            Node::Bin1 => wat::parse_str(WAT1).unwrap(),
            Node::Bin2 => wat::parse_str(WAT2).unwrap(),
            Node::Wat1 => WAT1.as_bytes().to_vec(),
            Node::Wat2 => WAT2.as_bytes().to_vec(),
            Node::WatBad => WAT_BAD.as_bytes().to_vec(),
            Node::Wit1 => WIT1.as_bytes().to_vec(),
            Node::WitBad => WIT_BAD.as_bytes().to_vec(),
            _ => Vec::new(),
        }
    }
}

/// byte strings -> opaque tokens (the model only copies bytes)
#[derive(Default)]
struct Intern {
    map: HashMap<Vec<u8>, String>,
}

impl Intern {
    fn tok(&mut self, b: &[u8]) -> String {
        let n = self.map.len();
        self.map.entry(b.to_vec()).or_insert_with(|| format!("b{n}")).clone()
    }
}

// ------------------------------------------------------------------------------------------
// independent evaluation of the encoders

fn oracle_wit_dir(path: &Path) -> Option<Vec<u8>> {
    let mut resolve = wit_parser::Resolve::new();
    let (pkg, _) = resolve.push_dir(path).ok()?;
    wit_component::encode(&resolve, pkg).ok()
}

fn oracle_wit_file(scratch: &Path, contents: &[u8]) -> Option<Vec<u8>> {
    let p = scratch.join("oracle-input.wit");
    fs::write(&p, contents).unwrap();
    let mut resolve = wit_parser::Resolve::new();
    let r = resolve.push_file(&p).ok().and_then(|pkg| wit_component::encode(&resolve, pkg).ok());
    fs::remove_file(&p).ok();
    r
}

fn oracle_wat(contents: &[u8]) -> Option<Vec<u8>> {
    wat::parse_bytes(contents).ok().map(|c| c.into_owned())
}

// ------------------------------------------------------------------------------------------
// one case

#[derive(Clone, Debug)]
pub struct KeySpec {
    pub name: String,
    pub version: Option<String>,
}

#[derive(Clone, Debug, Default)]
pub struct CaseSpec {
    /// entries to create, relative to the case directory (parents are created as plain dirs)
    pub entries: Vec<(String, Node)>,
    pub overrides: Vec<(String, String)>,
    pub keys: Vec<KeySpec>,
    pub error_on_unknown: bool,
}

pub struct Ctx {
    pub scratch: PathBuf,
    pub feat_wat: bool,
    pub feat_wit: bool,
    intern: Intern,
    codec_cache: HashMap<Vec<u8>, (Option<Vec<u8>>, Option<Vec<u8>>)>,
    dir_cache: HashMap<Vec<(String, Vec<u8>)>, Option<Vec<u8>>>,
    n: u64,
}

fn populate(root: &Path, entries: &[(String, Node)]) -> bool {
    // directories first so that files can be placed inside them; a conflict (file where a
    // directory is needed) makes the layout unrealisable
    let mut es: Vec<&(String, Node)> = entries.iter().filter(|e| e.1 != Node::Absent).collect();
    es.sort_by_key(|e| (!e.1.is_dir(), e.0.len()));
    for (rel, node) in es {
        let p = root.join(rel);
        if let Some(parent) = p.parent() {
            if fs::create_dir_all(parent).is_err() {
                return false;
            }
        }
        if node.is_dir() {
            if p.is_file() || fs::create_dir_all(&p).is_err() {
                return false;
            }
            let r = match node {
                Node::DirWit1 => fs::write(p.join("a.wit"), WIT1),
                Node::DirWit2 => fs::write(p.join("b.wit"), WIT2),
                Node::DirWitBad => fs::write(p.join("a.wit"), WIT_BAD),
                _ => Ok(()),
            };
            if r.is_err() {
                return false;
            }
        } else {
            if p.exists() || fs::write(&p, node.contents()).is_err() {
                return false;
            }
        }
    }
    true
}

/// (relative path, None = directory | Some(contents)) for everything below `root`, sorted
fn walk(root: &Path, rel: &str, out: &mut Vec<(String, Option<Vec<u8>>)>) {
    let mut names: Vec<_> = fs::read_dir(root.join(rel)).unwrap().map(|e| e.unwrap().file_name().into_string().unwrap()).collect();
    names.sort();
    for n in names {
        let r = if rel.is_empty() { n.clone() } else { format!("{rel}/{n}") };
        let p = root.join(&r);
        if p.is_dir() {
            out.push((r.clone(), None));
            walk(root, &r, out);
        } else {
            out.push((r, Some(fs::read(&p).unwrap())));
        }
    }
}

fn span_of(i: usize) -> SourceSpan {
    SourceSpan::new((10 * i + 1).into(), i + 2)
}

fn show_span(s: &SourceSpan) -> String {
    format!("{}:{}", s.offset(), s.len())
}

impl Ctx {
    pub fn new(scratch: PathBuf) -> Ctx {
        fs::create_dir_all(&scratch).unwrap();
        let mut c = Ctx { scratch, feat_wat: false, feat_wit: false, intern: Intern::default(), codec_cache: HashMap::new(), dir_cache: HashMap::new(), n: 0 };
        c.probe();
        c
    }

    /// find out which features the linked wac-resolver was built with
    fn probe(&mut self) {
        let d = self.scratch.join("probe");
        fs::create_dir_all(d.join("deps/p")).unwrap();
        fs::write(d.join("deps/p/w.wat"), WAT1).unwrap();
        fs::create_dir_all(d.join("deps/p/d")).unwrap();
        fs::write(d.join("deps/p/d/a.wit"), WIT1).unwrap();
        let r = FileSystemPackageResolver::new(d.join("deps"), HashMap::new(), false);
        let mut keys = IndexMap::new();
        keys.insert(BorrowedPackageKey::from_name_and_version("p:w", None), span_of(0));
        keys.insert(BorrowedPackageKey::from_name_and_version("p:d", None), span_of(1));
        let got = r.resolve(&keys).map(|m| m.keys().map(|k| k.name.to_string()).collect::<Vec<_>>()).unwrap_or_default();
        self.feat_wat = got.iter().any(|n| n == "p:w");
        self.feat_wit = got.iter().any(|n| n == "p:d");
        fs::remove_dir_all(&d).ok();
    }

    fn dir_oracle(&mut self, root: &Path, rel: &str, listing: &[(String, Option<Vec<u8>>)]) -> Option<Vec<u8>> {
        // cache on the directory's recursive contents
        let prefix = format!("{rel}/");
        let sig: Vec<(String, Vec<u8>)> = listing
            .iter()
            .filter(|(p, _)| p.starts_with(&prefix))
            .map(|(p, c)| (p[prefix.len()..].to_string(), c.clone().unwrap_or_else(|| b"<dir>".to_vec())))
            .collect();
        if let Some(r) = self.dir_cache.get(&sig) {
            return r.clone();
        }
        let r = oracle_wit_dir(&root.join(rel));
        self.dir_cache.insert(sig, r.clone());
        r
    }

    /// build the layout, run the resolver, write the case line
    pub fn run_case(&mut self, out: &mut Out, spec: &CaseSpec, nontrivial_hint: bool) -> bool {
        self.n += 1;
        let root = self.scratch.join(format!("case{}", self.n));
        fs::create_dir_all(&root).unwrap();
        let ok = populate(&root, &spec.entries);
        if !ok {
            out.count("layout:unrealisable");
            fs::remove_dir_all(&root).ok();
            return false;
        }
        fs::create_dir_all(root.join("deps")).unwrap();

        let versions: Vec<Option<Version>> = spec.keys.iter().map(|k| k.version.as_ref().map(|v| Version::parse(v).unwrap())).collect();
        let mut keys: IndexMap<BorrowedPackageKey, SourceSpan> = IndexMap::new();
        for (i, k) in spec.keys.iter().enumerate() {
            keys.insert(BorrowedPackageKey::from_name_and_version(&k.name, versions[i].as_ref()), span_of(i));
        }
        let overrides: HashMap<String, PathBuf> = spec.overrides.iter().map(|(n, p)| (n.clone(), root.join(p))).collect();
        let resolver = FileSystemPackageResolver::new(root.join("deps"), overrides, spec.error_on_unknown);
        let res = guarded(std::panic::AssertUnwindSafe(|| resolver.resolve(&keys)));

        // observation
        let mut listing = Vec::new();
        walk(&root, "", &mut listing);
        let mut f: Vec<String> = vec![
            if self.feat_wat { "1" } else { "0" }.into(),
            if self.feat_wit { "1" } else { "0" }.into(),
            if spec.error_on_unknown { "1" } else { "0" }.into(),
            "deps".into(),
        ];
        f.push(listing.len().to_string());
        let mut contents: Vec<Vec<u8>> = Vec::new();
        for (rel, c) in &listing {
            f.push(esc(rel));
            match c {
                None => {
                    f.push("D".into());
                    let r = self.dir_oracle(&root, rel, &listing);
                    f.push(match r {
                        Some(b) => self.intern.tok(&b),
                        None => "ERR".into(),
                    });
                }
                Some(b) => {
                    f.push("F".into());
                    f.push(self.intern.tok(b));
                    if !contents.contains(b) {
                        contents.push(b.clone());
                    }
                }
            }
        }
        f.push(contents.len().to_string());
        for c in &contents {
            if !self.codec_cache.contains_key(c) {
                let v = (oracle_wat(c), oracle_wit_file(&self.scratch, c));
                self.codec_cache.insert(c.clone(), v);
            }
            let (w, i) = self.codec_cache.get(c).unwrap().clone();
            f.push(self.intern.tok(c));
            f.push(w.map(|b| self.intern.tok(&b)).unwrap_or_else(|| "ERR".into()));
            f.push(i.map(|b| self.intern.tok(&b)).unwrap_or_else(|| "ERR".into()));
        }
        f.push(spec.overrides.len().to_string());
        for (n, p) in &spec.overrides {
            f.push(esc(n));
            f.push(esc(p));
        }
        f.push(spec.keys.len().to_string());
        for (i, k) in spec.keys.iter().enumerate() {
            f.push(esc(&k.name));
            f.push(esc(k.version.as_deref().unwrap_or("")));
            f.push(show_span(&span_of(i)));
        }
        let mut panicked = None;
        let obs = match &res {
            Err(p) => {
                panicked = Some(p.clone());
                "panic".to_string()
            }
            Ok(Ok(m)) => {
                out.count(&format!("result:ok{}", m.len().min(3)));
                let items: Vec<String> = m.iter().map(|(k, b)| format!("{}={}", keys.get_index_of(k).unwrap(), self.intern.tok(b))).collect();
                format!("ok {}", items.join(","))
            }
            Ok(Err(e)) => match e {
                Error::UnknownPackage { name, span } => {
                    out.count("result:UnknownPackage");
                    format!("err UnknownPackage {} {}", name, show_span(span))
                }
                Error::PackageResolutionFailure { name, span, .. } => {
                    out.count("result:PackageResolutionFailure");
                    format!("err PackageResolutionFailure {} {}", name, show_span(span))
                }
                other => format!("err Other {:?}", other.to_string()),
            },
        };
        f.push(esc(&obs));
        let id = out.case(nontrivial_hint, "fs", &f);
        if let Some(p) = panicked {
            out.fail(&id, "panic in FileSystemPackageResolver::resolve", &p);
        }
        fs::remove_dir_all(&root).ok();
        true
    }
}

// ------------------------------------------------------------------------------------------
// enumeration

fn key_path(k: &KeySpec) -> String {
    let mut p = String::from("deps");
    for s in k.name.split(':') {
        p.push('/');
        p.push_str(s);
    }
    if let Some(v) = &k.version {
        p.push('/');
        p.push_str(v);
    }
    p
}

pub const BASE_STATES: [Node; 6] = [Node::Absent, Node::Bin1, Node::DirWit1, Node::DirWit2, Node::DirWitBad, Node::DirEmpty];
pub const WAT_STATES: [Node; 7] = [Node::Absent, Node::Wat1, Node::Wat2, Node::WatBad, Node::Bin2, Node::DirWit1, Node::DirEmpty];
pub const WASM_STATES: [Node; 6] = [Node::Absent, Node::Bin1, Node::Wat1, Node::Empty, Node::DirWit2, Node::DirEmpty];

pub fn names() -> Vec<&'static str> {
    vec!["solo", "ns:pkg", "x:y:z"]
}
pub fn versions() -> Vec<Option<&'static str>> {
    vec![None, Some("1.2.3"), Some("0.0.1"), Some("1.0.0-rc.1"), Some("2.0.0+build.5"), Some("0.3.0-alpha.1+b7")]
}

/// (label, overrides for `name`, extra entries)
fn override_kinds(name: &str) -> Vec<(&'static str, Vec<(String, String)>, Vec<(String, Node)>)> {
    let n = name.to_string();
    vec![
        ("none", vec![], vec![]),
        ("file.wasm", vec![(n.clone(), "ov/o.wasm".into())], vec![("ov/o.wasm".into(), Node::Bin2)]),
        ("file.wat", vec![(n.clone(), "ov/o.wat".into())], vec![("ov/o.wat".into(), Node::Wat2)]),
        ("file.wat-bad", vec![(n.clone(), "ov/o.wat".into())], vec![("ov/o.wat".into(), Node::WatBad)]),
        ("file.wit", vec![(n.clone(), "ov/o.wit".into())], vec![("ov/o.wit".into(), Node::Wit1)]),
        ("file.wit-bad", vec![(n.clone(), "ov/o.wit".into())], vec![("ov/o.wit".into(), Node::WitBad)]),
        ("file-noext", vec![(n.clone(), "ov/o".into())], vec![("ov/o".into(), Node::Bin2)]),
        ("file-dotted", vec![(n.clone(), "ov/o.1.2".into())], vec![("ov/o.1.2".into(), Node::Wat1)]),
        ("dir", vec![(n.clone(), "ov/d.wit".into())], vec![("ov/d.wit".into(), Node::DirWit1)]),
        ("dangling", vec![(n.clone(), "ov/missing.wasm".into())], vec![]),
        ("other-name", vec![("other:name".into(), "ov/o.wasm".into())], vec![("ov/o.wasm".into(), Node::Bin2)]),
    ]
}

fn layout_entries(k: &KeySpec, b: Node, wt: Node, ws: Node) -> Vec<(String, Node)> {
    let base = key_path(k);
    vec![(base.clone(), b), (format!("{base}.wat"), wt), (format!("{base}.wasm"), ws)]
}

pub fn run(args: Args) {
    if args.extra.contains_key("prebuild") {
        match ensure_variants() {
            Ok(_) => return,
            Err(e) => {
                eprintln!("c18 --prebuild: {e}");
                std::process::exit(3);
            }
        }
    }
    quiet_panics();
    let shard = args.num("shard", 0);
    let nshards = args.num("nshards", 1).max(1);
    let scratch = small_util::scratch_base().join(format!("c18-{}-{}", std::process::id(), shard));
    let _ = fs::remove_dir_all(&scratch);
    let mut ctx = Ctx::new(scratch.clone());
    let mut out = Out::create(&args.out, &format!("c18-w{}i{}-s{}-", ctx.feat_wat as u8, ctx.feat_wit as u8, shard));
    out.count(&format!("features:wat={},wit={}", ctx.feat_wat as u8, ctx.feat_wit as u8));
    let mut r = Rng::new(args.seed ^ 0xC18);

    if let Some(path) = &args.replay {
        replay(&mut ctx, &mut out, path);
        out.finish();
        fs::remove_dir_all(&scratch).ok();
        if !args.extra.contains_key("no-variants") {
            for (wat, wit) in [(false, true), (false, false), (true, false)] {
                if let Err(e) = run_variant(&args, wat, wit) {
                    eprintln!("c18: feature variant wat={wat} wit={wit} failed: {e}");
                    std::process::exit(3);
                }
            }
        }
        return;
    }

    // `--stride n` keeps a pseudo-random 1/n of the enumeration (used for the feature variants in
    // the quick tier); the selection is a hash of the case index so that it does not alias with
    // the nesting of the loops
    let stride = args.num("stride", 1).max(1) as u64;
    let mut idx = 0usize;
    let mut mine = |idx: &mut usize| {
        *idx += 1;
        let h = (*idx as u64).wrapping_mul(0x9E3779B97F4A7C15) >> 33;
        *idx % nshards == shard && h % stride == 0
    };

    // 1. single key, exhaustive layouts
    // quick: three version shapes (none, release, pre-release+build); thorough: all six
    let version_shapes: Vec<Option<&'static str>> =
        if args.thorough() { versions() } else { vec![None, Some("1.2.3"), Some("0.3.0-alpha.1+b7")] };
    for name in names() {
        for ver in version_shapes.clone() {
            let key = KeySpec { name: name.into(), version: ver.map(|s| s.to_string()) };
            for (olabel, ovs, oentries) in override_kinds(name) {
                // the full layout product without an override; a representative subset with one
                let full = olabel == "none";
                for (bi, b) in BASE_STATES.iter().enumerate() {
                    for (wi, wt) in WAT_STATES.iter().enumerate() {
                        for (si, ws) in WASM_STATES.iter().enumerate() {
                            if !full && (bi * 7 + wi * 3 + si) % 9 != 0 {
                                continue;
                            }
                            for mode in [false, true] {
                                if !mine(&mut idx) {
                                    continue;
                                }
                                let mut entries = layout_entries(&key, *b, *wt, *ws);
                                entries.extend(oentries.iter().cloned());
                                let spec = CaseSpec { entries, overrides: ovs.clone(), keys: vec![key.clone()], error_on_unknown: mode };
                                out.count(&format!("override:{olabel}"));
                                out.count(if ver.is_some() { "key:versioned" } else { "key:unversioned" });
                                if wt.is_dir() && !b.is_dir() {
                                    out.count("layout:dir-at-.wat");
                                }
                                if ws.is_dir() && !b.is_dir() {
                                    out.count("layout:dir-at-.wasm");
                                }
                                let nontrivial = *b != Node::Absent || *wt != Node::Absent || *ws != Node::Absent || olabel != "none";
                                ctx.run_case(&mut out, &spec, nontrivial);
                            }
                        }
                    }
                }
            }
        }
    }

    // 2. several keys in one request: order, skipping, first error wins, shared directories
    let nmulti = if args.thorough() { 6000 } else { 1200 };
    let all_names = ["solo", "ns:pkg", "x:y:z", "ns:other", "x:y"];
    for _ in 0..nmulti {
        let take = mine(&mut idx);
        let nk = 2 + r.below(4);
        let mut keys: Vec<KeySpec> = Vec::new();
        let mut entries: Vec<(String, Node)> = Vec::new();
        let mut overrides: Vec<(String, String)> = Vec::new();
        for _ in 0..nk {
            let name = *r.pick(&all_names);
            let ver = if r.chance(1, 2) { None } else { *r.pick(&versions()) };
            let k = KeySpec { name: name.into(), version: ver.map(|s| s.to_string()) };
            if keys.iter().any(|o| o.name == k.name && o.version == k.version) {
                continue;
            }
            // bias towards loadable layouts so that requests get past the first key
            let b = if r.chance(1, 5) { *r.pick(&BASE_STATES) } else { Node::Absent };
            let wt = if r.chance(1, 3) { *r.pick(&WAT_STATES) } else { Node::Absent };
            let ws = if r.chance(2, 3) { *r.pick(&WASM_STATES) } else { Node::Absent };
            entries.extend(layout_entries(&k, b, wt, ws));
            if r.chance(1, 6) && !overrides.iter().any(|o| o.0 == k.name) {
                let kinds = override_kinds(name);
                let (_, ovs, oe) = r.pick(&kinds[1..]).clone();
                // distinct override file per package
                let tag = overrides.len();
                for (n, p) in ovs {
                    overrides.push((n, p.replace("ov/", &format!("ov{tag}/"))));
                }
                for (p, n) in oe {
                    entries.push((p.replace("ov/", &format!("ov{tag}/")), n));
                }
            }
            keys.push(k);
        }
        let mode = r.chance(1, 2);
        if !take || keys.len() < 2 {
            continue;
        }
        // an entry listed twice (same path from two keys) keeps its first state
        let mut seen = BTreeMap::new();
        entries.retain(|(p, _)| seen.insert(p.clone(), ()).is_none());
        let spec = CaseSpec { entries, overrides, keys, error_on_unknown: mode };
        out.count("multi");
        ctx.run_case(&mut out, &spec, true);
    }
    out.finish();
    fs::remove_dir_all(&scratch).ok();

    // 3. the same enumeration against wac-resolver built with the other feature sets
    if args.extra.contains_key("no-variants") {
        return;
    }
    for (i, (wat, wit)) in [(false, true), (false, false), (true, false)].into_iter().enumerate() {
        if (i + 1) % nshards != shard {
            continue;
        }
        if let Err(e) = run_variant(&args, wat, wit) {
            eprintln!("c18: feature variant wat={wat} wit={wit} failed: {e}");
            std::process::exit(3);
        }
    }
}

#[path = "small_util.rs"]
mod small_util;

const VARIANTS: [(bool, bool); 3] = [(false, true), (false, false), (true, false)];

/// The three other feature sets of wac-resolver: a generated workspace `$WACV_TARGET/c18x-ws`
/// of three packages that `#[path]`-include this core.  Built by `--prebuild 1`; a normal run
/// only checks the source stamp (and rebuilds under a file lock when it is stale).
pub fn ensure_variants() -> Result<Option<PathBuf>, String> {
    let Some(env) = small_util::env() else {
        eprintln!("c18: WACV_REPO/WACV_VERIF/WACV_TARGET not set, feature variants skipped");
        return Ok(None);
    };
    let ws = PathBuf::from(&env.target).join("c18x-ws");
    let products: Vec<PathBuf> = VARIANTS.iter().map(|(w, i)| ws.join("target/debug").join(format!("c18x-w{}i{}", *w as u8, *i as u8))).collect();
    let mut roots = small_util::repo_sources(&env, false);
    for h in ["lib.rs", "c18_core.rs", "small_util.rs"] {
        roots.push(PathBuf::from(&env.verif).join("harness/src").join(h));
    }
    let stamp = small_util::source_stamp(&roots, "c18x v2");
    let (repo, verif, ws2) = (env.repo.clone(), env.verif.clone(), ws.clone());
    small_util::ensure_built(&PathBuf::from(&env.target), "c18x-ws", &stamp, &products, move || {
        small_util::write_if_changed(
            &ws2.join("Cargo.toml"),
            "[workspace]\nmembers = [\"c18x-w0i1\", \"c18x-w0i0\", \"c18x-w1i0\"]\nresolver = \"2\"\n\n[profile.dev]\nopt-level = 1\ndebug = 1\n",
        );
        for (w, i) in VARIANTS {
            let n = format!("c18x-w{}i{}", w as u8, i as u8);
            let m = ws2.join(&n);
            let mut feats = Vec::new();
            if i {
                feats.push("\"wit\"");
            }
            if w {
                feats.push("\"wat\"");
            }
            let toml = format!(
                "[package]\nname = \"{n}\"\nversion = \"0.0.0\"\nedition = \"2021\"\npublish = false\n\n[dependencies]\n\
                 wac-types = {{ path = \"{repo}/crates/wac-types\" }}\n\
                 wac-resolver = {{ path = \"{repo}/crates/wac-resolver\", default-features = false, features = [{}] }}\n\
                 wit-component = \"0.247.0\"\nwit-parser = \"0.247.0\"\nwat = \"1.245.1\"\nsemver = \"1.0.22\"\nindexmap = \"2.2.6\"\nmiette = \"7.2.0\"\n\n\
                 [lints.rust]\nunexpected_cfgs = {{ level = \"allow\" }}\n",
                feats.join(", ")
            );
            small_util::write_if_changed(&m.join("Cargo.toml"), &toml);
            let main = format!(
                "#![allow(dead_code)]\n#[path = \"{verif}/harness/src/lib.rs\"]\nmod api;\n#[path = \"{verif}/harness/src/c18_core.rs\"]\nmod c18_core;\nfn main() {{\n    c18_core::run(api::Args::parse());\n}}\n"
            );
            small_util::write_if_changed(&m.join("src/main.rs"), &main);
        }
        if !ws2.join("Cargo.lock").exists() {
            fs::copy(PathBuf::from(&repo).join("Cargo.lock"), ws2.join("Cargo.lock")).map_err(|e| e.to_string())?;
        }
        // one package at a time: building them together would unify the features of wac-resolver
        for (w, i) in VARIANTS {
            let n = format!("c18x-w{}i{}", w as u8, i as u8);
            small_util::cargo(&ws2, &ws2.join("target"), &["-p", &n], Some("--cfg wac_verif"))?;
        }
        Ok(())
    })?;
    Ok(Some(ws))
}

/// run the variant binary over the (sampled) single-shard enumeration and append its case lines
fn run_variant(args: &Args, wat: bool, wit: bool) -> Result<(), String> {
    use std::io::Write;
    let Some(ws) = ensure_variants()? else { return Ok(()) };
    let name = format!("c18x-w{}i{}", wat as u8, wit as u8);
    let tmp = format!("{}.{}", args.out, name);
    let st = std::process::Command::new(ws.join("target/debug").join(&name))
        .args(["--tier", &args.tier, "--seed", &args.seed.to_string(), "--out", &tmp, "--shard", "0", "--nshards", "1", "--no-variants", "1"])
        .args(["--stride", if args.thorough() { "1" } else { "3" }])
        .args(args.replay.iter().flat_map(|r| ["--replay".to_string(), r.clone()]))
        .output()
        .map_err(|e| format!("run {name}: {e}"))?;
    if !st.status.success() {
        return Err(format!("{name} exited with {:?}:\n{}", st.status.code(), String::from_utf8_lossy(&st.stderr)));
    }
    let lines = fs::read(&tmp).map_err(|e| e.to_string())?;
    let mut f = fs::OpenOptions::new().append(true).open(&args.out).map_err(|e| e.to_string())?;
    f.write_all(&lines).map_err(|e| e.to_string())?;
    fs::remove_file(&tmp).ok();
    Ok(())
}

// ------------------------------------------------------------------------------------------
// replay: rebuild the layout described by the `CASE` lines of a replay file and run it again

fn unesc(s: &str) -> String {
    if s == "\\e;" {
        return String::new();
    }
    let mut out = String::new();
    let mut it = s.chars();
    while let Some(c) = it.next() {
        if c == '\\' {
            let hex: String = it.by_ref().take_while(|c| *c != ';').collect();
            if hex != "e" {
                out.push(char::from_u32(u32::from_str_radix(&hex, 16).unwrap_or(0x3f)).unwrap_or('?'));
            }
        } else {
            out.push(c);
        }
    }
    out
}

fn replay(ctx: &mut Ctx, out: &mut Out, path: &str) {
    // a replay line carries tokens, not contents: the layout is re-created structurally
    // (file vs directory, which paths) with contents chosen by extension, which reproduces the
    // decision row; the tokens of the original line are not needed for that.
    let text = fs::read_to_string(path).unwrap_or_default();
    for line in text.lines() {
        let Some(rest) = line.strip_prefix("CASE\t") else { continue };
        let parts: Vec<&str> = rest.split('\t').collect();
        // id N kind wat wit mode root nE ...
        if parts.len() < 9 || parts[2] != "fs" {
            continue;
        }
        let mode = parts[5] == "1";
        let mut i = 7;
        let ne: usize = parts[i].parse().unwrap_or(0);
        i += 1;
        let mut dirs = Vec::new();
        let mut files = Vec::new();
        for _ in 0..ne {
            let p = unesc(parts[i]);
            if parts[i + 1] == "D" {
                dirs.push((p, parts[i + 2] != "ERR"));
            } else {
                files.push(p);
            }
            i += 3;
        }
        let nc: usize = parts[i].parse().unwrap_or(0);
        i += 1 + 3 * nc;
        let no: usize = parts[i].parse().unwrap_or(0);
        i += 1;
        let mut overrides = Vec::new();
        for _ in 0..no {
            overrides.push((unesc(parts[i]), unesc(parts[i + 1])));
            i += 2;
        }
        let nk: usize = parts[i].parse().unwrap_or(0);
        i += 1;
        let mut keys = Vec::new();
        for _ in 0..nk {
            let v = unesc(parts[i + 1]);
            keys.push(KeySpec { name: unesc(parts[i]), version: if v.is_empty() { None } else { Some(v) } });
            i += 3;
        }
        let mut entries: Vec<(String, Node)> = Vec::new();
        for (d, ok) in &dirs {
            // a directory that held WIT sources is recognised by its children
            let has_wit = files.iter().any(|f| f.starts_with(&format!("{d}/")) && f.ends_with(".wit") && !f[d.len() + 1..].contains('/'));
            if !has_wit {
                entries.push((d.clone(), Node::DirEmpty));
            } else {
                entries.push((d.clone(), if *ok { Node::DirWit1 } else { Node::DirWitBad }));
            }
        }
        for f in &files {
            let parent_is_witdir = f.ends_with("/a.wit") || f.ends_with("/b.wit");
            if parent_is_witdir {
                continue;
            }
            let node = if f.ends_with(".wat") {
                Node::Wat1
            } else if f.ends_with(".wit") {
                Node::Wit1
            } else {
                Node::Bin1
            };
            entries.push((f.clone(), node));
        }
        let spec = CaseSpec { entries, overrides, keys, error_on_unknown: mode };
        ctx.run_case(out, &spec, true);
    }
}
