//! C20 core: `RegistryPackageResolver::resolve` against an in-process Warg server (as in
//! crates/wac-resolver/tests/support/mod.rs).  One server per run holding several packages with
//! several releases; each case is a request (ordered list of keys) resolved by a *fresh* client
//! (own storage, so every download really happens) on a runtime with 1, 2 or 4 worker threads.
//! Content sizes differ by three orders of magnitude so that download completion order varies.
//!
//! Case line (kind `reg`, see lean/Driver/C20.lean): the published registry, the request, the
//! result map in iteration order (= completion order) or the error variant + name/version/span.
use super::api::{esc, Args, Out, Rng};
use indexmap::IndexMap;
use miette::SourceSpan;
use semver::Version;
use std::path::{Path, PathBuf};
use std::time::Duration;
use tokio_util::sync::CancellationToken;
use wac_resolver::{Error, RegistryPackageResolver};
use wac_types::BorrowedPackageKey;
use warg_client::{
    storage::{ContentStorage, PublishEntry, PublishInfo},
    FileSystemClient,
};
use warg_crypto::signing::PrivateKey;
use warg_protocol::{operator::NamespaceState, registry::PackageName};
use warg_server::{policy::content::WasmContentPolicy, Config, Server};

const OPERATOR_KEY: &str = "ecdsa-p256:I+UlDo0HxyBBFeelhPPWmD+LnklOpqZDkrFP5VduASk=";
const SIGNING_KEY: &str = "ecdsa-p256:2CV1EpLaSYEn4In4OAEDAj5O4Hzu8AFAxgHXuG310Ew=";

/// (package, releases in publication order: (version, token, padding bytes))
fn catalogue() -> Vec<(&'static str, Vec<(&'static str, &'static str, usize)>)> {
    vec![
        ("test:a", vec![("1.0.0", "A100", 1_500_000), ("2.0.0", "A200", 40), ("1.5.0", "A150", 60_000), ("3.0.0-rc.1", "A300rc1", 10)]),
        ("test:b", vec![("0.1.0", "B010", 10)]),
        ("test:c", vec![]),
        ("test:d", vec![("1.1.0", "D110", 20), ("1.0.0", "D100", 700_000)]),
        // many small releases of one package: material for requests of more keys than any
        // batch / window / small-map size an implementation might use (9..20 keys)
        ("test:e", MANY.iter().map(|(v, t, pad)| (*v, *t, *pad)).collect()),
    ]
}

/// releases of `test:e` (version, token, padding), sizes mixed so completion order varies
const MANY: [(&str, &str, usize); 14] = [
    ("0.1.0", "E0100", 10),
    ("0.2.0", "E0200", 120_000),
    ("0.3.0", "E0300", 30),
    ("0.4.0", "E0400", 4_000),
    ("0.5.0", "E0500", 50),
    ("0.6.0", "E0600", 300_000),
    ("0.7.0", "E0700", 70),
    ("0.8.0", "E0800", 8_000),
    ("0.9.0", "E0900", 90),
    ("0.10.0", "E1000", 60_000),
    ("0.11.0", "E1100", 11),
    ("0.12.0", "E1200", 1_200),
    ("1.0.0", "E1000000", 25),
    ("1.1.0-beta.1", "E110b1", 15),
];

/// a component whose bytes are unique per token and about `pad` bytes long
fn content(token: &str, pad: usize) -> Vec<u8> {
    let filler: String = std::iter::repeat('x').take(pad).collect();
    wat::parse_str(format!("(component (core module (memory 64) (data (i32.const 0) \"{token}:{filler}\")))")).unwrap()
}

async fn publish(config: &warg_client::Config, name: &str, entries_in: Vec<(String, Vec<u8>)>, init: bool) -> anyhow::Result<()> {
    let client = FileSystemClient::new_with_config(None, config, None).await?;
    let name: PackageName = name.parse()?;
    let mut entries = Vec::new();
    if init {
        entries.push(PublishEntry::Init);
    }
    for (version, bytes) in entries_in {
        let digest = client
            .content()
            .store_content(Box::pin(futures::stream::once(async move { Ok(bytes.into()) })), None)
            .await?;
        entries.push(PublishEntry::Release { version: version.parse().unwrap(), content: digest });
    }
    let record_id = client
        .publish_with_info(&PrivateKey::decode(SIGNING_KEY.to_string()).unwrap(), PublishInfo { name: name.clone(), head: None, entries })
        .await?;
    client.wait_for_publish(&name, &record_id, Duration::from_millis(100)).await?;
    Ok(())
}

fn client_config(addr: &str, root: &Path) -> warg_client::Config {
    warg_client::Config {
        home_url: Some(addr.to_string()),
        registries_dir: Some(root.join("registries")),
        content_dir: Some(root.join("content")),
        namespace_map_path: Some(root.join("namespaces")),
        keyring_auth: false,
        keyring_backend: None,
        keys: Default::default(),
        ignore_federation_hints: false,
        disable_auto_accept_federation_hints: false,
        disable_auto_package_init: false,
        disable_interactive: true,
    }
}

#[derive(Clone, Debug, PartialEq, Eq)]
struct K {
    name: &'static str,
    version: Option<&'static str>,
}

fn pool() -> Vec<K> {
    let mut v = Vec::new();
    for (n, vs) in [
        ("test:a", vec![None, Some("1.0.0"), Some("2.0.0"), Some("1.5.0"), Some("3.0.0-rc.1"), Some("9.9.9")]),
        ("test:b", vec![None, Some("0.1.0"), Some("9.9.9")]),
        ("test:c", vec![None, Some("1.0.0")]),
        ("test:d", vec![None, Some("1.0.0"), Some("1.1.0")]),
        ("test:nope", vec![None, Some("1.0.0")]),
        ("test:a:x", vec![None]),
        ("Bad", vec![Some("1.0.0")]),
    ] {
        for ver in vs {
            v.push(K { name: n, version: ver });
        }
    }
    v
}

/// the keys of `test:e` (only used by the many-key requests, not by the exhaustive pair part)
fn pool_many() -> Vec<K> {
    let mut v = vec![K { name: "test:e", version: None }];
    for (ver, _, _) in MANY.iter() {
        v.push(K { name: "test:e", version: Some(*ver) });
    }
    v
}

fn span_of(i: usize) -> SourceSpan {
    SourceSpan::new((100 * i + 7).into(), i + 3)
}
fn show_span(s: &SourceSpan) -> String {
    format!("{}:{}", s.offset(), s.len())
}

fn permutations<T: Clone>(xs: &[T]) -> Vec<Vec<T>> {
    if xs.len() <= 1 {
        return vec![xs.to_vec()];
    }
    let mut out = Vec::new();
    for i in 0..xs.len() {
        let mut rest = xs.to_vec();
        let x = rest.remove(i);
        for mut p in permutations(&rest) {
            p.insert(0, x.clone());
            out.push(p);
        }
    }
    out
}

struct World {
    addr: String,
    root: PathBuf,
    registry_fields: Vec<String>,
    by_bytes: Vec<(Vec<u8>, String)>,
    n: u64,
}

impl World {
    fn token(&self, bytes: &[u8]) -> String {
        self.by_bytes.iter().find(|(b, _)| b == bytes).map(|(_, t)| t.clone()).unwrap_or_else(|| format!("UNKNOWN-{}-bytes", bytes.len()))
    }

    fn run_case(&mut self, out: &mut Out, request: &[K], workers: usize) {
        self.n += 1;
        let croot = self.root.join(format!("client{}", self.n));
        let config = client_config(&self.addr, &croot);
        let versions: Vec<Option<Version>> = request.iter().map(|k| k.version.map(|v| Version::parse(v).unwrap())).collect();
        let mut keys: IndexMap<BorrowedPackageKey, SourceSpan> = IndexMap::new();
        for (i, k) in request.iter().enumerate() {
            keys.insert(BorrowedPackageKey::from_name_and_version(k.name, versions[i].as_ref()), span_of(i));
        }
        let rt = tokio::runtime::Builder::new_multi_thread().worker_threads(workers).enable_all().build().unwrap();
        let res: Result<Result<IndexMap<BorrowedPackageKey, Vec<u8>>, Error>, String> = rt.block_on(async {
            let resolver = RegistryPackageResolver::new_with_config(None, &config, None).await.map_err(|e| format!("client: {e:#}"))?;
            Ok(resolver.resolve(&keys).await)
        });
        drop(rt);

        let mut f = self.registry_fields.clone();
        f.push(request.len().to_string());
        for (i, k) in request.iter().enumerate() {
            f.push(esc(k.name));
            f.push(esc(k.version.unwrap_or("")));
            f.push(show_span(&span_of(i)));
            f.push(if PackageName::new(k.name.to_string()).is_ok() { "1" } else { "0" }.into());
        }
        let mut infra = None;
        match res {
            Err(e) => {
                infra = Some(e);
                f.extend(["err".into(), "Infrastructure".into(), "\\e;".into(), "\\e;".into(), "\\e;".into()]);
            }
            Ok(Ok(m)) => {
                out.count(&format!("result:ok{}", if m.len() > 8 { "9+".to_string() } else { m.len().to_string() }));
                let order: Vec<usize> = m.keys().map(|k| keys.get_index_of(k).unwrap()).collect();
                if (2..=3).contains(&order.len()) {
                    // which completion orders were actually seen for small requests
                    out.count(&format!("order{}:{}", order.len(), order.iter().map(|i| i.to_string()).collect::<Vec<_>>().join("")));
                }
                if order.windows(2).all(|w| w[0] < w[1]) {
                    out.count("completion:in-request-order");
                } else {
                    out.count("completion:permuted");
                }
                f.push("ok".into());
                f.push(m.len().to_string());
                for (k, b) in &m {
                    f.push(keys.get_index_of(k).unwrap().to_string());
                    f.push(self.token(b));
                }
            }
            Ok(Err(e)) => {
                let (variant, name, version, span) = match &e {
                    Error::InvalidPackageName { name, span } => ("InvalidPackageName", name.clone(), String::new(), show_span(span)),
                    Error::PackageDoesNotExist { name, span } => ("PackageDoesNotExist", name.clone(), String::new(), show_span(span)),
                    Error::PackageVersionDoesNotExist { name, version, span } => ("PackageVersionDoesNotExist", name.clone(), version.to_string(), show_span(span)),
                    Error::PackageNoReleases { name, span } => ("PackageNoReleases", name.clone(), String::new(), show_span(span)),
                    Error::UnknownPackage { name, span } => ("UnknownPackage", name.clone(), String::new(), show_span(span)),
                    Error::RegistryUpdateFailure { .. } => ("RegistryUpdateFailure", format!("{e:?}"), String::new(), String::new()),
                    Error::RegistryDownloadFailure { .. } => ("RegistryDownloadFailure", format!("{e:?}"), String::new(), String::new()),
                    Error::RegistryContentFailure { .. } => ("RegistryContentFailure", format!("{e:?}"), String::new(), String::new()),
                    other => ("Other", format!("{other:?}"), String::new(), String::new()),
                };
                out.count(&format!("result:{variant}"));
                f.extend(["err".into(), variant.into(), esc(&name), esc(&version), esc(&span)]);
            }
        }
        let shared_names = {
            let mut names: Vec<&str> = request.iter().map(|k| k.name).collect();
            names.sort();
            names.windows(2).any(|w| w[0] == w[1])
        };
        if shared_names {
            out.count("request:keys-share-a-name");
        }
        out.count(&format!("request:{}keys", if request.len() > 8 { format!("9..20({})", if request.len() > 16 { ">16" } else { "<=16" }) } else { request.len().to_string() }));
        out.count(&format!("workers:{workers}"));
        let id = out.case(request.len() > 1, "reg", &f);
        if let Some(e) = infra {
            out.fail(&id, "registry client could not be created", &e);
        }
        std::fs::remove_dir_all(&croot).ok();
    }
}

pub fn run(args: Args) {
    let shard = args.num("shard", 0);
    let nshards = args.num("nshards", 1).max(1);
    let base = if Path::new("/dev/shm").is_dir() && std::fs::write(format!("/dev/shm/.wacv-probe-{}", std::process::id()), b"x").is_ok() {
        std::fs::remove_file(format!("/dev/shm/.wacv-probe-{}", std::process::id())).ok();
        PathBuf::from("/dev/shm")
    } else {
        std::env::temp_dir()
    };
    let root = base.join(format!("c20-{}-{}", std::process::id(), shard));
    let _ = std::fs::remove_dir_all(&root);
    std::fs::create_dir_all(&root).unwrap();
    let mut out = Out::create(&args.out, &format!("c20-s{shard}-"));

    // the server lives on its own runtime for the whole run
    let server_rt = tokio::runtime::Builder::new_multi_thread().worker_threads(2).enable_all().build().unwrap();
    let shutdown = CancellationToken::new();
    let (addr, server_task) = server_rt
        .block_on(async {
            let config = Config::new(
                PrivateKey::decode(OPERATOR_KEY.to_string())?,
                Some(vec![("test".to_string(), NamespaceState::Defined)]),
                root.join("server"),
            )
            .with_addr(([127, 0, 0, 1], 0))
            .with_shutdown(shutdown.clone().cancelled_owned())
            .with_checkpoint_interval(Duration::from_millis(50))
            .with_content_policy(WasmContentPolicy::default());
            let server = Server::new(config).initialize().await?;
            let addr = server.local_addr()?;
            let task = tokio::spawn(async move {
                server.serve().await.unwrap();
            });
            anyhow::Ok((format!("http://{addr}"), task))
        })
        .expect("start warg server");

    // publish the catalogue
    let pub_config = client_config(&addr, &root.join("publisher"));
    let mut registry_fields = Vec::new();
    let mut by_bytes = Vec::new();
    let cat = catalogue();
    registry_fields.push(cat.len().to_string());
    for (name, releases) in &cat {
        registry_fields.push(esc(name));
        registry_fields.push(releases.len().to_string());
        let mut init = true;
        if releases.is_empty() {
            server_rt.block_on(publish(&pub_config, name, vec![], true)).expect("publish init");
        }
        for (version, token, pad) in releases {
            let bytes = content(token, *pad);
            by_bytes.push((bytes.clone(), token.to_string()));
            registry_fields.push(esc(version));
            registry_fields.push(token.to_string());
            // one record per release, in catalogue order (so 1.5.0 is published after 2.0.0)
            server_rt.block_on(publish(&pub_config, name, vec![(version.to_string(), bytes)], init)).expect("publish release");
            init = false;
        }
    }

    let mut world = World { addr, root: root.clone(), registry_fields, by_bytes, n: 0 };
    let mut r = Rng::new(args.seed ^ 0xC20);
    let pool = pool();
    let mut requests: Vec<Vec<K>> = Vec::new();

    // (a) every single key; every ordered pair of keys that share a name; the §10 witness
    for k in &pool {
        requests.push(vec![k.clone()]);
    }
    for a in &pool {
        for b in &pool {
            if a != b && a.name == b.name {
                requests.push(vec![a.clone(), b.clone()]);
            }
        }
    }
    let w = |n: &'static str, v: Option<&'static str>| K { name: n, version: v };
    for p in permutations(&[w("test:a", Some("1.0.0")), w("test:a", Some("2.0.0")), w("test:b", None)]) {
        requests.push(p);
    }
    // (b) random sets of 2..6 keys, biased towards shared names and towards resolvable keys;
    //     all request orders for sets of up to 3 keys, 3 random orders otherwise
    let nsets = if args.thorough() { 5000 } else { args.num("sets", 60) };
    for _ in 0..nsets {
        let n = 2 + r.below(5);
        let mut set: Vec<K> = Vec::new();
        let mut guard = 0;
        while set.len() < n && guard < 100 {
            guard += 1;
            let k = if !set.is_empty() && r.chance(1, 2) {
                // another version of a name already requested
                let name = r.pick(&set).name;
                let same: Vec<&K> = pool.iter().filter(|p| p.name == name && (p.version != Some("9.9.9") || r.chance(1, 6))).collect();
                if same.is_empty() {
                    continue;
                }
                (*r.pick(&same)).clone()
            } else if r.chance(7, 8) {
                let good: Vec<&K> = pool.iter().filter(|p| matches!(p.name, "test:a" | "test:b" | "test:d") && p.version != Some("9.9.9")).collect();
                (*r.pick(&good)).clone()
            } else {
                r.pick(&pool).clone()
            };
            if !set.contains(&k) {
                set.push(k);
            }
        }
        if set.len() <= 3 {
            requests.extend(permutations(&set));
        } else {
            for _ in 0..3 {
                let mut s = set.clone();
                r.shuffle(&mut s);
                requests.push(s);
            }
        }
    }

    // (c) many keys in one request (9..20: more than one batch of any plausible batching of the
    //     downloads, and more tasks than worker threads): many versions of few packages, mostly
    //     resolvable (a failing key makes the whole request an error, which hides everything
    //     else), one failing key mixed in for 1 set in 5; two request orders each
    let many = pool_many();
    let good_small: Vec<K> = pool.iter().filter(|p| matches!(p.name, "test:a" | "test:b" | "test:d") && p.version != Some("9.9.9")).cloned().collect();
    let nmany = if args.thorough() { 400 } else { args.num("many", 8) };
    for _ in 0..nmany {
        let n = 9 + r.below(12);
        let mut set: Vec<K> = Vec::new();
        let mut guard = 0;
        while set.len() < n && guard < 400 {
            guard += 1;
            let k = if r.chance(2, 3) { r.pick(&many).clone() } else { r.pick(&good_small).clone() };
            if !set.contains(&k) {
                set.push(k);
            }
        }
        if r.chance(1, 5) {
            let bad: Vec<&K> = pool.iter().filter(|p| !good_small.contains(p)).collect();
            let k = (*r.pick(&bad)).clone();
            let at = r.below(set.len() + 1);
            set.insert(at, k);
        }
        for _ in 0..2 {
            let mut s = set.clone();
            r.shuffle(&mut s);
            requests.push(s);
        }
    }

    let replay_pool: Vec<K> = pool.iter().chain(many.iter()).cloned().collect();
    if let Some(path) = &args.replay {
        // replay: the requests of the CASE lines of the file
        requests.clear();
        let text = std::fs::read_to_string(path).unwrap_or_default();
        for line in text.lines() {
            let Some(rest) = line.strip_prefix("CASE\t") else { continue };
            let parts: Vec<&str> = rest.split('\t').collect();
            if parts.len() < 5 || parts[2] != "reg" {
                continue;
            }
            let mut i = 3;
            let np: usize = parts[i].parse().unwrap_or(0);
            i += 1;
            for _ in 0..np {
                let nr: usize = parts[i + 1].parse().unwrap_or(0);
                i += 2 + 2 * nr;
            }
            let nk: usize = parts[i].parse().unwrap_or(0);
            i += 1;
            let mut req = Vec::new();
            for _ in 0..nk {
                let name = parts[i];
                let ver = parts[i + 1];
                if let Some(k) = replay_pool.iter().find(|p| esc(p.name) == name && esc(p.version.unwrap_or("")) == ver) {
                    req.push(k.clone());
                }
                i += 4;
            }
            if !req.is_empty() {
                for _ in 0..3 {
                    requests.push(req.clone());
                }
            }
        }
    }

    for (i, req) in requests.iter().enumerate() {
        if i % nshards != shard {
            continue;
        }
        let workers = [1, 2, 4][(i / nshards) % 3];
        world.run_case(&mut out, req, workers);
    }
    out.finish();

    shutdown.cancel();
    server_rt.block_on(async move {
        server_task.await.ok();
    });
    drop(server_rt);
    std::fs::remove_dir_all(&root).ok();
}
