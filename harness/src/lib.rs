//! Shared pieces of the correspondence harness: one PRNG, the line protocol writer,
//! distribution counters.  Every binary in `src/bin` drives the *real* wac code in-process and
//! writes one case per line for the matching Lean driver (see lean/WacModel/Proto.lean).

use std::collections::BTreeMap;
use std::fmt::Write as _;
use std::io::Write;

/// SplitMix64: every random choice of a run derives from `VERIF_SEED`.
#[derive(Clone)]
pub struct Rng(pub u64);

impl Rng {
    pub fn new(seed: u64) -> Self {
        Rng(seed.wrapping_mul(0x9E3779B97F4A7C15) ^ 0xD1B54A32D192ED03)
    }
    pub fn next(&mut self) -> u64 {
        self.0 = self.0.wrapping_add(0x9E3779B97F4A7C15);
        let mut z = self.0;
        z = (z ^ (z >> 30)).wrapping_mul(0xBF58476D1CE4E5B9);
        z = (z ^ (z >> 27)).wrapping_mul(0x94D049BB133111EB);
        z ^ (z >> 31)
    }
    pub fn below(&mut self, n: usize) -> usize {
        if n == 0 {
            0
        } else {
            (self.next() % n as u64) as usize
        }
    }
    pub fn chance(&mut self, num: usize, den: usize) -> bool {
        self.below(den) < num
    }
    pub fn pick<'a, T>(&mut self, xs: &'a [T]) -> &'a T {
        &xs[self.below(xs.len())]
    }
    pub fn shuffle<T>(&mut self, xs: &mut [T]) {
        for i in (1..xs.len()).rev() {
            let j = self.below(i + 1);
            xs.swap(i, j);
        }
    }
    pub fn fork(&mut self) -> Rng {
        Rng(self.next())
    }
}

/// Escape one protocol field (inverse of `Wac.Proto.unescape`).
pub fn esc(s: &str) -> String {
    if s.is_empty() {
        return "\\e;".to_string();
    }
    let mut out = String::with_capacity(s.len());
    for c in s.chars() {
        let n = c as u32;
        if n > 0x20 && n < 0x7f && c != '\\' {
            out.push(c);
        } else {
            write!(out, "\\{:02x};", n).unwrap();
        }
    }
    out
}

pub struct Args {
    pub tier: String,
    pub seed: u64,
    pub out: String,
    pub replay: Option<String>,
    pub extra: BTreeMap<String, String>,
}

impl Args {
    /// `--tier quick|thorough --seed N --out FILE [--replay FILE] [--key value]*`
    pub fn parse() -> Args {
        let mut a = Args {
            tier: "quick".into(),
            seed: 0,
            out: "/dev/stdout".into(),
            replay: None,
            extra: BTreeMap::new(),
        };
        let v: Vec<String> = std::env::args().skip(1).collect();
        let mut i = 0;
        while i < v.len() {
            let k = v[i].trim_start_matches("--").to_string();
            let val = v.get(i + 1).cloned().unwrap_or_default();
            match k.as_str() {
                "tier" => a.tier = val,
                "seed" => a.seed = val.parse().unwrap_or(0),
                "out" => a.out = val,
                "replay" => a.replay = Some(val),
                _ => {
                    a.extra.insert(k, val);
                }
            }
            i += 2;
        }
        a
    }
    pub fn thorough(&self) -> bool {
        self.tier == "thorough"
    }
    pub fn num(&self, key: &str, default: usize) -> usize {
        self.extra.get(key).and_then(|s| s.parse().ok()).unwrap_or(default)
    }
}

/// Case writer.  Lines:
///   `<id>\t<N|T>\t<kind>\t<fields...>`   a case for the Lean driver (N = non-trivial by the stated rule)
///   `!FAIL\t<id>\t<signature>\t<detail>` an implementation-vs-oracle / panic failure decided by the harness itself
///   `#STAT\t<key>\t<count>`              distribution counters (written at the end)
pub struct Out {
    w: std::io::BufWriter<std::fs::File>,
    pub stats: BTreeMap<String, u64>,
    pub n: u64,
    prefix: String,
}

impl Out {
    pub fn create(path: &str, prefix: &str) -> Out {
        let f = std::fs::File::create(path).expect("create output");
        Out { w: std::io::BufWriter::new(f), stats: BTreeMap::new(), n: 0, prefix: prefix.to_string() }
    }
    pub fn count(&mut self, key: &str) {
        *self.stats.entry(key.to_string()).or_insert(0) += 1;
    }
    pub fn add(&mut self, key: &str, n: u64) {
        *self.stats.entry(key.to_string()).or_insert(0) += n;
    }
    /// `fields` must already be escaped.
    pub fn case(&mut self, nontrivial: bool, kind: &str, fields: &[String]) -> String {
        self.n += 1;
        let id = format!("{}{}", self.prefix, self.n);
        let mut line = format!("{}\t{}\t{}", id, if nontrivial { "N" } else { "T" }, kind);
        for f in fields {
            line.push('\t');
            line.push_str(f);
        }
        writeln!(self.w, "{}", line).unwrap();
        self.count(&format!("kind:{}", kind));
        id
    }
    pub fn fail(&mut self, id: &str, signature: &str, detail: &str) {
        writeln!(self.w, "!FAIL\t{}\t{}\t{}", id, esc(signature), esc(detail)).unwrap();
    }
    pub fn finish(mut self) {
        let stats = std::mem::take(&mut self.stats);
        for (k, v) in stats {
            writeln!(self.w, "#STAT\t{}\t{}", k, v).unwrap();
        }
        self.w.flush().unwrap();
    }
}

/// Run `f`, turning a panic into `Err(message)`.
pub fn guarded<T>(f: impl FnOnce() -> T + std::panic::UnwindSafe) -> Result<T, String> {
    match std::panic::catch_unwind(f) {
        Ok(v) => Ok(v),
        Err(e) => Err(if let Some(s) = e.downcast_ref::<&str>() {
            s.to_string()
        } else if let Some(s) = e.downcast_ref::<String>() {
            s.clone()
        } else {
            "panic".to_string()
        }),
    }
}

pub fn quiet_panics() {
    std::panic::set_hook(Box::new(|_| {}));
}

/// Inverse of `esc`.
pub fn unesc(s: &str) -> String {
    let mut out = String::new();
    let mut it = s.chars().peekable();
    while let Some(c) = it.next() {
        if c != '\\' {
            out.push(c);
            continue;
        }
        let mut hex = String::new();
        for d in it.by_ref() {
            if d == ';' {
                break;
            }
            hex.push(d);
        }
        if hex != "e" {
            if let Some(ch) = u32::from_str_radix(&hex, 16).ok().and_then(char::from_u32) {
                out.push(ch);
            }
        }
    }
    out
}

/// Cases of a replay file: every line `CASE\t<id>\t<N|T>\t<kind>\t<fields…>` of a replay report
/// written by the runner, or a raw case line `<id>\t<N|T>\t<kind>\t<fields…>` (corpus files).
/// Returns (kind, unescaped fields) per case.
pub fn replay_cases(path: &str) -> Vec<(String, Vec<String>)> {
    let text = std::fs::read_to_string(path).unwrap_or_default();
    let mut out = Vec::new();
    for line in text.lines() {
        let line = line.strip_prefix("CASE\t").unwrap_or(line);
        let parts: Vec<&str> = line.split('\t').collect();
        if parts.len() >= 3 && (parts[1] == "N" || parts[1] == "T") {
            out.push((parts[2].to_string(), parts[3..].iter().map(|f| unesc(f)).collect()));
        }
    }
    out
}
