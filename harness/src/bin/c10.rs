//! C10: `wac_graph::plug` on generated sockets and ordered lists of 1..4 plugs.
//!
//! Every case builds its own small universe from WAT text: a socket component and plug
//! components whose import / export names overlap (plain names, exact and semver-compatible
//! versioned interface names) and whose same-named items are type-compatible or not; idle
//! plugs; the same plug twice.  One protocol line per call (see lean/Driver/C10.lean).
//! Oracle decided here: `wasmparser::Validator` (all features) on every successful plug's
//! encoding (field `encode` of the observation: 1 valid, 2 encode error, 3 panic, 4 invalid).
#[path = "../graph_util.rs"]
mod graph_util;
use graph_util::*;
use std::panic::AssertUnwindSafe;
use wac_graph::{AliasError, ExportError, InstantiationArgumentError, PlugError};
use wacv::*;

#[derive(Clone, Copy, PartialEq, Debug)]
enum Shape {
    F0,
    F1,
    F2,
    I0,
    I1,
    I2,
}

impl Shape {
    fn is_func(self) -> bool {
        matches!(self, Shape::F0 | Shape::F1 | Shape::F2)
    }
    fn wat(self) -> &'static str {
        match self {
            Shape::F0 => "(func)",
            Shape::F1 => "(func (param \"p\" u32))",
            Shape::F2 => "(func (result u32))",
            Shape::I0 => "(instance (export \"f\" (func)))",
            Shape::I1 => "(instance (export \"f\" (func)) (export \"g\" (func)))",
            Shape::I2 => "(instance (export \"f\" (func (param \"p\" u32))))",
        }
    }
}

const PLAIN: [&str; 4] = ["a", "b", "c", "d"];
const VERSIONS: [&str; 9] = ["1.0.0", "1.2.0", "1.2.3", "2.0.0", "0.1.0", "0.1.5", "0.2.0", "0.0.1", "0.0.2"];
const BASES: [&str; 2] = ["x:y/i", "x:y/j"];

fn pick_name(r: &mut Rng, func: bool) -> String {
    if func {
        r.pick(&PLAIN).to_string()
    } else if r.chance(1, 8) {
        // an unversioned interface name
        r.pick(&BASES).to_string()
    } else {
        // a small pool of versions so that exact and semver-compatible matches are frequent
        let base = if r.chance(4, 5) { BASES[0] } else { BASES[1] };
        format!("{}@{}", base, r.pick(&VERSIONS))
    }
}

fn pick_shape(r: &mut Rng, func: bool) -> Shape {
    if func {
        *r.pick(&[Shape::F0, Shape::F0, Shape::F0, Shape::F1, Shape::F2])
    } else {
        *r.pick(&[Shape::I0, Shape::I0, Shape::I1, Shape::I1, Shape::I2])
    }
}

struct Comp {
    imports: Vec<(String, Shape)>,
    /// (export name, index into imports of the re-exported item)
    exports: Vec<(String, usize)>,
}

impl Comp {
    fn wat(&self) -> String {
        let mut s = String::from("(component\n");
        let (mut nf, mut ni) = (0, 0);
        let mut idx = Vec::new();
        for (n, sh) in &self.imports {
            s.push_str(&format!("  (import \"{n}\" {})\n", sh.wat()));
            if sh.is_func() {
                idx.push(nf);
                nf += 1;
            } else {
                idx.push(ni);
                ni += 1;
            }
        }
        for (n, k) in &self.exports {
            let sh = self.imports[*k].1;
            s.push_str(&format!("  (export \"{n}\" ({} {}))\n", if sh.is_func() { "func" } else { "instance" }, idx[*k]));
        }
        s.push(')');
        s
    }
}

fn gen_socket(r: &mut Rng) -> Comp {
    let mut c = Comp { imports: vec![], exports: vec![] };
    let n = 1 + r.below(4);
    while c.imports.len() < n {
        let func = r.chance(2, 5);
        let name = pick_name(r, func);
        if c.imports.iter().any(|(x, _)| *x == name) {
            continue;
        }
        let mut shape = pick_shape(r, func);
        // two imports of the socket itself on one semver track are merged into one import when
        // the result is encoded: keep their own types mergeable (that merge is C09's subject)
        if let Some((_, other)) = c.imports.iter().find(|(x, _)| wac_graph::types::are_semver_compatible(x, &name)) {
            if (*other == Shape::I2) != (shape == Shape::I2) {
                shape = *other;
            }
        }
        c.imports.push((name, shape));
    }
    for (j, out) in ["r1", "x:y/out@1.0.0", "r2"].iter().enumerate() {
        if !r.chance(1, 2) {
            continue;
        }
        let want_func = j != 1;
        let cands: Vec<usize> = (0..c.imports.len()).filter(|k| c.imports[*k].1.is_func() == want_func).collect();
        if let Some(k) = cands.first() {
            c.exports.push((out.to_string(), *k));
        }
    }
    c
}

fn gen_plug(r: &mut Rng, k: usize, socket: &Comp) -> Comp {
    let mut c = Comp { imports: vec![], exports: vec![] };
    let idle = r.chance(1, 6);
    let n = if idle { r.below(2) } else { 1 + r.below(3) };
    for j in 0..n {
        // an export: mostly aimed at a socket import (same name, or another version of it),
        // with the same or another shape
        let (name, shape) = if !idle && r.chance(3, 4) && !socket.imports.is_empty() {
            let (sn, ss) = r.pick(&socket.imports).clone();
            let name = if ss.is_func() || r.chance(1, 2) {
                sn
            } else {
                let base = sn.split('@').next().unwrap().to_string();
                format!("{}@{}", base, r.pick(&VERSIONS))
            };
            let shape = if r.chance(2, 3) { ss } else { pick_shape(r, ss.is_func()) };
            (name, shape)
        } else if idle {
            (format!("idle{k}x{j}"), Shape::F0)
        } else {
            let func = r.chance(1, 2);
            (pick_name(r, func), pick_shape(r, func))
        };
        if c.exports.iter().any(|(x, _)| *x == name) {
            continue;
        }
        c.imports.push((format!("p{k}z{j}"), shape));
        c.exports.push((name, c.imports.len() - 1));
    }
    // a private import that stays an import of the composition
    if r.chance(1, 3) {
        c.imports.push((format!("p{k}own"), Shape::F0));
    }
    c
}

fn plug_result(uni: &Uni, r: Result<Result<(), PlugError>, String>) -> Vec<String> {
    let n = |id: wac_graph::NodeId| -> i64 { id.to_string().parse().unwrap() };
    match r {
        Err(m) => vec!["panic".into(), esc(&m)],
        Ok(Ok(())) => vec!["ok".into()],
        Ok(Err(PlugError::NoPlugHappened)) => vec!["noplug".into()],
        Ok(Err(PlugError::GraphError { source })) => {
            let res = if let Some(e) = source.downcast_ref::<InstantiationArgumentError>() {
                match e {
                    InstantiationArgumentError::NodeIsNotAnInstantiation { node } => {
                        Res::Err("NodeIsNotAnInstantiation", vec![n(*node)])
                    }
                    InstantiationArgumentError::InvalidArgumentName { node, name, package } => {
                        Res::Err("InvalidArgumentName", vec![n(*node), uni.name_ix(name), uni.name_ix(package)])
                    }
                    InstantiationArgumentError::ArgumentTypeMismatch { name, .. } => {
                        Res::Err("ArgumentTypeMismatch", vec![uni.name_ix(name)])
                    }
                    InstantiationArgumentError::ArgumentAlreadyPassed { node, name } => {
                        Res::Err("ArgumentAlreadyPassed", vec![n(*node), uni.name_ix(name)])
                    }
                }
            } else if let Some(e) = source.downcast_ref::<AliasError>() {
                match e {
                    AliasError::NodeIsNotAnInstance { node, .. } => Res::Err("NodeIsNotAnInstance", vec![n(*node)]),
                    AliasError::InstanceMissingExport { node, export } => {
                        Res::Err("InstanceMissingExport", vec![n(*node), uni.name_ix(export)])
                    }
                }
            } else if let Some(e) = source.downcast_ref::<ExportError>() {
                match e {
                    ExportError::ExportAlreadyExists { name, node } => {
                        Res::Err("ExportAlreadyExists", vec![uni.name_ix(name), n(*node)])
                    }
                    ExportError::InvalidExportName { name, .. } => Res::Err("InvalidExportName", vec![uni.name_ix(name)]),
                }
            } else {
                Res::Err("Unknown", vec![])
            };
            let mut t = res.tokens();
            t[0] = "grapherr".into();
            t
        }
    }
}

/// one case from its description; returns false when the generated components are not valid
fn run_case(out: &mut Out, socket: &Comp, plugs: &[Comp], order: &[usize], reg_order: &[usize]) -> bool {
    // package 0 = socket, 1.. = plugs
    let mut pk: Vec<(String, Option<String>, String)> = vec![("test:socket".into(), None, socket.wat())];
    for (k, p) in plugs.iter().enumerate() {
        pk.push((format!("test:plug{k}"), None, p.wat()));
    }
    let mut names: Vec<String> = Vec::new();
    let mut add = |s: &str| {
        if !names.iter().any(|n| n == s) {
            names.push(s.to_string());
        }
    };
    for (n, _, _) in &pk {
        add(n);
    }
    for c in std::iter::once(socket).chain(plugs.iter()) {
        for (n, _) in &c.imports {
            add(n);
        }
        for (n, _) in &c.exports {
            add(n);
        }
    }
    for n in ["f", "g", "p"] {
        add(n);
    }
    let uni = match Uni::build_with(&pk, names, false) {
        Ok(u) => u,
        Err(e) => {
            out.count("gen:invalid-component");
            if std::env::var("C10_DEBUG").is_ok() {
                eprintln!("invalid: {e}\n{}", pk.iter().map(|p| p.2.clone()).collect::<Vec<_>>().join("\n"));
            }
            return false;
        }
    };
    let ctx = uni.ctx_tokens();
    let mut st = State::new(&uni);
    st.validate = true;
    let mut t: Vec<String> = Vec::new();
    let text = format!(
        "socket: {} | plugs: {} | order {:?}",
        socket.wat().replace('\n', " "),
        plugs.iter().map(|p| p.wat().replace('\n', " ")).collect::<Vec<_>>().join(" ; "),
        order
    );
    t.push(esc(&text));
    t.extend(ctx);
    // registrations
    t.push(reg_order.len().to_string());
    let mut ids: Vec<Option<(usize, usize)>> = vec![None; pk.len()];
    for d in reg_order {
        let op = Op::Reg(*d);
        let res = st.apply(&uni, &op);
        t.push(op.code().to_string());
        t.extend(op.nums().iter().map(|x| x.to_string()));
        t.extend(res.tokens());
        t.push("0".into());
        if let Res::OkPkg(s, g) = res {
            ids[*d] = Some((s, g));
        }
    }
    let plug_ids: Vec<(usize, usize)> = order.iter().map(|k| ids[k + 1].unwrap()).collect();
    let socket_id = ids[0].unwrap();
    t.push(plug_ids.len().to_string());
    for (s, g) in &plug_ids {
        t.push(s.to_string());
        t.push(g.to_string());
    }
    t.push(socket_id.0.to_string());
    t.push(socket_id.1.to_string());
    let pv: Vec<wac_graph::PackageId> = plug_ids.iter().map(|(s, g)| uni.pkg_id(*s, *g)).collect();
    let sv = uni.pkg_id(socket_id.0, socket_id.1);
    let g = &mut st.g;
    let r = guarded(AssertUnwindSafe(|| wac_graph::plug(g, pv, sv)));
    let class = match &r {
        Err(_) => "panic",
        Ok(Ok(())) => "ok",
        Ok(Err(PlugError::NoPlugHappened)) => "noplug",
        Ok(Err(PlugError::GraphError { .. })) => "grapherr",
    };
    out.count(&format!("result:{class}"));
    let is_ok = class == "ok";
    let panicked = class == "panic";
    t.extend(plug_result(&uni, r));
    st.refresh(&uni);
    t.push("1".into());
    let (obs, inv, qpanic) = st.observe(&uni, true);
    let enc = obs.last().cloned().unwrap_or_default();
    t.extend(obs);
    let nargs = st.dump.nodes.iter().map(|n| n.ins.iter().filter(|e| e.1 == 1).count()).sum::<usize>();
    out.add("arguments-supplied", nargs as u64);
    let id = out.case(is_ok || class == "grapherr", "plug", &t);
    if panicked {
        out.fail(&id, "plug panicked with registered packages", &text);
    }
    if !inv.is_empty() {
        out.fail(&id, "invariant violated after plug", &format!("{} | {text}", inv.join("; ")));
    }
    if let Some(m) = qpanic {
        out.fail(&id, "query panics after plug", &format!("{m} | {text}"));
    }
    if is_ok && enc != "1" {
        out.fail(
            &id,
            if enc == "4" {
                "validator rejects the encoding of a successful plug"
            } else {
                "a successful plug does not encode"
            },
            &text,
        );
    }
    true
}

fn main() {
    quiet_panics();
    let args = Args::parse();
    let shard = args.num("shard", 0);
    let nshards = args.num("nshards", 1).max(1);
    let mut out = Out::create(&args.out, &format!("c10-{}-", shard));
    let n = args.num("cases", if args.thorough() { 30_000 } else { 500 });
    let mut done = 0usize;
    let mut i = 0usize;
    while done < n / nshards + 1 && i < 20 * n {
        let mut r = Rng::new(args.seed.wrapping_mul(104_729).wrapping_add((i * nshards + shard) as u64 + 1));
        i += 1;
        let socket = gen_socket(&mut r);
        let nplugs = 1 + r.below(4);
        let plugs: Vec<Comp> = (0..nplugs).map(|k| gen_plug(&mut r, k, &socket)).collect();
        // the ordered plug list: usually each plug once, sometimes shuffled, rarely one twice
        let mut order: Vec<usize> = (0..nplugs).collect();
        if r.chance(1, 2) {
            r.shuffle(&mut order);
        }
        if r.chance(1, 12) {
            let k = *r.pick(&order);
            order.push(k);
        }
        // registration order is independent of the plug order
        let mut reg_order: Vec<usize> = (0..=nplugs).collect();
        if r.chance(1, 2) {
            r.shuffle(&mut reg_order);
        }
        if run_case(&mut out, &socket, &plugs, &order, &reg_order) {
            done += 1;
        }
    }
    out.finish();
}
