//! C13: printing a parsed document and re-parsing it gives the same document; printing is
//! idempotent.
//!
//! For every accepted document (grammar-generated with randomised layout and comments, every
//! `.wac` file of the repository, hand-written ones) the harness itself decides, with the real
//! code only:
//!   * `DocumentPrinter` output parses;
//!   * the second tree equals the first up to source positions and doc-comment line splitting
//!     (doc comments compared as the list of their trimmed lines, an empty comment being one
//!     empty line);
//!   * printing the second tree reproduces the first output byte for byte.
//! Each case `print <source> <printed>` is also sent to the Lean driver, which compares the
//! printed text with the model printer applied to the model parser's tree (MODEL) and checks with
//! the grammar specification that the printed text is a document with the same derivation tree
//! as the source (SPEC).
#[path = "../parse_obs.rs"]
mod parse_obs;
#[path = "../wacgen.rs"]
mod wacgen;
use parse_obs::*;
use serde_json::Value;
use wac_parser::{Document, DocumentPrinter};
use wacgen::*;
use wacv::*;

fn print_doc(doc: &Document, source: &str) -> String {
    let mut s = String::new();
    DocumentPrinter::new(&mut s, source, None).document(doc).expect("print");
    s
}

/// spans removed, doc comments replaced by their trimmed lines
fn normalise(v: &Value) -> Value {
    match v {
        Value::Array(a) => Value::Array(a.iter().map(normalise).collect()),
        Value::Object(m) => {
            if is_span(v).is_some() {
                return Value::Null;
            }
            let mut out = serde_json::Map::new();
            for (k, x) in m {
                if k == "span" {
                    continue;
                }
                if k == "docs" {
                    let mut lines = Vec::new();
                    for d in x.as_array().map(|a| a.as_slice()).unwrap_or(&[]) {
                        let c = d.get("comment").and_then(|c| c.as_str()).unwrap_or("");
                        if c.is_empty() {
                            lines.push(Value::String(String::new()));
                        } else {
                            for l in c.lines() {
                                lines.push(Value::String(l.trim().to_string()));
                            }
                        }
                    }
                    out.insert(k.clone(), Value::Array(lines));
                    continue;
                }
                out.insert(k.clone(), normalise(x));
            }
            Value::Object(out)
        }
        x => x.clone(),
    }
}

struct Ctx {
    out: Out,
}

impl Ctx {
    fn case(&mut self, src: &str, origin: &str) {
        let s = src.to_string();
        let r = guarded(move || {
            let doc = match Document::parse(&s) {
                Ok(d) => d,
                Err(_) => return None,
            };
            let p1 = print_doc(&doc, &s);
            let v1 = normalise(&serde_json::to_value(&doc).unwrap());
            let second = match Document::parse(&p1) {
                Ok(d2) => {
                    let v2 = normalise(&serde_json::to_value(&d2).unwrap());
                    let p2 = print_doc(&d2, &p1);
                    Ok((v1 == v2, p2, v1.to_string(), v2.to_string()))
                }
                Err(e) => Err(err_str(&e).0),
            };
            Some((p1, second))
        });
        match r {
            Err(p) => {
                let id = self.out.case(true, "print", &[esc(src), "PANIC".into()]);
                self.out.fail(&id, "parse/print panicked", &format!("{} source={:?}", p, src));
            }
            Ok(None) => {
                self.out.count("skipped:not-accepted");
            }
            Ok(Some((p1, second))) => {
                self.out.count(&format!("origin:{}", origin));
                for (key, pat) in [("targets", " targets "), ("fill", "..."), ("static", "static "), ("constructor", "constructor("), ("use-as", " as "), ("with", " with {"), ("percent", "%"), ("version", "@"), ("docs", "///"), ("string", "\"")] {
                    if p1.contains(pat) || (key == "targets" && src.contains("targets")) {
                        self.out.count(&format!("construct:{}", key));
                    }
                }
                let id = self.out.case(true, "print", &[esc(src), esc(&p1)]);
                match second {
                    Err(e) => self.out.fail(&id, "printed document does not parse", &format!("error={} printed={:?} source={:?}", e, p1, src)),
                    Ok((same, p2, t1, t2)) => {
                        if !same {
                            self.out.fail(&id, "re-parsed tree differs from the original (up to spans and doc-comment line splitting)", &format!("printed={:?} source={:?} original={} reparsed={}", p1, src, t1, t2));
                        } else if p2 != p1 {
                            self.out.fail(&id, "printing is not idempotent", &format!("first={:?} second={:?} source={:?}", p1, p2, src));
                        }
                    }
                }
            }
        }
    }
}

const HAND: &[&str] = &[
    "package foo:bar targets a:b/c;",
    "package foo:bar@1.0.0 targets a:b/c@2.0.0;\nlet x = y;",
    "package foo:bar; let x = new a:b { ..., c };",
    "package foo:bar; let x = new a:b { c, ..., d: e, ...f };",
    "package foo:bar; let x = new a:b { ... };",
    "package foo:bar; let x = new a:b { ...c };",
    "package foo:bar; let x = new a:b { ...c, ... };",
    "package foo:bar;\n/** a\n\n b */\nlet x = y;",
    "package foo:bar;\n///\nlet x = y;",
    "package foo:bar;\n/***/\nlet x = y;",
    "package foo:bar;\n/// a\n///\n/// b\nlet x = y;",
    "/// \u{a0}x\u{a0}\n/** l1\r\n   l2  \n\n\n   l3 */\npackage foo:bar;",
    "package foo:bar; interface i { resource r; resource s { constructor(a: u8); m: static func() -> u8; n: func(); } }",
    "package foo:bar; interface i { use a:b/c@1.0.0.{x as y, z}; use w.{}; }",
    "package foo:bar; world w { include a:b/c with { a as b, c as d }; include x; import i: interface { f: func(); }; export %type: func(%use: u8); }",
    "package foo:bar; import %import as \"with space\": func(a: tuple<u8, list<option<result<_, string>>>>) -> borrow<%r>;",
    "package foo:bar; type r = result<_>; type s = result<u8, _>; type t = result<_, _>;",
    "package foo:bar; export (x.y[\"z\"]).w...; export new a:b@1.2.3-rc.1+b { \"n\": (new c:d {}), }[\"q\"] as \"out\";",
    "package foo:bar; variant v { /// doc a\n a, /** doc b */ b(u8), } record r { /// f\n f: u8 } flags f { /// x\n x } enum e { /// y\n y }",
];

fn main() {
    let args = Args::parse();
    quiet_panics();
    let shard = args.num("shard", 0);
    let nshards = args.num("nshards", 1).max(1);
    let mut r = Rng::new(args.seed.wrapping_mul(1_000_003).wrapping_add(shard as u64 + 77));
    let mut cx = Ctx { out: Out::create(&args.out, &format!("c13-{}-", shard)) };

    if let Some(path) = &args.replay {
        let text = std::fs::read_to_string(path).unwrap_or_default();
        for line in text.lines() {
            let parts: Vec<&str> = line.split('\t').collect();
            if parts.first() == Some(&"CASE") && parts.len() >= 5 {
                cx.case(&unesc_field(parts[4]), "replay");
            }
        }
        cx.out.finish();
        return;
    }
    let thorough = args.thorough();
    if shard == 0 {
        for s in HAND {
            cx.case(s, "hand-written");
        }
        for doc in SHOWCASE {
            let toks: Vec<String> = doc.split(' ').map(String::from).collect();
            cx.case(doc, "showcase");
            for _ in 0..20 {
                let t = layout(&mut r, &toks);
                cx.case(&t, "showcase");
            }
        }
        let repo = std::env::var("WACV_REPO").unwrap_or_else(|_| "/repo".into());
        for p in wac_files(&repo) {
            if let Ok(src) = std::fs::read_to_string(&p) {
                cx.case(&src, "repo-file");
            }
        }
    }
    let ndocs = args.num("docs", if thorough { 50_000 } else { 2_000 }) / nshards;
    for _ in 0..ndocs {
        let doc = {
            let mut g = Gen::new(&mut r);
            g.bad_version_permille = 0;
            g.document(5)
        };
        let src = if r.chance(1, 4) { layout_plain(&doc.toks) } else { layout(&mut r, &doc.toks) };
        cx.case(&src, "generated");
    }
    cx.out.finish();
}

fn unesc_field(s: &str) -> String {
    let mut out = String::new();
    let mut it = s.chars();
    while let Some(c) = it.next() {
        if c == '\\' {
            let mut h = String::new();
            for d in it.by_ref() {
                if d == ';' {
                    break;
                }
                h.push(d);
            }
            if h == "e" {
                continue;
            }
            if let Some(ch) = u32::from_str_radix(&h, 16).ok().and_then(char::from_u32) {
                out.push(ch);
            }
        } else {
            out.push(c);
        }
    }
    out
}
