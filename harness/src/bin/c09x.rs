//! C09 explicit witnesses: a fixed list of requirement lists run through the real
//! `TypeAggregator::aggregate` in ALL permutations (same `agg` case line format as `c09.rs`),
//! plus a human-readable summary of every permutation on stderr (merged imports rendered as
//! `D`, and the real `SubtypeChecker`'s answer to "merged import <: contributor j").
//!
//! case `agg`: <n> (<types> <name> <kind>)*n  <p> ( <perm: i0.i1...> <res> )*p
//!   res = `ok` <aggregator types> <k> (<import name> <kind>)*k <canonical name of contributor j>*n
//!       | `err` <step> <message>   | `panic` <step> <message>
//!
//! usage: c09x --out FILE     (ids: c09x-1 .. c09x-5 = W1 .. W5)
//!
//! `c09.rs` emits the same five witnesses as the first cases of shard 0 of every `./check C09` run
//! (keep the two `witnesses()` lists in step).
#[path = "../tree.rs"]
mod tree;

use std::collections::HashSet;
use tree::*;
use wac_types::{ItemKind, SubtypeChecker, TypeAggregator, Types};
use wacv::*;

struct Req {
    types: std::rc::Rc<Types>,
    tid: usize,
    name: String,
    kind: ItemKind,
}

fn permutations(n: usize) -> Vec<Vec<usize>> {
    fn go(cur: &mut Vec<usize>, used: &mut Vec<bool>, n: usize, out: &mut Vec<Vec<usize>>) {
        if cur.len() == n {
            out.push(cur.clone());
            return;
        }
        for i in 0..n {
            if !used[i] {
                used[i] = true;
                cur.push(i);
                go(cur, used, n, out);
                cur.pop();
                used[i] = false;
            }
        }
    }
    let mut out = Vec::new();
    go(&mut Vec::new(), &mut vec![false; n], n, &mut out);
    out
}

fn run_perm(reqs: &[Req], perm: &[usize], fields: &mut Vec<String>, out: &mut Out, label: &str) -> &'static str {
    let names: Vec<String> = reqs.iter().map(|r| r.name.clone()).collect();
    let res = guarded(std::panic::AssertUnwindSafe(|| {
        let mut cache = HashSet::new();
        let mut checker = SubtypeChecker::new(&mut cache);
        let mut agg = TypeAggregator::default();
        for (step, &i) in perm.iter().enumerate() {
            let r = &reqs[i];
            match agg.aggregate(&r.name, &r.types, r.kind, &mut checker) {
                Ok(a) => agg = a,
                Err(e) => return Err((step, format!("{e:#}"))),
            }
        }
        let imports: Vec<(String, ItemKind)> = agg.imports().map(|(n, k)| (n.to_string(), k)).collect();
        let canon: Vec<String> = names.iter().map(|n| agg.canonical_import_name(n).to_string()).collect();
        let human: Vec<String> =
            imports.iter().map(|(n, k)| format!("import {n:?} : {} = {:?}", ser_kind(*k), kind_to_d(agg.types(), *k))).collect();
        // real-code soundness check: the merged import must satisfy (be a subtype of) every
        // contributor's requirement; fresh checker + cache per question
        let mut human = human;
        for (j, r) in reqs.iter().enumerate() {
            let merged = imports.iter().find(|(n, _)| *n == canon[j]).map(|(_, k)| *k);
            let verdict = match merged {
                None => "no import under the canonical name".to_string(),
                Some(k) => {
                    let mut c2 = HashSet::new();
                    match SubtypeChecker::new(&mut c2).is_subtype(k, agg.types(), r.kind, &r.types) {
                        Ok(()) => "yes".to_string(),
                        Err(e) => format!("NO ({e:#})"),
                    }
                }
            };
            human.push(format!("real SubtypeChecker: merged {:?} <: contributor {j} ? {verdict}", canon[j]));
        }
        Ok((ser_types(agg.types(), 0), imports, canon, human))
    }));
    let perm_s = perm.iter().map(|i| i.to_string()).collect::<Vec<_>>().join(".");
    fields.push(perm_s.clone());
    match res {
        Ok(Ok((types, imports, canon, human))) => {
            eprintln!("  [{label}] perm {perm_s}: ok, {} import(s), canonical names {canon:?}", imports.len());
            for h in &human {
                eprintln!("      {h}");
            }
            eprintln!("      aggregator types: {types}");
            fields.push("ok".into());
            fields.push(esc(&types));
            fields.push(imports.len().to_string());
            for (n, k) in imports {
                fields.push(esc(&n));
                fields.push(esc(&ser_kind(k)));
            }
            for c in canon {
                fields.push(esc(&c));
            }
            "ok"
        }
        Ok(Err((step, msg))) => {
            eprintln!("  [{label}] perm {perm_s}: err at step {step}: {msg}");
            fields.push("err".into());
            fields.push(step.to_string());
            fields.push(esc(&msg));
            "err"
        }
        Err(p) => {
            eprintln!("  [{label}] perm {perm_s}: PANIC: {p}");
            let id = format!("agg-{}", out.n + 1);
            out.fail(&id, "TypeAggregator::aggregate panicked", &format!("{p} :: perm {perm:?} names {names:?}"));
            fields.push("panic".into());
            fields.push("0".into());
            fields.push(esc(&p));
            "panic"
        }
    }
}

fn emit(out: &mut Out, reqs: &[Req], label: &str) {
    let mut fields = vec![reqs.len().to_string()];
    for r in reqs {
        fields.push(esc(&ser_types(&r.types, 1 + r.tid as u64)));
        fields.push(esc(&r.name));
        fields.push(esc(&ser_kind(r.kind)));
    }
    let perms = permutations(reqs.len());
    fields.push(perms.len().to_string());
    let mut outcomes = HashSet::new();
    for p in &perms {
        outcomes.insert(run_perm(reqs, p, &mut fields, out, label));
    }
    out.add("permutations", perms.len() as u64);
    out.count(&format!("gen:{label}"));
    for o in &outcomes {
        out.count(&format!("outcome:{o}"));
    }
    if outcomes.len() > 1 {
        out.count("outcome:order-dependent");
    }
    let id = out.case(true, "agg", &fields);
    eprintln!("  [{label}] emitted as case {id}");
}

fn f0() -> D {
    func(false, &[], None)
}

fn inst(es: &[(&str, D)]) -> D {
    D::Instance(named(es))
}

fn ty(d: D) -> D {
    D::Type(Box::new(d))
}

fn witnesses() -> Vec<(&'static str, Vec<(&'static str, D)>)> {
    let w1a = inst(&[("t", ty(inst(&[("a", f0())])))]);
    let w1b = inst(&[("t", ty(inst(&[("a", f0()), ("b", f0())])))]);
    let w1c = inst(&[("t", ty(inst(&[("c", f0())])))]);
    vec![
        ("W1-type-export-of-instance-type", vec![("i", w1a.clone()), ("i", w1b.clone())]),
        ("W2-type-export-of-instance-type-3", vec![("i", w1a), ("i", w1b), ("i", w1c)]),
        (
            "W3-nested-instance-export",
            vec![
                ("i", inst(&[("x", inst(&[("a", f0())]))])),
                ("i", inst(&[("x", inst(&[("a", f0()), ("b", f0())]))])),
            ],
        ),
        ("W4-flat", vec![("i", inst(&[("a", f0())])), ("i", inst(&[("b", f0())]))]),
        (
            "W5-type-export-of-component-type",
            vec![
                ("i", inst(&[("t", ty(D::Component(vec![], named(&[("a", f0())]))))])),
                ("i", inst(&[("t", ty(D::Component(vec![], named(&[("a", f0()), ("b", f0())]))))])),
            ],
        ),
    ]
}

fn main() {
    quiet_panics();
    let args = Args::parse();
    let mut out = Out::create(&args.out, "c09x-");
    for (label, reqs_d) in witnesses() {
        eprintln!("== {label}");
        let mut reqs = Vec::new();
        for (i, (name, d)) in reqs_d.iter().enumerate() {
            // every contributor has its own fresh collection
            let mut t = Types::default();
            let kind = Builder::new(&mut t, false).kind(d);
            eprintln!("  contributor {i}: {name:?} : {} = {d:?}", ser_kind(kind));
            eprintln!("      types: {}", ser_types(&t, 1 + i as u64));
            reqs.push(Req { types: std::rc::Rc::new(t), tid: i, name: name.to_string(), kind });
        }
        emit(&mut out, &reqs, label);
    }
    out.finish();
}
