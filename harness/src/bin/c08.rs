//! C08: decoding a package preserves its component type; re-encoding stays satisfiable.
//!
//! For every generated component (WIT worlds compiled with wit-component's dummy module, and
//! shaped WAT) one case line
//!     decode <src-kind> <source> <W> <A> <world> <instance-type> <definitions>
//! where `W` is the validator's own view of the component type (independent walk, see
//! decode_util.rs) and `A` is what `Package::from_bytes` produced, read through the public
//! `Types` API.  The Lean driver evaluates the specification (tree of W = tree of A, resource
//! identity, `uses` provenance, instance type = exports) and the decode model on `W`.
//! Oracles decided here (`Out::fail`): a panic or error of `from_bytes` on a valid component,
//! a panic/error of the encoder with dependencies imported, the reference validator rejecting
//! the composition, `actual component type <: unlocked-dep import type` being false, and the
//! composition with the real component substituted being invalid.
#[path = "../decode_gen.rs"]
mod decode_gen;
#[path = "../decode_util.rs"]
mod decode_util;
#[path = "../tree.rs"]
mod tree;
use decode_gen::*;
use decode_util::*;
use wacv::*;

const SEP: &str = "\n//--- package ---\n";

pub fn component_from_wit(texts: &[String], world: &str) -> Result<Vec<u8>, String> {
    let mut resolve = wit_parser::Resolve::default();
    let mut last = None;
    for (i, t) in texts.iter().enumerate() {
        last = Some(resolve.push_str(format!("gen{i}.wit"), t).map_err(|e| format!("wit: {e:#}"))?);
    }
    let pkg = last.ok_or("no package")?;
    let world = resolve.select_world(&[pkg], Some(world)).map_err(|e| format!("world: {e:#}"))?;
    let mut module = wit_component::dummy_module(&resolve, world, wit_parser::ManglingAndAbi::Standard32);
    wit_component::embed_component_metadata(&mut module, &resolve, world, wit_component::StringEncoding::UTF8)
        .map_err(|e| format!("embed: {e:#}"))?;
    wit_component::ComponentEncoder::default()
        .validate(true)
        .module(&module)
        .map_err(|e| format!("module: {e:#}"))?
        .encode()
        .map_err(|e| format!("encode: {e:#}"))
}

struct Case {
    kind: &'static str,
    /// source text (WIT packages joined by SEP, first line `// world: <name>`; or WAT)
    src: String,
    feats: Vec<&'static str>,
}

/// the component `inner` as the only item of an outer component (a nested component section):
/// the inner component's own nested modules/components are then two levels deep and its
/// import/export sections follow them, which a decoder must not mistake for the package's own
fn nest(inner: &[u8]) -> Vec<u8> {
    let mut c = wasm_encoder::Component::new();
    c.section(&wasm_encoder::RawSection { id: wasm_encoder::ComponentSectionId::Component as u8, data: inner });
    c.finish()
}

fn build(case: &Case) -> Result<Vec<u8>, String> {
    if let Some(k) = case.kind.strip_suffix("-nested") {
        let k: &'static str = if k == "wat" { "wat" } else { "wit" };
        let inner = build(&Case { kind: k, src: case.src.clone(), feats: vec![] })?;
        return Ok(nest(&inner));
    }
    if case.kind == "wat" {
        wat::parse_str(&case.src).map_err(|e| format!("wat: {e}"))
    } else {
        let (first, rest) = case.src.split_once('\n').ok_or("no header")?;
        let world = first.strip_prefix("// world: ").ok_or("no world header")?;
        let texts: Vec<String> = rest.split(SEP).map(|s| s.to_string()).collect();
        component_from_wit(&texts, world)
    }
}

/// signatures of the failures (`!FAIL`) a case produces, for the minimiser
fn failure_signatures(case: &Case) -> Vec<String> {
    let tmp = format!("/tmp/c08-min-{}.txt", std::process::id());
    let mut out = Out::create(&tmp, "m");
    run_case(&mut out, case);
    out.finish();
    let text = std::fs::read_to_string(&tmp).unwrap_or_default();
    let _ = std::fs::remove_file(&tmp);
    text.lines()
        .filter_map(|l| l.strip_prefix("!FAIL\t"))
        .map(|l| unesc(l.split('\t').nth(1).unwrap_or("")).chars().take(48).collect())
        .collect()
}

/// line-based delta debugging: the smallest source (by lines) that still shows `sig`
fn minimize(case: &Case, sig: &str) -> String {
    let mut lines: Vec<String> = case.src.lines().map(|s| s.to_string()).collect();
    let still = |ls: &Vec<String>| {
        let c = Case { kind: case.kind, src: ls.join("\n"), feats: vec![] };
        failure_signatures(&c).iter().any(|s| s == sig)
    };
    let mut chunk = (lines.len() / 2).max(1);
    loop {
        let mut i = 0;
        let mut progressed = false;
        while i < lines.len() {
            let end = (i + chunk).min(lines.len());
            let mut cand = lines.clone();
            cand.drain(i..end);
            if !cand.is_empty() && still(&cand) {
                lines = cand;
                progressed = true;
            } else {
                i = end;
            }
        }
        if chunk == 1 && !progressed {
            break;
        }
        if !progressed || chunk > 1 {
            chunk = (chunk / 2).max(1);
        }
    }
    lines.join("\n")
}

/// `Out::fail` with the input appended to the detail as a `CASE` line, so that the replay file
/// written by the runner can be re-run with `--replay` (the runner only copies the id of a
/// harness-decided failure)
fn fail_with_input(out: &mut Out, case: &Case, id: &str, signature: &str, detail: &str) {
    let d = format!("{detail}\nCASE\t{id}\tN\tdecode\t{}\t{}", esc(case.kind), esc(&case.src));
    out.fail(id, signature, &d);
}

fn run_case(out: &mut Out, case: &Case) {
    let bytes = match guarded(|| build(case)) {
        Ok(Ok(b)) => b,
        Ok(Err(e)) => {
            out.count(&format!("gen-rejected:{}", case.kind));
            let key: String = e.chars().take(60).collect();
            out.count(&format!("gen-rejected-why:{}", key.replace(['\t', '\n'], " ")));
            if std::env::var("C08_SHOW_INVALID").is_ok() {
                eprintln!("REJECTED {e}\n{}", case.src);
            }
            return;
        }
        Err(_) => {
            out.count(&format!("gen-panicked:{}", case.kind));
            return;
        }
    };
    // only valid components are in scope
    let (w, wcounts) = match walk_component(&bytes) {
        Ok(x) => x,
        Err(e) => {
            out.count(&format!("gen-invalid:{}", case.kind));
            let key: String = e.chars().take(60).collect();
            out.count(&format!("gen-invalid-why:{}", key.replace(['\t', '\n'], " ")));
            if std::env::var("C08_SHOW_INVALID").is_ok() {
                eprintln!("INVALID {e}\n{}", case.src);
            }
            return;
        }
    };
    for f in &case.feats {
        out.count(&format!("feat:{f}"));
    }
    for (k, v) in &wcounts {
        out.add(k, *v);
    }
    out.add("component-bytes", bytes.len() as u64);
    let b2 = bytes.clone();
    let dec = guarded(move || wac_decode("test:pkg", &b2));
    let nontrivial = w.len() > 120;
    let (a, world, inst, defs) = match dec {
        Ok(Ok(x)) => x,
        Ok(Err(e)) => {
            let id = out.case(nontrivial, "decode-error", &[esc(case.kind), esc(&case.src), esc(&w), esc(&e)]);
            // `Map` is documented as unsupported by the converter; anything else is a failure
            if e.contains("not yet supported") {
                out.count("decode-unsupported");
            } else {
                fail_with_input(out, case, &id, "from_bytes: error on a valid component", &e);
            }
            return;
        }
        Err(p) => {
            let id = out.case(nontrivial, "decode-panic", &[esc(case.kind), esc(&case.src), esc(&w), esc(&p)]);
            fail_with_input(out, case, &id, &format!("from_bytes: panic: {}", p.chars().take(80).collect::<String>()), &p);
            return;
        }
    };
    let id = out.case(nontrivial, "decode", &[esc(case.kind), esc(&case.src), esc(&w), esc(&a), esc(&world), esc(&inst), esc(&defs)]);
    // oracles A and B
    let b3 = bytes.clone();
    let ver = semver::Version::parse("1.2.3").unwrap();
    let with_ver = case.src.len() % 2 == 0;
    match guarded(move || oracles("test:pkg", if with_ver { Some(&ver) } else { None }, &b3)) {
        Err(p) => {
            out.count("oracle:encode-panic");
            fail_with_input(out, case, &id, &format!("TypeEncoder::component: panic: {}", p.chars().take(80).collect::<String>()), &p);
        }
        Ok(r) => {
            if r.reflexive != Some(true) {
                // the reference validator does not accept the component as a subtype of a copy
                // of itself (or panics in its subtype check): it cannot judge this shape
                out.count(if r.reflexive.is_none() { "oracle:validator-panic-on-self" } else { "oracle:validator-not-reflexive-on-this-shape" });
                return;
            }
            if let Some(e) = &r.encode_error {
                out.count("oracle:encode-error");
                fail_with_input(out, case, &id, &format!("TypeEncoder::component: error: {}", e.chars().take(80).collect::<String>()), e);
                return;
            }
            if let Err(e) = &r.composition_valid {
                out.count("oracle:composition-invalid");
                fail_with_input(out, case, &id, &format!("written unlocked-dep component type is invalid: {}", e.chars().take(100).collect::<String>()), e);
                return;
            }
            if !r.extra_imports.is_empty() {
                out.count("oracle:extra-imports");
                fail_with_input(out, case, &id, "written unlocked-dep component type has an import the component does not have", &r.extra_imports.join(" "));
            }
            match r.subtype {
                Some(true) => out.count("oracle:A-subtype-ok"),
                Some(false) => {
                    out.count("oracle:A-subtype-false");
                    fail_with_input(out, case, &id, "actual component type is not a subtype of the unlocked-dep import type", "");
                }
                None => {
                    out.count("oracle:A-not-evaluated");
                    fail_with_input(out, case, &id, "unlocked-dep import not found in the written component (or the validator panicked)", "");
                }
            }
            if r.supertype == Some(true) {
                out.count("oracle:A-exact");
            } else {
                out.count("oracle:A-proper-supertype");
                if std::env::var("C08_SHOW_SUPER").is_ok() {
                    eprintln!("PROPER-SUPERTYPE\n{}", case.src);
                }
            }
            match &r.substituted_valid {
                Some(Ok(())) => out.count("oracle:B-substituted-valid"),
                Some(Err(e)) => {
                    out.count("oracle:B-substituted-invalid");
                    fail_with_input(out, case, &id, &format!("instantiating the importer with the real component is invalid: {}", e.chars().take(100).collect::<String>()), e);
                }
                None => {}
            }
        }
    }
    // the whole composition: statistics only (owned by C01/C03, see decode_util::composition_oracle)
    let b4 = bytes.clone();
    let ver = semver::Version::parse("1.2.3").unwrap();
    match guarded(move || composition_oracle("test:pkg", if with_ver { Some(&ver) } else { None }, &b4)) {
        Ok(Ok(())) => out.count("composition:ok"),
        Ok(Err(e)) => {
            out.count("composition:failed");
            let key: String = e.chars().take(50).collect();
            out.count(&format!("composition-why:{}", key.replace(['\t', '\n'], " ")));
            out.case(false, "note", &[esc(&id), esc(&e)]);
        }
        Err(p) => {
            out.count("composition:panic");
            let key: String = p.chars().take(50).collect();
            out.count(&format!("composition-why:panic {}", key.replace(['\t', '\n'], " ")));
            out.case(false, "note", &[esc(&id), esc(&p)]);
        }
    }
}

fn gen_case(r: &mut Rng) -> Case {
    let mut c = gen_case_flat(r);
    if r.chance(1, 6) {
        c.kind = if c.kind == "wat" { "wat-nested" } else { "wit-nested" };
    }
    c
}

fn gen_case_flat(r: &mut Rng) -> Case {
    if r.chance(3, 5) {
        let cfg = GenCfg { async_funcs: r.chance(1, 4), ..GenCfg::default() };
        let (pkgs, feats) = gen_packages(r, &cfg);
        let main = pkgs.last().unwrap();
        let world = main.worlds[r.below(main.worlds.len())].name.clone();
        let texts: Vec<String> = pkgs.iter().map(|p| p.text()).collect();
        Case { kind: "wit", src: format!("// world: {}\n{}", world, texts.join(SEP)), feats }
    } else {
        let (src, feats) = gen_shaped_wat(r);
        Case { kind: "wat", src, feats }
    }
}

fn main() {
    if std::env::var("C08_LOUD").is_err() {
        quiet_panics();
    }
    let args = Args::parse();
    let shard = args.num("shard", 0);
    let mut out = Out::create(&args.out, &format!("s{shard}-"));
    if let Some(p) = args.extra.get("probe") {
        let src = std::fs::read_to_string(p).unwrap();
        let case = if p.ends_with(".wit") {
            Case { kind: "wit", src, feats: vec![] }
        } else {
            Case { kind: "wat", src, feats: vec![] }
        };
        let bytes = build(&case).unwrap();
        if !args.extra.contains_key("brief") {
            println!("{}", wasmprinter::print_bytes(&bytes).unwrap());
        }
        if let Ok((w, _)) = walk_component(&bytes) {
            println!("W = {w}");
        }
        if let Ok(Ok((a, w, i, d))) = guarded(|| wac_decode("test:pkg", &bytes)) {
            println!("A = {a}\nworld={w} inst={i} defs={d}");
        }
        if let Ok(r) = guarded(|| oracles("test:pkg", None, &bytes)) {
            if let Some(e) = r.encoded {
                println!("{}", wasmprinter::print_bytes(&e).unwrap_or_else(|e| format!("print error {e}")));
            }
        }
        run_case(&mut out, &case);
        out.finish();
        return;
    }
    if let Some(path) = &args.replay {
        let text = std::fs::read_to_string(path).expect("replay file");
        for line in text.lines() {
            let Some(rest) = line.strip_prefix("CASE\t") else { continue };
            let parts: Vec<&str> = rest.split('\t').collect();
            // id N kind srckind src …
            if parts.len() < 5 {
                continue;
            }
            let kind = match unesc(parts[3]).as_str() {
                "wat" => "wat",
                "wat-nested" => "wat-nested",
                "wit-nested" => "wit-nested",
                _ => "wit",
            };
            let case = Case { kind, src: unesc(parts[4]), feats: vec![] };
            if args.extra.contains_key("minimize") {
                for sig in failure_signatures(&case) {
                    println!("=== {sig}\n{}", minimize(&case, &sig));
                }
            }
            run_case(&mut out, &case);
        }
        out.finish();
        return;
    }
    let n = args.num("cases", if args.thorough() { 2500 } else { 300 });
    let mut rng = Rng::new(args.seed.wrapping_mul(1000003).wrapping_add(shard as u64));
    for _ in 0..n {
        let mut r = rng.fork();
        let case = gen_case(&mut r);
        run_case(&mut out, &case);
    }
    out.finish();
}

fn unesc(s: &str) -> String {
    let mut out = String::new();
    let mut it = s.chars().peekable();
    while let Some(c) = it.next() {
        if c == '\\' {
            let mut hex = String::new();
            for d in it.by_ref() {
                if d == ';' {
                    break;
                }
                hex.push(d);
            }
            if hex != "e" {
                if let Some(ch) = u32::from_str_radix(&hex, 16).ok().and_then(char::from_u32) {
                    out.push(ch);
                }
            }
        } else {
            out.push(c);
        }
    }
    out
}
