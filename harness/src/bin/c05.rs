//! C05: WIT declarations in WAC mean what WIT means.
//!
//! For every generated WIT package inside the shared WIT/WAC subset one case line
//!     wit <source> <W_wac> <W_wit> <A | _>
//! * `W_wac`: the validator's view (independent walk, decode_util.rs) of the component that WAC
//!   encodes from the text (`Document::parse` -> `resolve` -> `encode`);
//! * `W_wit`: the same for `wit_component::encode` of the same text as a WIT package.
//! The Lean driver compares, per declared interface/world, the trees of both against
//! `denote` (lean/WacModel/Spec/Wit.lean) of the declarations, which it parses from the source.
//! Oracle decided here (`Out::fail`): both encodings nested in one validator, every exported
//! interface/world type compared with `ComponentEntityType::is_subtype_of` in both directions;
//! WAC rejecting / panicking on a text the WIT toolchain accepts.
//!
//! The text is WIT; the WAC text differs only where the two grammars differ in punctuation
//! (`;` after an inline interface and after an `include … with { … }`): the generator writes
//! `/*;*/` there, a comment for WIT, replaced by `;` for WAC.
#[path = "../decode_gen.rs"]
mod decode_gen;
#[path = "../decode_util.rs"]
mod decode_util;
#[path = "../tree.rs"]
mod tree;
use decode_gen::*;
use decode_util::*;
use wacv::*;
use wasmparser::component_types as wt;

const SEP: &str = "\n//--- package ---\n";

fn wac_text(wit: &str) -> String {
    wit.replace("/*;*/", ";")
}

/// dependencies first; the last text is the package under test
fn encode_wit(texts: &[String]) -> Result<(Vec<u8>, Vec<(String, Option<semver::Version>, Vec<u8>)>), String> {
    let mut resolve = wit_parser::Resolve::default();
    let mut ids = vec![];
    for (i, t) in texts.iter().enumerate() {
        ids.push(resolve.push_str(format!("gen{i}.wit"), t).map_err(|e| format!("wit: {e:#}"))?);
    }
    let last = *ids.last().ok_or("no package")?;
    let main = wit_component::encode(&resolve, last).map_err(|e| format!("wit encode: {e:#}"))?;
    let mut deps = vec![];
    for id in &ids[..ids.len() - 1] {
        let name = &resolve.packages[*id].name;
        let bytes = wit_component::encode(&resolve, *id).map_err(|e| format!("wit encode dep: {e:#}"))?;
        deps.push((format!("{}:{}", name.namespace, name.name), name.version.clone(), bytes));
    }
    Ok((main, deps))
}

/// returns the encoded component and the resolver's `Types` (shared text form)
fn encode_wac(text: &str, deps: &[(String, Option<semver::Version>, Vec<u8>)]) -> Result<(Vec<u8>, String), String> {
    let doc = wac_parser::Document::parse(text).map_err(|e| format!("parse: {e:?}"))?;
    let mut packages = indexmap::IndexMap::new();
    for (name, version, bytes) in deps {
        packages.insert(wac_types::BorrowedPackageKey::from_name_and_version(name, version.as_ref()), bytes.clone());
    }
    let resolution = doc.resolve(packages).map_err(|e| format!("resolve: {e:?}"))?;
    let a = tree::ser_types(resolution.graph().types(), 0);
    resolution
        .encode(wac_graph::EncodeOptions { define_components: true, validate: false, processor: None })
        .map(|b| (b, a))
        .map_err(|e| format!("encode: {e:?}"))
}

struct Case {
    src: String,
    feats: Vec<&'static str>,
}

/// W dump of the component at `index` of a validated nest
fn walk_at(types: &wasmparser::types::Types, index: u32) -> String {
    let mut w = Walk::new(types);
    let root = w.component(types.as_ref().component_at(index));
    w.finish(root)
}

fn exported_types(types: &wasmparser::types::Types, index: u32) -> Vec<(String, wt::ComponentEntityType)> {
    let c = &types[types.as_ref().component_at(index)];
    c.exports.iter().map(|(n, e)| (n.clone(), *e)).collect()
}

fn fail_with_input(out: &mut Out, case: &Case, id: &str, signature: &str, detail: &str) {
    let d = format!("{detail}\nCASE\t{id}\tN\twit\t{}", esc(&case.src));
    out.fail(id, signature, &d);
}

fn short(e: &str) -> String {
    e.chars().take(90).collect::<String>().replace(['\n', '\t'], " ")
}

fn run_case(out: &mut Out, case: &Case) {
    let texts: Vec<String> = case.src.split(SEP).map(|s| s.to_string()).collect();
    // the reference toolchain decides what is in scope
    let (wit_bytes, deps) = match guarded(|| encode_wit(&texts)) {
        Ok(Ok(x)) => x,
        Ok(Err(e)) => {
            out.count("gen-rejected-by-wit");
            out.count(&format!("gen-rejected-why:{}", short(&e)));
            if std::env::var("C05_SHOW_INVALID").is_ok() {
                eprintln!("REJECTED {e}\n{}", case.src);
            }
            return;
        }
        Err(_) => {
            out.count("gen-wit-panicked");
            return;
        }
    };
    for f in &case.feats {
        out.count(&format!("feat:{f}"));
    }
    let wac_src = wac_text(texts.last().unwrap());
    let deps2 = deps.clone();
    let (wac_bytes, wac_types) = match guarded(move || encode_wac(&wac_src, &deps2)) {
        Ok(Ok(b)) => b,
        Ok(Err(e)) => {
            let id = out.case(true, "wac-rejects", &[esc(&case.src), esc(&e)]);
            out.count("wac-rejects");
            // strip spans / addresses from the signature
            let sig: String = e.split(|c| c == '{' || c == '(').next().unwrap_or("").trim().chars().take(60).collect();
            fail_with_input(out, case, &id, &format!("WAC rejects a declaration the WIT toolchain accepts: {sig}"), &e);
            return;
        }
        Err(p) => {
            let id = out.case(true, "wac-panics", &[esc(&case.src), esc(&p)]);
            out.count("wac-panics");
            fail_with_input(out, case, &id, &format!("WAC panics on a WIT declaration: {}", short(&p)), &p);
            return;
        }
    };
    // both encodings in one validator
    let nested = nest(&[&wac_bytes, &wit_bytes]);
    let types = match validate(&nested) {
        Ok(t) => t,
        Err(e) => {
            // which one is invalid?
            let wac_ok = validate(&wac_bytes).is_ok();
            let id = out.case(true, "invalid", &[esc(&case.src), esc(&e)]);
            if wac_ok {
                out.count("wit-encoding-invalid");
            } else {
                out.count("wac-encoding-invalid");
                fail_with_input(out, case, &id, &format!("WAC's encoding of the declarations is invalid: {}", short(&e)), &e);
            }
            return;
        }
    };
    let w_wac = walk_at(&types, 0);
    let w_wit = walk_at(&types, 1);
    // the resolver's arenas are compared with the elaboration model for single-package sources
    let a = if texts.len() == 1 { wac_types } else { "_".to_string() };
    let id = out.case(case.src.len() > 150, "wit", &[esc(&case.src), esc(&w_wac), esc(&w_wit), esc(&a)]);
    // oracle: mutual subtype per exported declaration
    let a = exported_types(&types, 0);
    let b = exported_types(&types, 1);
    let tr = types.as_ref();
    for (name, eb) in &b {
        let Some((_, ea)) = a.iter().find(|(n, _)| n == name) else {
            out.count("oracle:missing-in-wac");
            fail_with_input(out, case, &id, "a declared interface/world is not exported by WAC's encoding", name);
            continue;
        };
        let sub = |x: &wt::ComponentEntityType, y: &wt::ComponentEntityType| {
            std::panic::catch_unwind(std::panic::AssertUnwindSafe(|| wt::ComponentEntityType::is_subtype_of(x, tr, y, tr))).ok()
        };
        // the validator must at least accept the reference encoding as equivalent to itself
        if sub(eb, eb) != Some(true) {
            out.count("oracle:validator-not-reflexive");
            continue;
        }
        let kind = match eb {
            wt::ComponentEntityType::Type { created: wt::ComponentAnyTypeId::Component(c), .. } => {
                // interface definitions export an instance, world definitions a component
                match types[*c].exports.values().next() {
                    Some(wt::ComponentEntityType::Component(_)) => "world",
                    _ => "interface",
                }
            }
            _ => "other",
        };
        match (sub(ea, eb), sub(eb, ea)) {
            (Some(true), Some(true)) => out.count(&format!("oracle:{kind}-equivalent")),
            (Some(true), _) if kind == "world" => {
                // The written world type may import an interface it only uses types of in a
                // types-only form (the reference imports it in full): the reference world type
                // is then not a subtype of WAC's, while WAC's still is one of the reference's.
                // The property is about the *explicit* imports and exports; those are compared
                // by the Lean specification (driver), not here.
                out.count("oracle:world-subtype-of-reference-only");
            }
            (x, y) => {
                if kind == "world" {
                    // Whole-world comparison is stricter than the property ("the same explicit
                    // imports and exports with mutually-subtype types", which the Lean
                    // specification checks item by item): it also sees implicit imports and
                    // the order-dependent choice between an imported and an exported copy of
                    // an interface.  Statistics only.
                    let world_of = |e: &wt::ComponentEntityType| match e {
                        wt::ComponentEntityType::Type { created: wt::ComponentAnyTypeId::Component(c), .. } => {
                            match types[*c].exports.values().next() {
                                Some(wt::ComponentEntityType::Component(w)) => Some(&types[*w]),
                                _ => None,
                            }
                        }
                        _ => None,
                    };
                    let export_order = match (world_of(ea), world_of(eb)) {
                        (Some(wa), Some(wb)) => wa.imports.keys().any(|k| wa.exports.contains_key(k) && !wb.imports.contains_key(k)),
                        _ => false,
                    };
                    out.count(if export_order { "oracle:world-export-order" } else { "oracle:world-not-subtype-of-reference" });
                    let _ = (x, y);
                } else {
                    out.count(&format!("oracle:{kind}-differs"));
                    fail_with_input(
                        out,
                        case,
                        &id,
                        &format!("{kind}: not equivalent to the reference encoding (wac<:wit {:?}, wit<:wac {:?})", x, y),
                        name,
                    );
                }
            }
        }
    }
    for (name, _) in &a {
        if !b.iter().any(|(n, _)| n == name) {
            out.count("oracle:extra-in-wac");
            fail_with_input(out, case, &id, "WAC's encoding exports a name the reference encoding does not", name);
        }
    }
}

fn gen_case(r: &mut Rng) -> Case {
    let cfg = GenCfg { wac_subset: true, ..GenCfg::default() };
    let (pkgs, feats) = gen_packages(r, &cfg);
    let texts: Vec<String> = pkgs.iter().map(|p| p.text()).collect();
    Case { src: texts.join(SEP), feats }
}

fn failure_signatures(case: &Case) -> Vec<String> {
    let tmp = format!("/tmp/c05-min-{}.txt", std::process::id());
    let mut out = Out::create(&tmp, "m");
    run_case(&mut out, case);
    out.finish();
    let text = std::fs::read_to_string(&tmp).unwrap_or_default();
    let _ = std::fs::remove_file(&tmp);
    text.lines()
        .filter_map(|l| l.strip_prefix("!FAIL\t"))
        .map(|l| unesc(l.split('\t').nth(1).unwrap_or("")).chars().take(40).collect())
        .collect()
}

fn minimize(case: &Case, sig: &str) -> String {
    let mut lines: Vec<String> = case.src.lines().map(|s| s.to_string()).collect();
    let still = |ls: &Vec<String>| {
        let c = Case { src: ls.join("\n"), feats: vec![] };
        failure_signatures(&c).iter().any(|s| s == sig)
    };
    let mut chunk = (lines.len() / 2).max(1);
    loop {
        let mut i = 0;
        let mut progressed = false;
        while i < lines.len() {
            let end = (i + chunk).min(lines.len());
            let mut cand = lines.clone();
            cand.drain(i..end);
            if !cand.is_empty() && still(&cand) {
                lines = cand;
                progressed = true;
            } else {
                i = end;
            }
        }
        if chunk == 1 && !progressed {
            break;
        }
        if !progressed || chunk > 1 {
            chunk = (chunk / 2).max(1);
        }
    }
    lines.join("\n")
}

fn main() {
    if std::env::var("C05_LOUD").is_err() {
        quiet_panics();
    }
    let args = Args::parse();
    let shard = args.num("shard", 0);
    let mut out = Out::create(&args.out, &format!("s{shard}-"));
    if let Some(p) = args.extra.get("probe") {
        let src = std::fs::read_to_string(p).unwrap();
        let case = Case { src, feats: vec![] };
        let texts: Vec<String> = case.src.split(SEP).map(|s| s.to_string()).collect();
        match encode_wit(&texts) {
            Ok((b, deps)) => {
                println!("== wit-component ==\n{}", wasmprinter::print_bytes(&b).unwrap());
                match guarded(|| encode_wac(&wac_text(texts.last().unwrap()), &deps)) {
                    Ok(Ok((w, _))) => println!("== wac ==\n{}", wasmprinter::print_bytes(&w).unwrap()),
                    Ok(Err(e)) => println!("wac error: {e}"),
                    Err(p) => println!("wac PANIC: {p}"),
                }
            }
            Err(e) => println!("wit error: {e}"),
        }
        run_case(&mut out, &case);
        out.finish();
        return;
    }
    if let Some(path) = &args.replay {
        let text = std::fs::read_to_string(path).expect("replay file");
        for line in text.lines() {
            let Some(rest) = line.strip_prefix("CASE\t") else { continue };
            let parts: Vec<&str> = rest.split('\t').collect();
            // id N kind src …
            if parts.len() < 4 {
                continue;
            }
            let case = Case { src: unesc(parts[3]), feats: vec![] };
            if args.extra.contains_key("minimize") {
                for sig in failure_signatures(&case) {
                    println!("=== {sig}\n{}", minimize(&case, &sig));
                }
            }
            run_case(&mut out, &case);
        }
        out.finish();
        return;
    }
    let n = args.num("cases", if args.thorough() { 1000 } else { 200 });
    let mut rng = Rng::new(args.seed.wrapping_mul(7000003).wrapping_add(shard as u64));
    for _ in 0..n {
        let mut r = rng.fork();
        let case = gen_case(&mut r);
        run_case(&mut out, &case);
    }
    out.finish();
}

fn unesc(s: &str) -> String {
    let mut out = String::new();
    let mut it = s.chars().peekable();
    while let Some(c) = it.next() {
        if c == '\\' {
            let mut hex = String::new();
            for d in it.by_ref() {
                if d == ';' {
                    break;
                }
                hex.push(d);
            }
            if hex != "e" {
                if let Some(ch) = u32::from_str_radix(&hex, 16).ok().and_then(char::from_u32) {
                    out.push(ch);
                }
            }
        } else {
            out.push(c);
        }
    }
    out
}
