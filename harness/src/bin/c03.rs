//! C03: output imports/exports are exactly those implied; implicit imports are shared; the
//! interface does not depend on the order in which nodes were created.
//!
//! A *plan* (packages, nodes, argument edges, exports) is realised through the public API in
//! many node-creation orders (every dependency-preserving permutation for small plans, a
//! sample beyond).  Per realisation and dependency mode one case for the Lean driver:
//!   ifc <gen> <define> <graph dump> <imports() result> <instance-type exports of the real imports> <result>
//! Decided here: a panic in `encode`, the validator rejecting the output, and the interface
//! (import names/kinds/offered exports + export names/kinds) differing between two
//! realisations of one plan.
#[path = "../enc_gen.rs"]
mod enc_gen;
#[path = "../enc_util.rs"]
mod enc_util;

use enc_gen::*;
use enc_util::*;
use std::panic::AssertUnwindSafe;
use wac_graph::types::{ItemKind, Package};
use wac_graph::{CompositionGraph, EncodeError, EncodeOptions, NodeId, NodeKind, PackageId};
use wacv::{esc, guarded, quiet_panics, Args, Out, Rng};

pub const WIT_VERSIONED: &str = r#"
package test:usr;

package dep:t@1.0.0 {
  interface t { type x = u32; }
}
package dep:t@1.2.0 {
  interface t { type x = u32; type y = u32; }
}

interface u { use dep:t/t@1.0.0.{x}; f: func() -> x; }
interface v { use dep:t/t@1.2.0.{y}; g: func() -> y; }
world old { import u; }
world new { import dep:t/t@1.2.0; }
world newv { import v; }
world mixed { import u; import v; }
"#;

#[derive(Clone, Debug)]
enum PNode {
    Inst(usize),
    Import { name: String, from_pkg: usize, from_name: String },
    Alias { src: usize, export: String },
}

#[derive(Clone, Debug, Default)]
struct Plan {
    pkgs: Vec<usize>,
    nodes: Vec<PNode>,
    args: Vec<(usize, String, usize)>,
    exports: Vec<(usize, String)>,
}

struct Realised {
    graph: CompositionGraph,
    pkg_ids: Vec<PackageId>,
    ok: bool,
}

fn register(g: &mut CompositionGraph, p: &LibPkg) -> Option<PackageId> {
    let version = p.version.as_ref().map(|v| semver::Version::parse(v).unwrap());
    let pkg = Package::from_bytes(&p.name, version.as_ref(), p.bytes.clone(), g.types_mut()).ok()?;
    g.register_package(pkg).ok()
}

/// create the nodes in `order`, then the argument edges and exports in plan order
fn realise(plan: &Plan, lib: &[LibPkg], order: &[usize]) -> Realised {
    let mut g = CompositionGraph::new();
    let mut pkg_ids = Vec::new();
    let mut ok = true;
    for k in &plan.pkgs {
        match register(&mut g, &lib[*k]) {
            Some(id) => pkg_ids.push(id),
            None => ok = false,
        }
    }
    let mut ids: Vec<Option<NodeId>> = vec![None; plan.nodes.len()];
    if ok {
        for &i in order {
            let id = match &plan.nodes[i] {
                PNode::Inst(p) => Some(g.instantiate(pkg_ids[*p])),
                PNode::Import { name, from_pkg, from_name } => {
                    let pid = pkg_ids[*from_pkg];
                    let world = &g.types()[g[pid].ty()];
                    let kind = world.imports.get(from_name).copied().or_else(|| {
                        g.types()[g[pid].instance_type()].exports.get(from_name).copied()
                    });
                    kind.and_then(|k| g.import(name, k).ok())
                }
                PNode::Alias { src, export } => ids[*src].and_then(|s| g.alias_instance_export(s, export).ok()),
            };
            if id.is_none() {
                ok = false;
            }
            ids[i] = id;
        }
        for (t, name, s) in &plan.args {
            match (ids[*t], ids[*s]) {
                (Some(t), Some(s)) => {
                    if g.set_instantiation_argument(t, name, s).is_err() {
                        ok = false;
                    }
                }
                _ => ok = false,
            }
        }
        for (n, name) in &plan.exports {
            match ids[*n] {
                Some(n) => {
                    if g.export(n, name).is_err() {
                        ok = false;
                    }
                }
                None => ok = false,
            }
        }
    }
    Realised { graph: g, pkg_ids, ok }
}

fn gen_plan(rng: &mut Rng, lib: &[LibPkg], n_nodes: usize) -> Plan {
    let mut plan = Plan::default();
    let n_pk = 2 + rng.below(3);
    let mut order: Vec<usize> = (0..lib.len()).collect();
    rng.shuffle(&mut order);
    // mostly the generated packages (their imports sit on a few semver tracks)
    if rng.chance(2, 3) {
        order.sort_by_key(|k| if lib[*k].origin == "wat" { 0 } else { 1 });
    }
    plan.pkgs = order.into_iter().take(n_pk).collect();
    // scratch graph to learn what is accepted
    let mut g = CompositionGraph::new();
    let pkg_ids: Vec<PackageId> = plan.pkgs.iter().filter_map(|k| register(&mut g, &lib[*k])).collect();
    if pkg_ids.len() != plan.pkgs.len() {
        return Plan::default();
    }
    let mut ids: Vec<NodeId> = Vec::new();
    let mut n_imp = 0;
    while plan.nodes.len() < n_nodes {
        match pick_weighted(rng, &[6, 2, 3]) {
            0 => {
                let p = rng.below(pkg_ids.len());
                ids.push(g.instantiate(pkg_ids[p]));
                plan.nodes.push(PNode::Inst(p));
            }
            1 => {
                let p = rng.below(pkg_ids.len());
                let pid = pkg_ids[p];
                let mut cands: Vec<(String, ItemKind)> =
                    g.types()[g[pid].ty()].imports.iter().map(|(n, k)| (n.clone(), *k)).collect();
                let wit = g[pid].name().starts_with("wit");
                cands.retain(|(_, k)| !wit || matches!(k, ItemKind::Instance(_)));
                if rng.chance(1, 2) {
                    // prefer versioned names: an explicit import on the track of an implicit one
                    let v: Vec<(String, ItemKind)> = cands.iter().filter(|(n, _)| n.contains('@')).cloned().collect();
                    if !v.is_empty() {
                        cands = v;
                    }
                }
                if cands.is_empty() {
                    continue;
                }
                let (orig, kind) = rng.pick(&cands).clone();
                let name = if rng.chance(1, 2) {
                    orig.clone()
                } else {
                    n_imp += 1;
                    format!("xi{}", n_imp)
                };
                if let Ok(id) = g.import(&name, kind) {
                    ids.push(id);
                    plan.nodes.push(PNode::Import { name, from_pkg: p, from_name: orig });
                }
            }
            _ => {
                let insts: Vec<usize> = (0..ids.len())
                    .filter(|i| matches!(g[ids[*i]].item_kind(), ItemKind::Instance(_)))
                    .collect();
                if insts.is_empty() {
                    continue;
                }
                let src = *rng.pick(&insts);
                let names: Vec<String> = match g[ids[src]].item_kind() {
                    ItemKind::Instance(id) => g.types()[id].exports.keys().cloned().collect(),
                    _ => vec![],
                };
                if names.is_empty() {
                    continue;
                }
                let export = rng.pick(&names).clone();
                let before = g.node_ids().count();
                if let Ok(id) = g.alias_instance_export(ids[src], &export) {
                    if g.node_ids().count() > before {
                        ids.push(id);
                        plan.nodes.push(PNode::Alias { src, export });
                    }
                }
            }
        }
    }
    // argument edges: earlier plan nodes only (no cycles), so that every creation order that
    // respects alias sources can realise them
    for t in 0..ids.len() {
        if !matches!(g[ids[t]].kind(), NodeKind::Instantiation(_)) {
            continue;
        }
        let pid = g[ids[t]].package().unwrap();
        let names: Vec<(String, ItemKind)> = g.types()[g[pid].ty()].imports.iter().map(|(n, k)| (n.clone(), *k)).collect();
        for (name, kind) in names {
            if matches!(kind, ItemKind::Type(_)) || !rng.chance(2, 5) {
                continue;
            }
            let mut cands: Vec<usize> = (0..ids.len()).filter(|s| *s != t).collect();
            rng.shuffle(&mut cands);
            for s in cands.into_iter().take(6) {
                if reaches_pub(&g, ids[t], ids[s]) {
                    continue;
                }
                if g.set_instantiation_argument(ids[t], &name, ids[s]).is_ok() {
                    plan.args.push((t, name.clone(), s));
                    break;
                }
            }
        }
    }
    let mut n_e = 0;
    for i in 0..ids.len() {
        if rng.chance(1, 4) {
            let wit_typed = matches!(g[ids[i]].item_kind(), ItemKind::Func(_) | ItemKind::Type(_))
                && g[ids[i]].package().map(|p| g[p].name().starts_with("wit")).unwrap_or(false);
            if wit_typed {
                continue;
            }
            n_e += 1;
            let name = format!("e{}", n_e);
            if g.export(ids[i], &name).is_ok() {
                plan.exports.push((i, name));
            }
        }
    }
    plan
}

/// all orders of `0..n` in which an alias comes after its source; at most `cap` (then sampled)
fn creation_orders(plan: &Plan, cap: usize, rng: &mut Rng) -> Vec<Vec<usize>> {
    let n = plan.nodes.len();
    let dep = |i: usize| -> Option<usize> {
        match &plan.nodes[i] {
            PNode::Alias { src, .. } => Some(*src),
            _ => None,
        }
    };
    let mut out: Vec<Vec<usize>> = Vec::new();
    if n <= 6 {
        fn rec(n: usize, cur: &mut Vec<usize>, used: &mut Vec<bool>, dep: &dyn Fn(usize) -> Option<usize>, out: &mut Vec<Vec<usize>>) {
            if cur.len() == n {
                out.push(cur.clone());
                return;
            }
            for i in 0..n {
                if used[i] {
                    continue;
                }
                if let Some(d) = dep(i) {
                    if !used[d] {
                        continue;
                    }
                }
                used[i] = true;
                cur.push(i);
                rec(n, cur, used, dep, out);
                cur.pop();
                used[i] = false;
            }
        }
        rec(n, &mut Vec::new(), &mut vec![false; n], &dep, &mut out);
        if out.len() > cap {
            // keep the identity and a sample
            let id: Vec<usize> = (0..n).collect();
            rng.shuffle(&mut out);
            out.truncate(cap);
            if !out.contains(&id) {
                out[0] = id;
            }
        }
    } else {
        out.push((0..n).collect());
        while out.len() < cap.min(12) {
            // random linear extension
            let mut used = vec![false; n];
            let mut cur = Vec::new();
            while cur.len() < n {
                let avail: Vec<usize> = (0..n).filter(|i| !used[*i] && dep(*i).map(|d| used[d]).unwrap_or(true)).collect();
                let i = *rng.pick(&avail);
                used[i] = true;
                cur.push(i);
            }
            if !out.contains(&cur) {
                out.push(cur);
            } else if rng.chance(1, 3) {
                break;
            }
        }
    }
    out
}

fn query_toks(g: &CompositionGraph) -> Toks {
    let mut t = Toks::default();
    let q: Vec<(String, ItemKind, Option<NodeId>)> = g.imports().map(|(n, k, i)| (n.to_string(), k, i)).collect();
    t.n(q.len());
    for (n, k, i) in q {
        t.s(&n).s(kind_tag(&k));
        let s = i.map(|i| node_index(i).to_string());
        t.opt(s.as_deref());
    }
    t
}

fn run_plan(out: &mut Out, seed: u64, shard: u64, i: u64, per_lib: u64, cap: usize) {
    let l = i / per_lib;
    let mut lrng = Rng::new(seed.wrapping_mul(37).wrapping_add(shard.wrapping_mul(1_000_003)).wrapping_add(l).wrapping_add(0xC03));
    // every other library draws its names from the pool whose versions cross a digit boundary
    let digits = l % 2 == 1;
    let mut lib = if digits {
        // one family of the pool (a base name) is the focus of the library
        let pool = name_pool_c03_digits();
        let bases: Vec<&str> = ["test:d/w", "test:e/x", "test:g/y", "test:h/z", "test:k/v", "test:s/m"].to_vec();
        let base = *lrng.pick(&bases);
        let focus: Vec<(&'static str, Shape)> = pool.iter().filter(|(n, _)| n.split('@').next() == Some(base)).cloned().collect();
        build_library_focus(&mut lrng, 5, true, pool, &focus)
    } else {
        build_library_from(&mut lrng, 5, true, name_pool_c03())
    };
    for w in ["old", "new", "newv", "mixed"] {
        let bytes = wit_component_bytes(WIT_VERSIONED, w).unwrap_or_else(|e| panic!("wit world {w}: {e:?}"));
        lib.push(LibPkg { name: format!("witv:{}", w), version: None, bytes, origin: "wit", shapes: None });
    }
    let mut rng = Rng::new(seed.wrapping_mul(1_000_003).wrapping_add(shard.wrapping_mul(7907)).wrapping_add(i.wrapping_mul(104_723)));
    let n_nodes = if rng.chance(3, 4) { 2 + rng.below(5) } else { 7 + rng.below(4) };
    let plan = gen_plan(&mut rng, &lib, n_nodes);
    if plan.nodes.is_empty() {
        return;
    }
    let orders = creation_orders(&plan, cap, &mut rng);
    out.add("plans", 1);
    out.add("plan:nodes", plan.nodes.len() as u64);
    out.add("plan:argument-edges", plan.args.len() as u64);
    out.add("plan:creation-orders", orders.len() as u64);
    let mut reference: Option<(String, String)> = None;
    for (oi, order) in orders.iter().enumerate() {
        let r = realise(&plan, lib.as_slice(), order);
        if !r.ok {
            out.count("realisation:rejected");
            continue;
        }
        let g = &r.graph;
        let mut dump = dump_graph(g, &r.pkg_ids);
        push_exports(&mut dump, g);
        let q = query_toks(g);
        if oi == 0 {
            // an explicit import on the semver track of a different implicit import name
            let all: Vec<(String, bool)> = g.imports().map(|(n, _, i)| (n.to_string(), i.is_some())).collect();
            let track = |n: &str| -> Option<String> {
                let (base, v) = n.split_once('@')?;
                let mut it = v.split('.');
                let (ma, mi) = (it.next()?, it.next()?);
                Some(if ma != "0" { format!("{}@{}", base, ma) } else { format!("{}@0.{}", base, mi) })
            };
            if all.iter().any(|(n, e)| *e && all.iter().any(|(m, e2)| !*e2 && m != n && track(m).is_some() && track(m) == track(n))) {
                out.count("shape:explicit-import-on-track-of-implicit");
            }
            // two names on one track whose order as strings is not the order of their versions
            let ver = |n: &str| n.split_once('@').and_then(|(_, v)| semver::Version::parse(v).ok());
            if all.iter().any(|(n, _)| {
                all.iter().any(|(m, _)| m != n && track(m).is_some() && track(m) == track(n) && (m < n) != (ver(m) < ver(n)))
            }) {
                out.count("shape:string-order-differs-from-version-order-on-a-track");
            }
            if all.iter().any(|(n, e)| !*e && all.iter().any(|(m, e2)| !*e2 && m != n && track(m).is_some() && track(m) == track(n))) {
                out.count("shape:two-implicit-versions-on-one-track");
            }
        }
        for define in [true, false] {
            let gen = format!("{}.{}.{}.{}.{}", seed, shard, i, oi, define as u8);
            let res = guarded(AssertUnwindSafe(|| {
                g.encode(EncodeOptions { define_components: define, validate: false, processor: None })
            }));
            let mut rt = Toks::default();
            let mut xt = Toks::default();
            xt.n(0);
            let mut fail: Option<(String, String)> = None;
            let mut nontrivial = false;
            let mut iface: Option<String> = None;
            match res {
                Err(p) => {
                    rt.s("panic");
                    out.count("result:panic");
                    fail = Some((format!("encode panicked: {}", p), format!("{:?} order {:?}", plan, order)));
                }
                Ok(Err(e)) => {
                    rt.s("err");
                    match e {
                        EncodeError::GraphContainsCycle { node } => {
                            out.count("result:cycle");
                            rt.s("cycle").n(node_index(node));
                            iface = Some("rejected".into());
                        }
                        EncodeError::ImplicitImportConflict { import, instantiation, name, .. } => {
                            out.count("result:implicit-conflict");
                            rt.s("implicit").s(&name).n(node_index(instantiation)).n(node_index(import));
                            iface = Some("rejected".into());
                        }
                        EncodeError::ImportTypeMergeConflict { import, first, second, .. } => {
                            out.count("result:merge-conflict");
                            rt.s("merge").s(&import).n(node_index(first)).n(node_index(second));
                            iface = Some("rejected".into());
                        }
                        EncodeError::ValidationFailure { .. } => {
                            out.count("result:validation-failure");
                            rt.s("validation");
                        }
                    }
                }
                Ok(Ok(bytes)) => {
                    out.count("result:ok");
                    match read_wiring(&bytes) {
                        Ok(w) => {
                            rt.s("ok");
                            rt.0.extend(w.toks(&dump.classes).0);
                            xt = w.import_exports_toks();
                            nontrivial = w.imports.len() > 1;
                            let mut imps: Vec<String> = w
                                .imports
                                .iter()
                                .map(|(n, k)| {
                                    let ex = w.import_exports.iter().find(|(m, _)| m == n).map(|(_, e)| {
                                        let mut e = e.clone();
                                        e.sort();
                                        e.join(",")
                                    });
                                    format!("{}:{}[{}]", n, k, ex.unwrap_or_default())
                                })
                                .collect();
                            imps.sort();
                            let mut exps: Vec<String> = w.exports.iter().map(|(n, k, _)| format!("{}:{}", n, k)).collect();
                            exps.sort();
                            iface = Some(format!("imports {} exports {}", imps.join(" "), exps.join(" ")));
                            out.add("output:imports", w.imports.len() as u64);
                            out.add("output:exports", w.exports.len() as u64);
                            let versioned = w.imports.iter().filter(|(n, _)| n.contains('@')).count();
                            out.add("output:versioned-imports", versioned as u64);
                        }
                        Err(e) => {
                            rt.s("unreadable");
                            fail = Some((format!("output unreadable: {}", e), format!("{:?}", plan)));
                        }
                    }
                    if std::env::var_os("WACV_DEBUG2").is_some() {
                        eprintln!("PLAN {:?} order {:?} define={}\n{:?}\n{}", plan, order, define, g, wasmprinter::print_bytes(&bytes).unwrap_or_default());
                    }
                    if let Err(e) = validate_all(&bytes) {
                        if std::env::var_os("WACV_DEBUG").is_some() {
                            eprintln!("PLAN {:?} order {:?} define={}\n{:?}\n{}", plan, order, define, g, wasmprinter::print_bytes(&bytes).unwrap_or_default());
                        }
                        out.count("oracle:validator-rejects");
                        fail = Some((format!("validator rejects the output: {}", e.lines().next().unwrap_or("")), format!("{:?} order {:?}", plan, order)));
                    }
                }
            }
            let id = out.case(
                nontrivial,
                "ifc",
                &[esc(&gen), (define as u8).to_string(), dump.toks.field(), q.field(), xt.field(), rt.field()],
            );
            if let Some((sig, detail)) = fail {
                out.fail(&id, &sig, &detail);
            }
            // creation-order invariance, decided here (define mode only: same graph otherwise)
            if define {
                if let Some(cur) = iface {
                    match &reference {
                        None => reference = Some((cur, format!("{:?}", order))),
                        Some((want, ord0)) => {
                            if *want != cur {
                                out.count("oracle:creation-order-changes-interface");
                                // which import names differ?  If they are all explicit imports of named
                                // interfaces under another name, this is the known merged-import shape.
                                let names = |s: &str| -> Vec<String> {
                                    s.split(" exports ")
                                        .next()
                                        .unwrap_or("")
                                        .split(' ')
                                        .skip(1)
                                        .map(|x| {
                                            let head = x.split('[').next().unwrap_or("");
                                            head.rsplit_once(':').map(|(n, _)| n).unwrap_or(head).to_string()
                                        })
                                        .collect()
                                };
                                let (a, b) = (names(want), names(&cur));
                                let diff: Vec<&String> = a.iter().filter(|x| !b.contains(x)).chain(b.iter().filter(|x| !a.contains(x))).collect();
                                let merged = !diff.is_empty()
                                    && diff.iter().all(|d| plan.nodes.iter().any(|n| matches!(n, PNode::Import { name, from_name, .. } if name != from_name && (name == *d || from_name == *d || wac_types::are_semver_compatible(from_name, d.as_str())))));
                                out.fail(
                                    &id,
                                    if merged {
                                        "KF-explicit-interface-import-merged: creation order changes which explicit import of an interface is emitted"
                                    } else {
                                        "creation order changes the interface"
                                    },
                                    &format!("plan {:?}; order {} gives [{}]; order {:?} gives [{}]", plan, ord0, want, order, cur),
                                );
                            }
                        }
                    }
                }
            }
        }
    }
}

fn main() {
    let args = Args::parse();
    quiet_panics();
    let shard = args.num("shard", 0) as u64;
    let mut out = Out::create(&args.out, &format!("s{}-", shard));
    let per_lib = 10u64;
    let cap = args.num("orders", if args.thorough() { 720 } else { 40 });
    if let Some(path) = &args.replay {
        let text = std::fs::read_to_string(path).unwrap_or_default();
        let mut seen = std::collections::BTreeSet::new();
        for line in text.lines() {
            let parts: Vec<&str> = line.split('\t').collect();
            let Some(pos) = parts.iter().position(|p| *p == "ifc") else { continue };
            let Some(gen) = parts.get(pos + 1) else { continue };
            let nums: Vec<u64> = gen.split('.').filter_map(|x| x.parse().ok()).collect();
            if nums.len() == 5 && seen.insert((nums[0], nums[1], nums[2])) {
                run_plan(&mut out, nums[0], nums[1], nums[2], per_lib, 720);
            }
        }
        out.finish();
        return;
    }
    let n = args.num("plans", if args.thorough() { 400 } else { 60 }) as u64;
    let only = args.extra.get("only").and_then(|s| s.parse::<u64>().ok());
    for i in 0..n {
        if only.is_some() && only != Some(i) {
            continue;
        }
        run_plan(&mut out, args.seed, shard, i, per_lib, cap);
    }
    out.finish();
}
