//! C02: encoded wiring is exactly the composition graph.
//!
//! Each case: a composition built through the public graph API over a WAT/WIT library, encoded
//! by the real `CompositionGraph::encode` in one dependency mode.  Written for the Lean driver:
//!   enc <gen> <define_components 0|1> <graph dump> <real toposort> <result>
//! where <result> is `ok` + the wiring read from the real bytes by the independent reader
//! (`enc_util::read_wiring`), or the error variant with the ids it carries.
//! Failures decided here: a panic in `encode`, and `wasmparser::Validator` (all features)
//! rejecting the output.
#[path = "../enc_gen.rs"]
mod enc_gen;
#[path = "../enc_util.rs"]
mod enc_util;

use enc_gen::*;
use enc_util::*;
use std::panic::AssertUnwindSafe;
use wac_graph::{EncodeError, EncodeOptions};
use wacv::{esc, guarded, quiet_panics, Args, Out, Rng};

fn case_rng(seed: u64, shard: u64, i: u64) -> Rng {
    Rng::new(seed.wrapping_mul(1_000_003).wrapping_add(shard.wrapping_mul(7919)).wrapping_add(i.wrapping_mul(104_729)))
}

fn lib_rng(seed: u64, shard: u64, l: u64) -> Rng {
    Rng::new(seed.wrapping_mul(31).wrapping_add(shard.wrapping_mul(1_000_033)).wrapping_add(l).wrapping_add(0xC02))
}

pub fn node_id_index(id: wac_graph::NodeId) -> usize {
    node_index(id)
}

fn run_case(out: &mut Out, seed: u64, shard: u64, i: u64, per_lib: u64) {
    let l = i / per_lib;
    let mut lrng = lib_rng(seed, shard, l);
    let lib = build_library_sel(&mut lrng, 5, LibSel { wit: true, twins: true, ..Default::default() }, name_pool());
    let mut rng = case_rng(seed, shard, i);
    let cfg = GenCfg { steps: 6 + rng.below(16), removal: false, definitions: rng.chance(1, 3), loose_imports: false, typed_items: false, wire: rng.chance(1, 2) };
    let built = build_graph(&mut rng, &lib, &cfg);
    count_ops(&built.ops, &mut out.stats);
    let g = &built.graph;
    let ids: Vec<_> = built.pkgs.iter().map(|(_, id)| *id).collect();
    let mut dump = dump_graph(g, &ids);
    push_exports(&mut dump, g);
    let topo = {
        let mut t = Toks::default();
        match g.verif_encode_toposort() {
            Ok(v) => {
                t.s("ok").n(v.len());
                for n in v {
                    t.n(n);
                }
            }
            Err(n) => {
                t.s("err").n(n);
            }
        }
        t
    };
    if std::env::var_os("WACV_DEBUG").is_some() {
        eprintln!("OPS {}", ops_text(&built.ops));
        eprintln!("{:?}", g);
        for define in [true, false] {
            match g.encode(EncodeOptions { define_components: define, validate: false, processor: None }) {
                Ok(b) => {
                    eprintln!("define={} valid={:?}", define, validate_all(&b));
                    if !define {
                        eprintln!("{}", wasmprinter::print_bytes(&b).unwrap_or_default());
                    }
                }
                Err(e) => eprintln!("define={} error {:?}", define, e),
            }
        }
    }
    for define in [true, false] {
        let gen = format!("{}.{}.{}.{}", seed, shard, i, define as u8);
        let res = guarded(AssertUnwindSafe(|| {
            g.encode(EncodeOptions { define_components: define, validate: false, processor: None })
        }));
        let mut r = Toks::default();
        let mut fail: Option<(String, String)> = None;
        let mut nontrivial = false;
        match res {
            Err(p) => {
                r.s("panic");
                out.count("result:panic");
                fail = Some((format!("encode panicked: {}", p), ops_text(&built.ops)));
            }
            Ok(Err(e)) => {
                r.s("err");
                match e {
                    EncodeError::GraphContainsCycle { node } => {
                        out.count("result:cycle");
                        r.s("cycle").n(node_index(node));
                    }
                    EncodeError::ImplicitImportConflict { import, instantiation, name, .. } => {
                        out.count("result:implicit-conflict");
                        r.s("implicit").s(&name).n(node_index(instantiation)).n(node_index(import));
                    }
                    EncodeError::ImportTypeMergeConflict { import, first, second, .. } => {
                        out.count("result:merge-conflict");
                        r.s("merge").s(&import).n(node_index(first)).n(node_index(second));
                    }
                    EncodeError::ValidationFailure { .. } => {
                        out.count("result:validation-failure");
                        r.s("validation");
                    }
                }
            }
            Ok(Ok(bytes)) => {
                out.count("result:ok");
                match read_wiring(&bytes) {
                    Ok(w) => {
                        r.s("ok");
                        r.0.extend(w.toks(&dump.classes).0);
                        nontrivial = w.insts.iter().any(|(_, a)| !a.is_empty()) || w.aliases.len() > 0;
                        if !w.other_items.is_empty() {
                            out.count("reader:untraced-items");
                        }
                        out.add("wiring:instantiations", w.insts.len() as u64);
                        out.add("wiring:arguments", w.insts.iter().map(|(_, a)| a.len() as u64).sum());
                        out.add("wiring:aliases", w.aliases.len() as u64);
                        out.add("wiring:exports", w.exports.len() as u64);
                        out.add("wiring:names", w.names.len() as u64);
                        out.add("wiring:embedded-components", w.comps.len() as u64);
                    }
                    Err(e) => {
                        r.s("unreadable");
                        fail = Some((format!("output unreadable: {}", e), ops_text(&built.ops)));
                    }
                }
                if let Err(e) = validate_all(&bytes) {
                    out.count("oracle:validator-rejects");
                    // C01 owns validity; here it is reported so that a wiring bug that also breaks
                    // validity is not missed
                    fail = Some((format!("validator rejects the output: {}", first_line(&e)), ops_text(&built.ops)));
                }
            }
        }
        let id = out.case(
            nontrivial,
            "enc",
            &[esc(&gen), (define as u8).to_string(), dump.toks.field(), topo.field(), r.field()],
        );
        if let Some((sig, detail)) = fail {
            out.fail(&id, &sig, &detail);
        }
    }
    // distribution
    out.add("graph:nodes", dump.n_nodes as u64);
    out.add("graph:instantiations", dump.n_inst as u64);
    out.add("graph:aliases", dump.n_alias as u64);
    out.add("graph:imports", dump.n_import as u64);
    out.add("graph:definitions", dump.n_def as u64);
    out.add("graph:argument-edges", dump.n_arg as u64);
    out.add("graph:exports", dump.n_exports as u64);
    if dump.multi_export_nodes > 0 {
        out.count("shape:node-exported-under-several-names");
    }
    if dump.shared_sources > 0 {
        out.count("shape:shared-argument-source");
    }
    if dump.multi_inst_pkgs > 0 {
        out.count("shape:several-instantiations-of-one-package");
    }
    if dump.multi_version_names > 0 {
        out.count("shape:one-package-name-instantiated-at-several-versions");
    }
    if dump.multi_arg_pairs > 0 {
        out.count("shape:several-exports-of-one-instance-passed-to-one-instantiation");
    }
    if dump.alias_of_alias > 0 {
        out.count("shape:alias-of-alias");
    }
}

fn first_line(s: &str) -> String {
    s.lines().next().unwrap_or("").to_string()
}

fn main() {
    let args = Args::parse();
    quiet_panics();
    let shard = args.num("shard", 0) as u64;
    let mut out = Out::create(&args.out, &format!("s{}-", shard));
    let per_lib = 25u64;
    if let Some(path) = &args.replay {
        // re-run the generator inputs named in the CASE lines of a replay file
        let text = std::fs::read_to_string(path).unwrap_or_default();
        let mut seen = std::collections::BTreeSet::new();
        for line in text.lines() {
            let parts: Vec<&str> = line.split('\t').collect();
            let Some(pos) = parts.iter().position(|p| *p == "enc") else { continue };
            let Some(gen) = parts.get(pos + 1) else { continue };
            let nums: Vec<u64> = gen.split('.').filter_map(|x| x.parse().ok()).collect();
            if nums.len() == 4 && seen.insert((nums[0], nums[1], nums[2])) {
                run_case(&mut out, nums[0], nums[1], nums[2], per_lib);
            }
        }
        out.finish();
        return;
    }
    let n = args.num("cases", if args.thorough() { 4000 } else { 400 }) as u64;
    let only = args.extra.get("only").and_then(|s| s.parse::<u64>().ok());
    for i in 0..n {
        if only.is_some() && only != Some(i) {
            continue;
        }
        run_case(&mut out, args.seed, shard, i, per_lib);
    }
    out.finish();
}
