//! C14: no input crashes the front end; diagnostics point inside the source.
//!
//! Supervisor / worker: the supervisor (default mode) feeds jobs to a *child process* running this
//! same binary with `--worker 1`, one job per line, and waits for one answer line per job with a
//! wall-clock limit.  A child that dies (stack overflow, abort) or does not answer in time is
//! reported with the job that killed it, and a fresh child takes over.  Inside the worker every
//! job runs under `catch_unwind`.
//!
//! Jobs:
//!   text    <source>                 Document::parse; spans of the tree / of the diagnostic must lie
//!                                    inside the source on character boundaries; the diagnostic is
//!                                    rendered with miette's graphical handler
//!   bytes   <hex>                    wac_types::Package::from_bytes
//!   resolve <source> <name[@v]=hex,…> Document::parse, Document::resolve with these packages,
//!                                    Resolution::encode; every diagnostic rendered, every label
//!                                    inside the source
//! Failures are decided here (`Out::fail`): panic, crash, time-out, span outside the source,
//! rendering failure.  `text` cases are also sent to the Lean driver (model verdict, totality and
//! span monitor), except the deep-nesting ladders (kind `deep`).
#[path = "../parse_obs.rs"]
mod parse_obs;
#[path = "../wacgen.rs"]
mod wacgen;
#[path = "../c14_pairs.rs"]
mod c14_pairs;
use indexmap::IndexMap;
use miette::{Diagnostic, GraphicalReportHandler, GraphicalTheme, NamedSource, Report};
use parse_obs::*;
use std::io::{BufRead, BufReader, Write};
use std::process::{Child, ChildStdin, Command, Stdio};
use std::sync::mpsc::{channel, Receiver, RecvTimeoutError};
use std::time::Duration;
use wac_graph::types::BorrowedPackageKey;
use wac_graph::EncodeOptions;
use wac_parser::Document;
use wacgen::*;
use wacv::*;

// ------------------------------------------------------------------------------------------------
// worker

fn render<E: Diagnostic + Send + Sync + 'static>(e: E, source: &str) -> Result<String, String> {
    let mut s = String::new();
    let report: Report = e.into();
    let r = GraphicalReportHandler::new()
        .with_cause_chain()
        .with_theme(GraphicalTheme::unicode_nocolor())
        .render_report(&mut s, report.with_source_code(NamedSource::new("test.wac", source.to_string())).as_ref());
    match r {
        Ok(()) => Ok(s),
        Err(e) => Err(format!("render error: {e}")),
    }
}

fn labels_ok(e: &dyn Diagnostic, source: &str) -> Result<(), String> {
    if let Some(labels) = e.labels() {
        for l in labels {
            if !span_ok(source, (l.offset(), l.len())) {
                return Err(format!("label ({},{}) outside the source (len {})", l.offset(), l.len(), source.len()));
            }
        }
    }
    Ok(())
}

fn hex(b: &[u8]) -> String {
    let mut s = String::with_capacity(b.len() * 2);
    for x in b {
        s.push_str(&format!("{:02x}", x));
    }
    s
}

fn unhex(s: &str) -> Vec<u8> {
    (0..s.len() / 2).filter_map(|i| u8::from_str_radix(&s[2 * i..2 * i + 2], 16).ok()).collect()
}

/// returns "status" (for a rejection followed by `\u{1}` and the canonical error string) or Err(problem)
fn job_text(src: &str) -> Result<String, String> {
    match Document::parse(src) {
        Ok(doc) => {
            let v = serde_json::to_value(&doc).map_err(|e| format!("serialize: {e}"))?;
            let mut spans = Vec::new();
            spans_of(&v, &mut spans);
            for s in spans {
                if !span_ok(src, s) {
                    return Err(format!("tree span ({},{}) outside the source or off a character boundary", s.0, s.1));
                }
            }
            Ok("accept".into())
        }
        Err(e) => {
            let (es, span) = err_str(&e);
            if !span_ok(src, span) {
                return Err(format!("diagnostic span outside the source or off a character boundary: {es}"));
            }
            labels_ok(&e, src)?;
            let variant = es.split('|').next().unwrap_or("").to_string();
            render(e, src)?;
            Ok(format!("reject:{variant}\u{1}{es}"))
        }
    }
}

fn job_bytes(bytes: Vec<u8>) -> Result<String, String> {
    let mut types = wac_graph::types::Types::default();
    match wac_graph::types::Package::from_bytes("test:pkg", None, bytes, &mut types) {
        Ok(_) => Ok("decoded".into()),
        Err(e) => {
            let _ = format!("{e:?}");
            Ok("decode-error".into())
        }
    }
}

fn job_resolve(src: &str, pkgs: &str) -> Result<String, String> {
    let doc = match Document::parse(src) {
        Ok(d) => d,
        Err(e) => {
            render(e, src)?;
            return Ok("parse-error".into());
        }
    };
    let mut store: Vec<(String, Option<semver::Version>, Vec<u8>)> = Vec::new();
    for item in pkgs.split(',').filter(|s| !s.is_empty()) {
        let (key, hx) = item.split_once('=').unwrap_or((item, ""));
        let (name, version) = match key.split_once('@') {
            Some((n, v)) => (n.to_string(), semver::Version::parse(v).ok()),
            None => (key.to_string(), None),
        };
        store.push((name, version, unhex(hx)));
    }
    let mut packages: IndexMap<BorrowedPackageKey, Vec<u8>> = IndexMap::new();
    for (name, version, bytes) in &store {
        packages.insert(BorrowedPackageKey::from_name_and_version(name, version.as_ref()), bytes.clone());
    }
    match doc.resolve(packages) {
        Ok(resolution) => match resolution.encode(EncodeOptions::default()) {
            Ok(bytes) => Ok(format!("encoded:{}", bytes.len() > 0)),
            Err(e) => {
                labels_ok(&e, src)?;
                let name = format!("{:?}", e).split(|c: char| !c.is_alphanumeric()).next().unwrap_or("").to_string();
                render(e, src)?;
                Ok(format!("encode-error:{name}"))
            }
        },
        Err(e) => {
            labels_ok(&e, src)?;
            let name = format!("{:?}", e).split(|c: char| !c.is_alphanumeric()).next().unwrap_or("").to_string();
            render(e, src)?;
            Ok(format!("resolve-error:{name}"))
        }
    }
}

fn worker() {
    quiet_panics();
    let stdin = std::io::stdin();
    let stdout = std::io::stdout();
    for line in stdin.lock().lines() {
        let Ok(line) = line else { break };
        let parts: Vec<String> = line.split('\t').map(|s| s.to_string()).collect();
        let kind = parts.first().cloned().unwrap_or_default();
        let a = parts.get(1).map(|s| unesc_field(s)).unwrap_or_default();
        let b = parts.get(2).map(|s| unesc_field(s)).unwrap_or_default();
        let r = guarded(move || match kind.as_str() {
            "text" | "deep" => job_text(&a),
            "bytes" => job_bytes(unhex(&a)),
            "resolve" => job_resolve(&a, &b),
            _ => Err("unknown job".into()),
        });
        let answer = match r {
            Ok(Ok(status)) => match status.split_once('\u{1}') {
                Some((st, detail)) => format!("ok\t{}\t{}", esc(st), esc(detail)),
                None => format!("ok\t{}", esc(&status)),
            },
            Ok(Err(problem)) => format!("bad\t{}", esc(&problem)),
            Err(p) => format!("panic\t{}", esc(&p)),
        };
        let mut o = stdout.lock();
        let _ = writeln!(o, "{}", answer);
        let _ = o.flush();
    }
}

// ------------------------------------------------------------------------------------------------
// supervisor

struct Worker {
    child: Child,
    stdin: ChildStdin,
    rx: Receiver<String>,
}

fn spawn_worker() -> Worker {
    let exe = std::env::current_exe().expect("current_exe");
    let mut child = Command::new(exe)
        .arg("--worker")
        .arg("1")
        .stdin(Stdio::piped())
        .stdout(Stdio::piped())
        .stderr(Stdio::null())
        .spawn()
        .expect("spawn worker");
    let stdin = child.stdin.take().unwrap();
    let stdout = child.stdout.take().unwrap();
    let (tx, rx) = channel();
    std::thread::spawn(move || {
        for line in BufReader::new(stdout).lines() {
            match line {
                Ok(l) => {
                    if tx.send(l).is_err() {
                        break;
                    }
                }
                Err(_) => break,
            }
        }
    });
    Worker { child, stdin, rx }
}

enum Answer {
    /// status, detail (the canonical error string of a rejected text)
    Ok(String, String),
    Bad(String),
    Panic(String),
    Crash(String),
    Timeout,
}

struct Sup {
    w: Worker,
    out: Out,
    timeout: Duration,
}

impl Sup {
    fn run(&mut self, kind: &str, a: &str, b: &str) -> Answer {
        let line = format!("{}\t{}\t{}\n", kind, esc(a), esc(b));
        if self.w.stdin.write_all(line.as_bytes()).is_err() || self.w.stdin.flush().is_err() {
            return self.crashed();
        }
        match self.w.rx.recv_timeout(self.timeout) {
            Ok(l) => {
                let parts: Vec<&str> = l.split('\t').collect();
                let d = parts.get(1).map(|s| unesc_field(s)).unwrap_or_default();
                match parts.first().copied() {
                    Some("ok") => Answer::Ok(d, parts.get(2).map(|s| unesc_field(s)).unwrap_or_default()),
                    Some("bad") => Answer::Bad(d),
                    Some("panic") => Answer::Panic(d),
                    _ => Answer::Bad(format!("unreadable answer {l:?}")),
                }
            }
            Err(RecvTimeoutError::Timeout) => {
                let _ = self.w.child.kill();
                let _ = self.w.child.wait();
                self.w = spawn_worker();
                Answer::Timeout
            }
            Err(RecvTimeoutError::Disconnected) => self.crashed(),
        }
    }
    fn crashed(&mut self) -> Answer {
        let status = self.w.child.wait().map(|s| format!("{s}")).unwrap_or_else(|e| format!("wait failed: {e}"));
        self.w = spawn_worker();
        Answer::Crash(status)
    }

    /// one case: run the job, write the case line, report failures
    fn case(&mut self, kind: &str, origin: &str, a: &str, b: &str) {
        self.case_expect(kind, origin, a, b, None)
    }

    /// `expect`: what the nesting limit implies for a well-formed text whose bracket depth is
    /// known — `Some(true)`: at most the limit, it has to be accepted; `Some(false)`: deeper, it has
    /// to be rejected with `NestingTooDeep`
    fn case_expect(&mut self, kind: &str, origin: &str, a: &str, b: &str, expect: Option<bool>) {
        let mut ans = self.run(kind, a, b);
        if let Answer::Timeout = ans {
            // a loaded machine can make a job slow: only a job that also exceeds ten times the
            // limit in a fresh worker is reported
            self.out.count("watchdog:retry");
            let base = self.timeout;
            self.timeout = base * 10;
            ans = self.run(kind, a, b);
            self.timeout = base;
        }
        self.out.count(&format!("origin:{}", origin));
        let shown_a = if a.len() > 4000 { format!("{}…[{} bytes]…{}", &a[..safe_cut(a, 300)], a.len(), &a[a.len() - safe_cut_back(a, 100)..]) } else { a.to_string() };
        let (status, fail): (String, Option<(String, String)>) = match ans {
            Answer::Ok(s, detail) => {
                self.out.count(&format!("status:{}", s.split(':').take(2).collect::<Vec<_>>().join(":")));
                let too_deep = detail.starts_with("Lexer|NestingTooDeep|");
                let fail = match expect {
                    Some(true) if s != "accept" => {
                        Some((format!("{origin}: a well-formed text within the nesting limit is rejected"), format!("status {s} {detail}")))
                    }
                    Some(false) if !too_deep => {
                        Some((format!("{origin}: nesting beyond the limit is not reported as NestingTooDeep"), format!("status {s} {detail}")))
                    }
                    _ => None,
                };
                if let Some(e) = expect {
                    self.out.count(if e { "ladder:expected-accept" } else { "ladder:expected-too-deep" });
                }
                (s, fail)
            }
            Answer::Bad(p) => ("bad".into(), Some((format!("{origin}: {}", first_words(&p)), p))),
            Answer::Panic(p) => ("panic".into(), Some((format!("{origin}: panic"), p))),
            Answer::Crash(s) => ("crash".into(), Some((format!("{origin}: worker process died ({s})"), s))),
            Answer::Timeout => ("timeout".into(), Some((format!("{origin}: no answer within {:?} (second attempt)", self.timeout * 10), String::new()))),
        };
        // only `text` cases of moderate size go to the Lean driver (the ladders around the nesting
        // limit are a few times longer than the other texts)
        let driver_max = if origin.starts_with("ladder") { 12_000 } else { 3000 };
        let driver_kind = if kind == "text" && a.len() <= driver_max { "text" } else { "other" };
        let id = if driver_kind == "text" {
            let a2 = a.to_string();
            let flag = guarded(move || lex_obs(&a2).map(|x| x.1)).ok().flatten().unwrap_or_else(|| "-".into());
            self.out.case(true, "text", &[esc(a), esc(&status), flag])
        } else {
            // the payload is kept (for --replay) unless it is large
            let keep = a.len() + b.len() <= 60_000;
            self.out.case(true, "other", &[esc(kind), esc(origin), esc(&status), (a.len() + b.len()).to_string(),
                if keep { esc(a) } else { "-".into() }, if keep { esc(b) } else { "-".into() }])
        };
        if let Some((sig, detail)) = fail {
            self.out.fail(&id, &sig, &format!("{detail} kind={kind} input={:?} packages={}", shown_a, if b.len() > 300 { &b[..300] } else { b }));
        }
    }
}

fn safe_cut(s: &str, n: usize) -> usize {
    let mut n = n.min(s.len());
    while !s.is_char_boundary(n) {
        n -= 1;
    }
    n
}
fn safe_cut_back(s: &str, n: usize) -> usize {
    let mut n = n.min(s.len());
    while !s.is_char_boundary(s.len() - n) {
        n -= 1;
    }
    n
}
fn first_words(s: &str) -> String {
    s.split(|c: char| c == '(' || c == ':').next().unwrap_or("").trim().to_string()
}

fn unesc_field(s: &str) -> String {
    let mut out = String::new();
    let mut it = s.chars();
    while let Some(c) = it.next() {
        if c == '\\' {
            let mut h = String::new();
            for d in it.by_ref() {
                if d == ';' {
                    break;
                }
                h.push(d);
            }
            if h == "e" {
                continue;
            }
            if let Some(ch) = u32::from_str_radix(&h, 16).ok().and_then(char::from_u32) {
                out.push(ch);
            }
        } else {
            out.push(c);
        }
    }
    out
}

// ------------------------------------------------------------------------------------------------
// inputs

const WITS: &[(&str, &str)] = &[
    ("package test:a;\nworld w { export f: func() -> u32; }", "w"),
    ("package test:b@1.0.0;\ninterface types { record r { a: u8, b: string } variant v { x, y(u32) } enum e { p, q } flags fl { m, n } resource res { constructor(a: u8); get: func() -> u8; make: static func() -> res; } type t = tuple<u8, list<string>, option<r>, result<v, e>>; f: func(x: borrow<res>) -> t; }\nworld w { import types; export types; export run: func(); }", "w"),
    ("package test:c;\ninterface i { f: func(s: string) -> string; }\nworld w { import i; import g: func(a: list<u8>) -> result<_, string>; export i; }", "w"),
    ("package test:d@0.2.0;\nworld w { import wasi:io/streams@0.2.0; export h: func(); }\npackage wasi:io@0.2.0 { interface streams { resource input-stream; read: func(s: borrow<input-stream>) -> list<u8>; } }", "w"),
];

fn component_from_wit(wit: &str, world: &str) -> anyhow::Result<Vec<u8>> {
    let mut resolve = wit_parser::Resolve::default();
    let pkg = resolve.push_str("test.wit", wit)?;
    let world = resolve.select_world(&[pkg], Some(world))?;
    let mut module = wit_component::dummy_module(&resolve, world, wit_parser::ManglingAndAbi::Standard32);
    wit_component::embed_component_metadata(&mut module, &resolve, world, wit_component::StringEncoding::UTF8)?;
    wit_component::ComponentEncoder::default().module(&module)?.validate(true).encode()
}

fn wit_package(wit: &str) -> anyhow::Result<Vec<u8>> {
    let mut resolve = wit_parser::Resolve::default();
    let pkg = resolve.push_str("test.wit", wit)?;
    wit_component::encode(&resolve, pkg)
}

fn mutate_bytes(r: &mut Rng, b: &[u8]) -> Vec<u8> {
    let mut v = b.to_vec();
    if v.is_empty() {
        return v;
    }
    match r.below(9) {
        6..=8 => {
            // a character of an embedded name (a letter between letters) becomes a name separator
            // or another name character: lengths stay valid, only the *name* changes
            let letters: Vec<usize> = (1..v.len().saturating_sub(1))
                .filter(|&i| v[i].is_ascii_lowercase() && v[i - 1].is_ascii_lowercase() && v[i + 1].is_ascii_lowercase())
                .collect();
            if !letters.is_empty() {
                let i = letters[r.below(letters.len())];
                v[i] = *r.pick(&[b':', b'/', b'@', b'-', b'.', b'%', b'A', b'0', b'_', b'#', b'+']);
            }
        }
        0 => {
            let n = r.below(v.len());
            v.truncate(n);
        }
        1 => {
            let i = r.below(v.len());
            v[i] ^= 1 << r.below(8);
        }
        2 => {
            let i = r.below(v.len());
            v[i] = r.next() as u8;
        }
        3 => {
            let i = r.below(v.len());
            v.remove(i);
        }
        4 => {
            let i = r.below(v.len());
            v.insert(i, r.next() as u8);
        }
        _ => {
            // several flips after the 8-byte header
            for _ in 0..(1 + r.below(4)) {
                let i = 8.min(v.len() - 1) + r.below(v.len() - 8.min(v.len() - 1));
                v[i] = r.next() as u8;
            }
        }
    }
    v
}

fn unicode_soup(r: &mut Rng) -> String {
    const PIECES: &[&str] = &[
        "package", " ", "\n", "\t", "\r", "a:b", ";", "{", "}", "(", ")", "<", ">", ",", ":", "=", "->", "...", ".", "/", "@", "%", "_", "-", "\"",
        "//", "/*", "*/", "///", "/**", "let", "x", "new", "import", "export", "interface", "world", "type", "u8", "tuple", "list", "result",
        "1.0.0", "\u{e9}", "\u{4e16}\u{754c}", "\u{1f600}", "\u{301}", "\u{5d0}", "\u{a0}", "\u{200b}", "\u{feff}", "\u{202e}", "\u{2066}", "\u{149}",
        "\u{0}", "\u{7f}", "\u{85}", "\u{c}", "\u{2028}", "\u{10ffff}", "\u{fffd}", "#", "!", "\\", "'", "`", "0", "9", "A", "Z",
    ];
    let n = r.below(40);
    let mut s = String::new();
    for _ in 0..n {
        s.push_str(PIECES[r.below(PIECES.len())]);
    }
    s
}

/// character-level mutation of a text
fn mutate_text(r: &mut Rng, s: &str) -> String {
    let chars: Vec<char> = s.chars().collect();
    if chars.is_empty() {
        return unicode_soup(r);
    }
    let mut v = chars.clone();
    let i = r.below(v.len());
    const CH: &[char] = &['\u{e9}', '\u{1f600}', '"', '/', '*', '{', '}', '(', ')', '<', '>', ';', ':', '-', '%', '@', '.', ',', ' ', '\n', 'a', '0', '\u{0}', '\u{202e}'];
    match r.below(5) {
        0 => {
            v.remove(i);
        }
        1 => v.insert(i, CH[r.below(CH.len())]),
        2 => v[i] = CH[r.below(CH.len())],
        3 => {
            let j = r.below(v.len());
            v.swap(i, j);
        }
        _ => {
            let j = (i + 1 + r.below(8)).min(v.len());
            let chunk: Vec<char> = v[i..j].to_vec();
            for (k, c) in chunk.into_iter().enumerate() {
                v.insert(i + k, c);
            }
        }
    }
    v.into_iter().collect()
}

/// number of ladder shapes
const LADDER_SHAPES: usize = 22;

/// `open`×n `core` `close`×n
fn nest(open: &str, core: &str, close: &str, n: usize) -> String {
    let mut s = String::with_capacity((open.len() + close.len()) * n + core.len());
    for _ in 0..n {
        s.push_str(open);
    }
    s.push_str(core);
    for _ in 0..n {
        s.push_str(close);
    }
    s
}

/// Shapes 0–9: plain nesting / plain length.  Shapes 10–17: every level closes a sibling bracket
/// pair (of the same or another kind) before — and in 15 also after — it goes one level deeper, so
/// that the depth of the parser's recursion and the number of brackets open at a time differ from
/// what plain nesting gives; all three bracket kinds and their mixtures.  Shapes 18–21: `n` closed
/// bracket pairs in a row (flat) followed by nesting exactly as deep as `tail` (the callers pass
/// the limit, or 100 when there is none): accepted however long the flat part is.
fn ladder(shape: usize, n: usize, tail: usize) -> String {
    // sibling shapes of types: the nested type is the last argument
    let sib_angle = |n: usize| nest("tuple<list<u8>, ", "u8", ">", n);
    match shape {
        0 => format!("package a:b; let x = {}y{};", "(".repeat(n), ")".repeat(n)),
        1 => format!("package a:b; type t = {}u8{};", "list<".repeat(n), ">".repeat(n)),
        2 => format!("package a:b; type t = {}u8{};", "tuple<".repeat(n), ">".repeat(n)),
        3 => format!("package a:b; type t = {}u8{};", "option<result<".repeat(n), ">>".repeat(n)),
        4 => format!("package a:b; let x = {}y{};", "new a:b { z: ".repeat(n), " }".repeat(n)),
        5 => format!("package a:b; {} let x = y;", "/*".repeat(n) + &"*/".repeat(n)),
        6 => format!("package a:b; let x = y{};", ".z[\"q\"]".repeat(n)),
        7 => format!("package a:b; let x = {}y;", "(".repeat(n)),
        8 => format!("package a:b; {}", "/*".repeat(n)),
        9 => format!("package a:b; interface i {{ {} }}", "f: func(a: u8) -> u8; ".repeat(n)),
        // `{` below `{` with a closed `{}` sibling at every level
        10 => format!("package a:b; let x = {};", nest("new a:b{x: new c:d{}, y: ", "new c:d{}", "}", n)),
        // `<` below `<` with a closed `<>` sibling
        11 => format!("package a:b; type t = {};", sib_angle(n)),
        // `{` below `{` with a closed `()` sibling
        12 => format!("package a:b; let x = {};", nest("new a:b{x: (q), y: ", "q", "}", n)),
        // `(` and `{` alternating with a closed `{}` and a closed `()` sibling
        13 => format!("package a:b; let x = {};", nest("(new a:b{x: new c:d{}, y: (q), z: ", "q", "})", n)),
        // two kinds of closed `<>` siblings per level, two levels per step
        14 => format!("package a:b; type t = {};", nest("result<option<u8>, tuple<list<u8>, ", "u8", ">>", n)),
        // closed siblings before and after the nested one
        15 => format!("package a:b; type t = {};", nest("tuple<list<u8>, ", "u8", ", option<u8>>", n)),
        // `{` `{` `(` `<`…: a function type in an inline interface of a world
        16 => format!("package a:b; world w {{ import i: interface {{ f: func(a: list<u8>, b: {}) -> list<u8>; }}; }}", sib_angle(n)),
        // closed bodies (`{}` with `<>` inside) before the nested type, in an open body
        17 => format!("package a:b; interface i {{ record r {{ a: list<u8>, }} variant v {{ c(option<u8>), }} type t = {}; }}", sib_angle(n)),
        // flat: closed `{}` and `()` pairs, then plain nesting of `(`
        18 => format!("package a:b; {}let x = {};", "interface i{}let a=(b);".repeat(n), nest("(", "y", ")", tail)),
        // flat: closed `<>` pairs inside closed `{}`, then plain nesting of `<`
        19 => format!("package a:b; {}type t = {};", "record r{a: list<u8>}".repeat(n), nest("list<", "u8", ">", tail)),
        // flat inside one open body: closed pairs of all kinds, then nesting up to the limit
        20 => format!("package a:b; interface i {{ {}type t = {}; }}", "f: func(a: list<u8>);".repeat(n), nest("list<", "u8", ">", tail.saturating_sub(1))),
        // flat arguments of one `new`, then nesting up to the limit in the last argument
        _ => format!("package a:b; let x = new a:b{{{}z: {}}};", "x: new c:d{}, y: (q), ".repeat(n), nest("(", "y", ")", tail.saturating_sub(1))),
    }
}

/// is every text of this shape well-formed (so that only the nesting limit can reject it)?
fn ladder_well_formed(shape: usize) -> bool {
    matches!(shape, 0..=4 | 10..=21)
}

/// does the depth of this shape grow with `n` (nesting) or only its length?
fn ladder_nests(shape: usize) -> bool {
    matches!(shape, 0..=4 | 7 | 10..=17)
}

/// The largest number of brackets `(`, `<`, `{` open at a time: a textual scan (`->` is one
/// token, not a closing bracket; the ladder texts have no comments or strings with brackets
/// except shapes 5, 6 and 8, for which this is not used).
fn bracket_depth(text: &str) -> usize {
    let b = text.as_bytes();
    let (mut d, mut max, mut i) = (0usize, 0usize, 0usize);
    while i < b.len() {
        match b[i] {
            b'-' if i + 1 < b.len() && b[i + 1] == b'>' => i += 1,
            b'(' | b'<' | b'{' => {
                d += 1;
                max = max.max(d);
            }
            b')' | b'>' | b'}' => d = d.saturating_sub(1),
            _ => {}
        }
        i += 1;
    }
    max
}

/// `MAX_NESTING_DEPTH` of the lexer under test, read from its source like the translator of the
/// model does (`None`: no limit — then only crashes are failures)
fn nesting_limit(repo: &str) -> Option<usize> {
    let src = std::fs::read_to_string(format!("{repo}/crates/wac-parser/src/lexer.rs")).ok()?;
    let at = src.find("pub const MAX_NESTING_DEPTH: usize = ")?;
    let rest = &src[at + "pub const MAX_NESTING_DEPTH: usize = ".len()..];
    rest[..rest.find(';')?].trim().parse().ok()
}

fn main() {
    let args = Args::parse();
    if args.extra.contains_key("worker") {
        worker();
        return;
    }
    quiet_panics();
    let shard = args.num("shard", 0);
    let nshards = args.num("nshards", 1).max(1);
    let mut r = Rng::new(args.seed.wrapping_mul(1_000_003).wrapping_add(shard as u64 + 1414));
    let thorough = args.thorough();
    let mut sup = Sup {
        w: spawn_worker(),
        out: Out::create(&args.out, &format!("c14-{}-", shard)),
        timeout: Duration::from_secs(args.num("timeout", 20) as u64),
    };

    if let Some(path) = &args.replay {
        let text = std::fs::read_to_string(path).unwrap_or_default();
        for line in text.lines() {
            let parts: Vec<&str> = line.split('\t').collect();
            if parts.first() == Some(&"CASE") && parts.len() >= 5 && parts[3] == "text" {
                sup.case("text", "replay", &unesc_field(parts[4]), "");
            } else if parts.first() == Some(&"CASE") && parts.len() >= 10 && parts[3] == "other" && parts[8] != "-" {
                // other <kind> <origin> <status> <size> <a> <b>
                sup.case(&unesc_field(parts[4]), &unesc_field(parts[5]), &unesc_field(parts[8]), &unesc_field(parts[9]));
            }
        }
        sup.out.finish();
        return;
    }

    let repo = std::env::var("WACV_REPO").unwrap_or_else(|_| "/repo".into());
    let scale = |q: usize, t: usize| (if thorough { t } else { q }) / nshards;

    // 1. nesting ladders and fixed texts (shard 0)
    if shard == 0 {
        for s in ["", " ", "\u{e9}", "package", "package foo:bar", "package foo:bar // \u{e9}", "package foo:bar;\u{1f600}", "\"", "/*", "\u{feff}package a:b;"] {
            sup.case("text", "fixed", s, "");
        }
        let max_pow = args.num("ladder", 6);
        let base = sup.timeout;
        let limit = nesting_limit(&repo);
        sup.out.add("setup:nesting-limit", limit.unwrap_or(0) as u64);
        let tail = limit.unwrap_or(100);
        // what the limit implies for a well-formed ladder text
        let expect = |shape: usize, text: &str| -> Option<bool> {
            if !ladder_well_formed(shape) {
                return None;
            }
            limit.map(|l| bracket_depth(text) <= l)
        };
        // With a nesting limit in the lexer a dead worker is never the known finding of the tree
        // without one (`ladder-nesting: worker process died`): the origin says which tree it is.
        let nesting_origin = if limit.is_some() { "ladder-bounded-nesting" } else { "ladder-nesting" };
        let origin = |shape: usize| if ladder_nests(shape) { nesting_origin.to_string() } else { "ladder-length".to_string() };
        for shape in 0..LADDER_SHAPES {
            let mut n = 10;
            for _ in 1..=max_pow {
                let text = ladder(shape, n, tail);
                // long flat inputs are only slow (linear), not dangerous: keep them below 3 MB
                // (the flat shapes with closed siblings, all accepted in full: 300 kB in the quick tier)
                let cap = if shape >= 18 && !thorough { 300_000 } else { 3_000_000 };
                if text.len() <= cap {
                    let kind = if n >= 1000 { "deep" } else { "text" };
                    sup.timeout = base + Duration::from_secs(60 * (text.len() as u64 / 1_000_000 + 1));
                    let t0 = std::time::Instant::now();
                    sup.case_expect(kind, &origin(shape), &text, "", expect(shape, &text));
                    if std::env::var_os("WACV_DEBUG").is_some() {
                        eprintln!("ladder shape {shape} n {n} bytes {} took {:?}", text.len(), t0.elapsed());
                    }
                }
                n *= 10;
            }
        }
        sup.timeout = base;
        // around the nesting limit of the lexer (if it has one): the depth of a shape is affine
        // in `n`; for every target depth the smallest `n` that reaches it
        let targets: Vec<usize> = match limit {
            Some(l) if l >= 30 => vec![l - 28, l - 2, l - 1, l, l + 1, l + 2, l + 72, l + 372],
            _ => vec![100, 126, 127, 128, 129, 130, 200, 500],
        };
        for shape in (0..LADDER_SHAPES).filter(|s| ladder_nests(*s)) {
            let d = |n: usize| bracket_depth(&ladder(shape, n, tail));
            let (d1, d2) = (d(1), d(2));
            let step = d2.saturating_sub(d1).max(1);
            for t in &targets {
                let n = (t.saturating_sub(d1) + step - 1) / step + 1;
                let text = ladder(shape, n, tail);
                sup.case_expect("text", nesting_origin, &text, "", expect(shape, &text));
            }
        }
        // closed bracket pairs in a row before nesting exactly up to / one beyond the limit
        for shape in (0..LADDER_SHAPES).filter(|s| !ladder_nests(*s) && ladder_well_formed(*s)) {
            for n in [0usize, 1, 40, 150, 400] {
                for tl in [tail.saturating_sub(1), tail, tail + 1] {
                    let text = ladder(shape, n, tl);
                    sup.case_expect("text", "ladder-length", &text, "", expect(shape, &text));
                }
            }
        }
    }

    // 2. arbitrary Unicode
    for _ in 0..scale(6_000, 600_000) {
        let s = unicode_soup(&mut r);
        sup.case("text", "unicode-soup", &s, "");
    }

    // 3. grammar documents, token mutants, character mutants, truncations
    let files: Vec<String> = wac_files(&repo).into_iter().filter_map(|p| std::fs::read_to_string(p).ok()).collect();
    for _ in 0..scale(600, 60_000) {
        let doc = Gen::new(&mut r).document(4);
        let text = layout(&mut r, &doc.toks);
        sup.case("text", "generated", &text, "");
        for _ in 0..6 {
            let mut t = mutate_text(&mut r, &text);
            if r.chance(1, 3) {
                t = mutate_text(&mut r, &t);
            }
            sup.case("text", "char-mutant", &t, "");
        }
        let muts = all_mutations(doc.toks.len(), 1);
        for _ in 0..4 {
            let m = muts[r.below(muts.len())];
            let v = apply(&mut r, &doc.toks, m);
            sup.case("text", "token-mutant", &layout(&mut r, &v), "");
        }
        let idx: Vec<usize> = text.char_indices().map(|(i, _)| i).collect();
        for _ in 0..3 {
            sup.case("text", "truncated", &text[..idx[r.below(idx.len())]], "");
        }
    }
    if !files.is_empty() {
        for _ in 0..scale(1_500, 100_000) {
            let f = &files[r.below(files.len())];
            let t = match r.below(3) {
                0 => {
                    let idx: Vec<usize> = f.char_indices().map(|(i, _)| i).collect();
                    if idx.is_empty() { String::new() } else { f[..idx[r.below(idx.len())]].to_string() }
                }
                _ => mutate_text(&mut r, f),
            };
            sup.case("text", "repo-file-mutant", &t, "");
        }
    }

    // 4. package byte strings
    let mut components: Vec<Vec<u8>> = Vec::new();
    for (wit, world) in WITS {
        match guarded(|| component_from_wit(wit, world)) {
            Ok(Ok(b)) => components.push(b),
            Ok(Err(e)) => sup.out.count(&format!("setup:component-from-wit-failed:{}", first_words(&format!("{e}")))),
            Err(_) => sup.out.count("setup:component-from-wit-panicked"),
        }
        if let Ok(Ok(b)) = guarded(|| wit_package(wit)) {
            components.push(b);
        }
    }
    if let Ok(m) = wat::parse_str("(module (func (export \"f\")))") {
        components.push(m);
    }
    if let Ok(c) = wat::parse_str("(component (core module (func (export \"f\"))) (import \"x\" (func)))") {
        components.push(c);
    }
    sup.out.add("setup:valid-binaries", components.len() as u64);
    for c in if shard == 0 { components.clone() } else { Vec::new() } {
        sup.case("bytes", "bytes-valid", &hex(&c), "");
        for cut in [0, 1, 4, 7, 8, 9, c.len() / 2, c.len().saturating_sub(1)] {
            sup.case("bytes", "bytes-truncated", &hex(&c[..cut.min(c.len())]), "");
        }
    }
    for _ in 0..scale(4_000, 400_000) {
        let b = if components.is_empty() || r.chance(1, 10) {
            let n = r.below(64);
            let mut v: Vec<u8> = (0..n).map(|_| r.next() as u8).collect();
            if r.chance(1, 2) {
                let mut h = vec![0, 0x61, 0x73, 0x6d, 0x0d, 0, 1, 0];
                h.append(&mut v);
                v = h;
            }
            v
        } else {
            let c = components[r.below(components.len())].clone();
            let mut v = mutate_bytes(&mut r, &c);
            if r.chance(1, 4) {
                v = mutate_bytes(&mut r, &v);
            }
            v
        };
        let origin = "bytes-mutated";
        sup.case("bytes", origin, &hex(&b), "");
    }

    // 5. documents paired with missing / wrong / corrupted packages
    let mut pairs: Vec<(String, Vec<(String, Vec<u8>)>)> = Vec::new();
    let res_dir = format!("{repo}/crates/wac-parser/tests/resolution");
    for dir in [res_dir.clone(), format!("{res_dir}/fail")] {
        let Ok(rd) = std::fs::read_dir(&dir) else { continue };
        let mut paths: Vec<_> = rd.flatten().map(|e| e.path()).filter(|p| p.extension().map_or(false, |e| e == "wac")).collect();
        paths.sort();
        for p in paths {
            let Ok(src) = std::fs::read_to_string(&p) else { continue };
            let src = src.replace("\r\n", "\n");
            let root = p.parent().unwrap().join(p.file_stem().unwrap());
            let src2 = src.clone();
            let got = guarded(move || {
                let doc = Document::parse(&src2).ok()?;
                let keys = wac_resolver::packages(&doc).ok()?;
                let resolver = wac_resolver::FileSystemPackageResolver::new(root, Default::default(), false);
                let pk = resolver.resolve(&keys).ok()?;
                Some(pk.into_iter().map(|(k, v)| (format!("{k}"), v)).collect::<Vec<_>>())
            });
            if let Ok(Some(pk)) = got {
                pairs.push((src, pk));
            }
        }
    }
    sup.out.add("setup:document-package-pairs", pairs.len() as u64);
    let spec = |pk: &[(String, Vec<u8>)]| pk.iter().map(|(k, v)| format!("{k}={}", hex(v))).collect::<Vec<_>>().join(",");
    for (i, (src, pk)) in pairs.iter().enumerate() {
        if i % nshards != shard {
            continue;
        }
        sup.case("resolve", "pair-as-shipped", src, &spec(pk));
        sup.case("resolve", "pair-no-packages", src, "");
        for _ in 0..(if thorough { 40 } else { 4 }) {
            let mut pk2 = pk.clone();
            if pk2.is_empty() {
                break;
            }
            let j = r.below(pk2.len());
            let origin = match r.below(5) {
                0 => {
                    pk2.remove(j);
                    "pair-package-missing"
                }
                1 => {
                    let other = &pairs[r.below(pairs.len())].1;
                    if let Some(o) = other.first() {
                        pk2[j].1 = o.1.clone();
                    }
                    "pair-package-wrong"
                }
                2 => {
                    if !components.is_empty() {
                        pk2[j].1 = components[r.below(components.len())].clone();
                    }
                    "pair-package-wrong"
                }
                3 => {
                    let n = r.below(pk2[j].1.len().max(1));
                    pk2[j].1.truncate(n);
                    "pair-package-truncated"
                }
                _ => {
                    pk2[j].1 = mutate_bytes(&mut r, &pk2[j].1);
                    "pair-package-corrupted"
                }
            };
            sup.case("resolve", origin, src, &spec(&pk2));
        }
        // the document itself mutated, packages as shipped
        for _ in 0..(if thorough { 20 } else { 2 }) {
            let t = mutate_text(&mut r, src);
            sup.case("resolve", "pair-document-mutated", &t, &spec(pk));
        }
        // one package replaced by a generated one that exports, under the names the document
        // uses, types of unusual shapes
        let paths = c14_pairs::package_paths(src);
        for _ in 0..(if thorough { 30 } else { 3 }) {
            if pk.is_empty() {
                break;
            }
            let mut pk2 = pk.clone();
            let j = r.below(pk2.len());
            let key = pk2[j].0.clone();
            let (name, version) = match key.split_once('@') {
                Some((n, v)) => (n.to_string(), Some(v.to_string())),
                None => (key.clone(), None),
            };
            let mut tops: Vec<String> = paths.iter().filter(|(p, _)| p.split('@').next() == Some(name.as_str())).map(|(_, s)| s.clone()).collect();
            if tops.is_empty() || r.chance(1, 4) {
                tops.push((*r.pick(&["x", "baz", "i", "foo"])).to_string());
            }
            let g = c14_pairs::gen_package(&mut r, &name, version.as_deref(), &tops);
            match wat::parse_str(&g.wat) {
                Ok(bytes) => {
                    pk2[j].1 = bytes;
                    sup.case("resolve", "pair-package-generated", src, &spec(&pk2));
                }
                Err(e) => {
                    sup.out.count("setup:generated-wat-rejected");
                    if std::env::var_os("WACV_DEBUG").is_some() {
                        eprintln!("generated WAT rejected: {e}\n{}", g.wat);
                    }
                }
            }
        }
    }

    // 6. generated documents that name, in every syntactic position of a package path, the
    //    exports of generated packages whose exported types have unusual shapes
    for i in 0..scale(800, 80_000) {
        let g = c14_pairs::gen_named_package(&mut r);
        let bytes = match wat::parse_str(&g.wat) {
            Ok(b) => b,
            Err(e) => {
                sup.out.count("setup:generated-wat-rejected");
                if std::env::var_os("WACV_DEBUG").is_some() {
                    eprintln!("generated WAT rejected: {e}\n{}", g.wat);
                }
                continue;
            }
        };
        for sh in &g.shapes {
            // the outermost shape only: `component[label:instance]`, `instance`, `func`, …
            let outer: String = sh.chars().take_while(|c| *c != ',').take(48).collect();
            sup.out.count(&format!("generated-package:{}", outer));
        }
        if i % 4 == 0 {
            sup.case("bytes", "bytes-generated", &hex(&bytes), "");
        }
        let key = match &g.version {
            Some(v) => format!("{}@{}", g.name, v),
            None => g.name.clone(),
        };
        for _ in 0..3 {
            let doc = c14_pairs::gen_document(&mut r, &g);
            sup.case("resolve", "generated-pair", &doc, &format!("{}={}", key, hex(&bytes)));
        }
    }

    // 7. implicit and explicit imports on one name or semver track with equal and with conflicting
    //    types, in every order: every conflict has to come back from `Resolution::encode` as a
    //    diagnostic
    for _ in 0..scale(600, 60_000) {
        let (doc, pkgs) = c14_pairs::gen_conflict(&mut r);
        let mut items = Vec::new();
        for (name, wat) in &pkgs {
            match wat::parse_str(wat) {
                Ok(bytes) => items.push(format!("{}={}", name, hex(&bytes))),
                Err(_) => sup.out.count("setup:generated-wat-rejected"),
            }
        }
        sup.case("resolve", "generated-conflict", &doc, &items.join(","));
    }
    let _ = sup.w.child.kill();
    sup.out.finish();
}
