//! C12: the parser accepts exactly the documented grammar and builds the intended tree.
//!
//! Cases (kind `parse`):  <source> <ok|err> <full tree | error> <stripped tree | -> <flag>
//!   * documents generated from the grammar with randomised layout (white space, line and nested
//!     block comments, doc comments, `%` escapes);
//!   * every single-token deletion, duplication, adjacent swap and substitution of them;
//!   * every `.wac` file of the repository (and single-token mutants of a sample of their tokens
//!     re-laid out from the file's own token texts);
//!   * hand-written near misses, code-point screen cases, truncations.
//! Cases (kind `lex`):    <source> <token items | SCREEN> <flag>       token-level observation.
//! `flag` is `-`, or `shape=…` naming the known lexer-generator artefacts present in the text
//! (see `parse_obs::lex_obs`); it is what known_findings.d/parser.json matches on.
//! The harness itself decides: panics, and spans outside the source / off character boundaries.
#[path = "../parse_obs.rs"]
mod parse_obs;
#[path = "../wacgen.rs"]
mod wacgen;
use parse_obs::*;
use wacgen::*;
use wacv::*;

struct Ctx {
    out: Out,
}

impl Ctx {
    fn parse_case(&mut self, src: &str, nontrivial: bool, origin: &str) {
        let flag = match lex_obs(src) {
            Some((_, f)) => f,
            None => "-".to_string(),
        };
        if flag != "-" {
            self.out.count(&format!("flag:{}", flag));
        }
        let flag = flag.as_str();
        self.out.count(&format!("origin:{}", origin));
        match observe(src) {
            Obs::Ok(full, stripped, spans) => {
                self.out.count("result:accept");
                let id = self.out.case(nontrivial, "parse", &[esc(src), "ok".into(), esc(&full), esc(&stripped), flag.into()]);
                for s in spans {
                    if !span_ok(src, s) {
                        self.out.fail(&id, "tree span outside the source or off a character boundary", &format!("span=({},{}) source={:?}", s.0, s.1, src));
                        break;
                    }
                }
            }
            Obs::Err(e, span) => {
                let variant = e.split('|').next().unwrap_or("").to_string();
                self.out.count(&format!("result:reject:{}", variant));
                let id = self.out.case(nontrivial, "parse", &[esc(src), "err".into(), esc(&e), "-".into(), flag.into()]);
                if !span_ok(src, span) {
                    self.out.fail(&id, "diagnostic span outside the source or off a character boundary", &format!("error={} source={:?}", e, src));
                }
            }
            Obs::Panic(p) => {
                let id = self.out.case(nontrivial, "parse", &[esc(src), "panic".into(), esc(&p), "-".into(), flag.into()]);
                self.out.fail(&id, "Document::parse panicked", &format!("{} source={:?}", p, src));
            }
        }
    }

    fn lex_case(&mut self, src: &str) {
        match lex_obs(src) {
            None => {
                self.out.case(false, "lex", &[esc(src), "SCREEN".into(), "-".into()]);
            }
            Some((items, flag)) => {
                if flag != "-" {
                    self.out.count(&format!("lex:{}", flag));
                }
                self.out.case(items.len() > 1, "lex", &[esc(src), esc(&items.join(",")), flag]);
            }
        }
    }
}

const NEAR_MISSES: &[&str] = &[
    "",
    " ",
    "package",
    "package foo:bar",
    "package foo:bar;",
    "package foo:bar; ",
    "package foo:bar // \u{e9}",
    "package foo:bar;;",
    "package foo:bar targets a:b/c;",
    "package foo:bar targets a:b;",
    "package foo:bar; type f = func() -> ;",
    "package foo:bar; type f = func() -> u8;",
    "package foo:bar; type f = func() -> (a: u8);",
    "package foo:bar; type r = result<_>;",
    "package foo:bar; type r = result<_, _>;",
    "package foo:bar; type r = result<u8, _>;",
    "package foo:bar; type r = result<_, u8>;",
    "package foo:bar; type r = result<>;",
    "package foo:bar; type r = result;",
    "package foo:bar; type t = tuple<>;",
    "package foo:bar; type t = tuple<u8,>;",
    "package foo:bar; type t = tuple<u8,,>;",
    "package foo:bar; type t = tuple<,u8>;",
    "package foo:bar; type b = borrow<u8>;",
    "package foo:bar; type b = borrow<x>;",
    "package foo:bar; record r {}",
    "package foo:bar; variant v {}",
    "package foo:bar; enum e {}",
    "package foo:bar; flags f {}",
    "package foo:bar; record r { a: u8 b: u8 }",
    "package foo:bar; record r { a: u8,, }",
    "package foo:bar; enum e { a b }",
    "package foo:bar; interface i { use x.{}; }",
    "package foo:bar; interface i { use x.{a as}; }",
    "package foo:bar; world w { include x with {}; }",
    "package foo:bar; world w { include x with { a as b, }; }",
    "package foo:bar; world w { import a: b; export a:b/c; import f: func(); export i: interface { } ; }",
    "package foo:bar; world w { import interface; }",
    "package foo:bar; let x = new a:b {};",
    "package foo:bar; let x = new a:b { ... };",
    "package foo:bar; let x = new a:b { ..., c };",
    "package foo:bar; let x = new a:b { ...c, ... };",
    "package foo:bar; let x = new a:b { ...\n c };",
    "package foo:bar; let x = new a:b { ... c };",
    "package foo:bar; let x = new a:b { c, };",
    "package foo:bar; let x = new a:b { , };",
    "package foo:bar; let x = new a:b { c d };",
    "package foo:bar; let x = new a:b { \"s\" };",
    "package foo:bar; let x = new a:b { \"s\": y };",
    "package foo:bar; let x = new a:b/c {};",
    "package foo:bar; let let = x;",
    "package foo:bar; let %let = x;",
    "package foo:bar; let x = y",
    "package foo:bar; let x = y;;",
    "package foo:bar; let x = (y;",
    "package foo:bar; let x = y.;",
    "package foo:bar; let x = y[z];",
    "package foo:bar; let x = y[\"z\";",
    "package foo:bar; export x... as y;",
    "package foo:bar; export x as;",
    "package foo:bar; export x...;",
    "package foo:bar; import x: \"unterminated",
    "package foo:bar; /* unterminated",
    "package foo:bar; /* /* nested */ unterminated",
    "package foo:bar; /* /* nested */ ok */",
    "package foo:bar; import x as \"y\": a:b/c@1.0.0;",
    "package foo:bar; import x: a:b/c@1.0;",
    "package foo:bar@1.0.0;",
    "package foo:bar@1.0;",
    "package foo:bar@01.0.0;",
    "package foo:bar; interface i { resource r; resource s {} resource t { constructor(); m: static func(); n: func() -> u8; } }",
    "package foo:bar; resource r;",
    "package foo:bar; interface i { f: func(); g: h; }",
    "package foo:bar; interface i { f: static func(); }",
    "package foo:bar; let foo- = x;",
    "package foo:bar; let x = new c:d: {};",
    "package foo:bar; let x = new c:d- {};",
    "package foo:bar; let fooBar = x;",
    "package foo:bar; let FOO-bar = x;",
    "package foo:bar; use a:b/c@1.0.0.{x};",
    "package foo:bar; interface i { use a:b/c@1.0.0.{x}; }",
    "/// docs\npackage foo:bar;\n/// d1\n/** d2 */\n// plain\n/// d3\nlet x = y;",
    "package foo:bar;\n/// d1\r\n\r\n/// d2\nlet x = y;",
    "package foo:bar; /***/ /**/ /** */ let x = y;",
];

fn main() {
    let args = Args::parse();
    quiet_panics();
    let shard = args.num("shard", 0);
    let nshards = args.num("nshards", 1).max(1);
    let mut r = Rng::new(args.seed.wrapping_mul(1_000_003).wrapping_add(shard as u64));
    let mut cx = Ctx { out: Out::create(&args.out, &format!("c12-{}-", shard)) };

    if let Some(path) = &args.replay {
        let text = std::fs::read_to_string(path).unwrap_or_default();
        for line in text.lines() {
            let parts: Vec<&str> = line.split('\t').collect();
            if parts.first() == Some(&"CASE") && parts.len() >= 5 {
                let src = unesc_field(parts[4]);
                match parts[3] {
                    "lex" => cx.lex_case(&src),
                    _ => cx.parse_case(&src, true, "replay"),
                }
            }
        }
        cx.out.finish();
        return;
    }

    let thorough = args.thorough();
    let ndocs = args.num("docs", if thorough { 5000 } else { 300 }) / nshards;
    let subs = args.num("subs", if thorough { 3 } else { 2 });
    let max_mutants = args.num("mutants", if thorough { 400 } else { 150 });

    // 1. fixed near misses and repository files (shard 0 only)
    if shard == 0 {
        for s in NEAR_MISSES {
            cx.parse_case(s, true, "near-miss");
        }
        // around the nesting limit of the lexer (if it has one)
        for n in [100usize, 126, 127, 128, 129, 130, 200] {
            cx.parse_case(&format!("package a:b; let x = {}y{};", "(".repeat(n), ")".repeat(n)), true, "nesting");
            cx.parse_case(&format!("package a:b; type t = {}u8{};", "list<".repeat(n), ">".repeat(n)), true, "nesting");
            cx.parse_case(&format!("package a:b; type t = {}u8{};", "result<".repeat(n), ">".repeat(n)), true, "nesting");
            cx.parse_case(&format!("package a:b; type t = {}u8{};", "tuple<".repeat(n), ">".repeat(n)), true, "nesting");
            cx.parse_case(&format!("package a:b; let x = {}y{};", "new a:b { z: ".repeat(n), " }".repeat(n)), true, "nesting");
            cx.parse_case(&format!("package a:b; let x = {}y;", "(".repeat(n)), true, "nesting");
            cx.parse_case(&format!("package a:b; interface i {{ f: func(a: {}u8{}); }}", "option<".repeat(n), ">".repeat(n)), true, "nesting");
        }
        let repo = std::env::var("WACV_REPO").unwrap_or_else(|_| "/repo".into());
        for p in wac_files(&repo) {
            if let Ok(src) = std::fs::read_to_string(&p) {
                cx.parse_case(&src, true, "repo-file");
                // truncations of the file at a few character boundaries
                let idx: Vec<usize> = src.char_indices().map(|(i, _)| i).collect();
                for _ in 0..(if thorough { 12 } else { 3 }) {
                    if idx.is_empty() {
                        break;
                    }
                    let cut = idx[r.below(idx.len())];
                    cx.parse_case(&src[..cut], true, "repo-file-truncated");
                }
            }
        }
    }

    // 1b. showcase documents: every production, every single-token mutant (spread over the shards)
    for (i, doc) in SHOWCASE.iter().enumerate() {
        let toks: Vec<String> = doc.split(' ').map(String::from).collect();
        if shard == i % nshards {
            cx.parse_case(&layout_plain(&toks), true, "showcase");
            for _ in 0..4 {
                let t = layout(&mut r, &toks);
                cx.parse_case(&t, true, "showcase-layout");
            }
        }
        for (j, m) in all_mutations(toks.len(), subs).into_iter().enumerate() {
            if j % nshards != shard {
                continue;
            }
            let v = apply(&mut r, &toks, m);
            let src = if r.chance(1, 4) { layout(&mut r, &v) } else { layout_plain(&v) };
            cx.parse_case(&src, true, "showcase-mutant");
        }
    }
    // 1c. code points at chosen places: inside a line comment, a block comment, a doc comment, a
    //     string, an identifier, between tokens, at the very end
    if shard == 0 {
        let base = "package a:b; // line comment\n/* block */ /// doc\nlet xy = new a:b { \"str\": y };";
        let places: Vec<usize> = ["line", "block", "doc", "str\"", "xy", "= new", ""]
            .iter()
            .map(|needle| if needle.is_empty() { base.len() } else { base.find(needle).unwrap() + 1 })
            .collect();
        for cp in [
            '\u{80}', '\u{85}', '\u{90}', '\u{9f}', '\u{7f}', '\u{0}', '\u{1}', '\u{8}', '\u{b}', '\u{c}', '\u{f}', '\u{1b}', '\u{1f}', '\u{202a}', '\u{202b}',
            '\u{202c}', '\u{202d}', '\u{202e}', '\u{2066}', '\u{2067}', '\u{2068}', '\u{2069}', '\u{149}', '\u{673}', '\u{f77}', '\u{f79}', '\u{17a3}',
            '\u{17a4}', '\u{17b4}', '\u{17b5}', '\u{a0}', '\u{ad}', '\u{200b}', '\u{200e}', '\u{2028}', '\u{2029}', '\u{feff}', '\u{fffd}', '\u{e000}',
            '\u{10ffff}', '\t', '\r', '\n', '\u{e9}', '\u{148}', '\u{14a}', '\u{17b6}', '\u{2065}', '\u{206a}', '\u{a1}',
        ] {
            for &at in &places {
                let mut t = String::new();
                t.push_str(&base[..at]);
                t.push(cp);
                t.push_str(&base[at..]);
                cx.parse_case(&t, true, "code-point-placed");
            }
        }
    }

    // 2. generated documents, their layouts and their single-token mutants
    let mut counts = std::collections::BTreeMap::new();
    for _ in 0..ndocs {
        let doc = {
            let mut g = Gen::new(&mut r);
            let d = g.document(4);
            for (k, v) in g.counts {
                *counts.entry(k).or_insert(0u64) += v;
            }
            d
        };
        let nontrivial = doc.statements > 0;
        cx.out.add("gen:tokens", doc.toks.len() as u64);
        cx.parse_case(&layout_plain(&doc.toks), nontrivial, "generated-plain");
        cx.parse_case(&layout(&mut r, &doc.toks), nontrivial, "generated-layout");
        let mut muts = all_mutations(doc.toks.len(), subs);
        if muts.len() > max_mutants {
            r.shuffle(&mut muts);
            muts.truncate(max_mutants);
        }
        for m in muts {
            let v = apply(&mut r, &doc.toks, m);
            let src = if r.chance(1, 3) { layout(&mut r, &v) } else { layout_plain(&v) };
            let origin = match m {
                Mutation::Delete(_) => "mutant-delete",
                Mutation::Duplicate(_) => "mutant-duplicate",
                Mutation::Swap(_) => "mutant-swap",
                Mutation::Substitute(_) => "mutant-substitute",
            };
            cx.parse_case(&src, nontrivial, origin);
        }
        // truncation and code-point insertion
        let text = layout(&mut r, &doc.toks);
        let idx: Vec<usize> = text.char_indices().map(|(i, _)| i).collect();
        if !idx.is_empty() {
            let cut = idx[r.below(idx.len())];
            cx.parse_case(&text[..cut], nontrivial, "truncated");
            let at = idx[r.below(idx.len())];
            let cp = *r.pick(&[
                '\u{202e}', '\u{2066}', '\u{149}', '\u{17b5}', '\u{0}', '\u{7f}', '\u{85}', '\u{9f}', '\u{c}', '\u{b}', '\u{a0}',
                '\u{200b}', '\u{feff}', '\t', '\r', '\u{e9}', '\u{1f600}', '\u{2028}', '\u{1b}', '\u{202a}', '\u{673}',
            ]);
            let mut s = String::new();
            s.push_str(&text[..at]);
            s.push(cp);
            s.push_str(&text[at..]);
            cx.parse_case(&s, nontrivial, "code-point-inserted");
        }
    }
    for (k, v) in counts {
        cx.out.add(&format!("gen:{}", k), v);
    }

    // 3. lexer soups
    let nsoup = args.num("soups", if thorough { 60_000 } else { 4_000 }) / nshards;
    let alphabet: Vec<&str> = vec![
        "a", "b", "z", "A", "Z", "0", "9", "-", "-", ":", ":", "/", "@", ".", "%", "+", "_", " ", " ", "\n", "\"", "//", "/*", "*/", ";",
        "{", "}", "(", ")", "<", ">", ",", "=", "[", "]", "->", "...", "foo", "bar", "enum", "use", "as", "u8", "1.0.0", "\u{e9}", "#", "!",
        "x:y", "a:b/c", "@1", "\t", "\r",
    ];
    for _ in 0..nsoup {
        let n = 1 + r.below(12);
        let mut s = String::new();
        for _ in 0..n {
            let piece: &str = alphabet[r.below(alphabet.len())];
            s.push_str(piece);
        }
        cx.lex_case(&s);
    }
    cx.out.finish();
}

fn unesc_field(s: &str) -> String {
    let mut out = String::new();
    let mut it = s.chars();
    while let Some(c) = it.next() {
        if c == '\\' {
            let mut h = String::new();
            for d in it.by_ref() {
                if d == ';' {
                    break;
                }
                h.push(d);
            }
            if h == "e" {
                continue;
            }
            if let Some(ch) = u32::from_str_radix(&h, 16).ok().and_then(char::from_u32) {
                out.push(ch);
            }
        } else {
            out.push(c);
        }
    }
    out
}
