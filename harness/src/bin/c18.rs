//! C18: `FileSystemPackageResolver::resolve` on real scratch directories (see ../c18_core.rs).
//! This binary is linked against wac-resolver with the `wit` and `wat` features (harness
//! Cargo.toml); the same core is compiled a second time without them by `harness/c18x`.
mod api {
    pub use wacv::*;
}
#[path = "../c18_core.rs"]
mod c18_core;

fn main() {
    c18_core::run(api::Args::parse());
}
