//! C06: operation histories on the real `CompositionGraph`.
//!
//! One protocol line per sequence:
//!   <id> <N|T> seq <ops-text> <ctx tokens…> <nsteps> (<op tokens> <result tokens> <obs flag> [<obs tokens>])*
//! (see lean/Driver/C06.lean for the grammar).  `ops-text` is only used by `--replay`.
#[path = "../graph_util.rs"]
mod graph_util;
use graph_util::*;
use wacv::*;

fn main() {
    quiet_panics();
    let args = Args::parse();
    let shard = args.num("shard", 0);
    let nshards = args.num("nshards", 1).max(1);
    let mut out = Out::create(&args.out, &format!("c06-{}-", shard));
    let uni = Uni::build();
    let ctx = uni.ctx_tokens();

    if let Some(path) = &args.replay {
        let text = std::fs::read_to_string(path).expect("replay file");
        for line in text.lines() {
            if let Some(ops) = replay_ops(line, "seq") {
                let seq = parse_ops(&ops);
                run_sequence(&uni, &ctx, &mut out, &seq, ObsMode::All, true);
            }
        }
        out.finish();
        return;
    }

    // 1. exhaustive short sequences after a set of scenario prefixes
    let depth = args.num("depth", if args.thorough() { 3 } else { 2 });
    let cap = args.num("cap", if args.thorough() { 60 } else { 40 });
    let scenarios = scenarios();
    let mut counter = 0usize;
    for (si, sc) in scenarios.iter().enumerate() {
        let prefix = parse_ops(sc);
        let mut r = Rng::new(args.seed ^ (si as u64) << 32);
        exhaustive(&uni, &ctx, &mut out, &prefix, depth, cap, &mut r, shard, nshards, &mut counter);
    }

    // 2. random long sequences
    let nrand = args.num("random", if args.thorough() { 6000 } else { 400 });
    let maxlen = args.num("maxlen", 200);
    for i in 0..nrand {
        if i % nshards != shard {
            continue;
        }
        let mut r = Rng::new(args.seed.wrapping_mul(1_000_003).wrapping_add(i as u64 + 17));
        let len = 5 + r.below(maxlen - 4);
        let seq = random_sequence(&uni, &mut r, len);
        run_sequence(&uni, &ctx, &mut out, &seq, ObsMode::All, true);
    }
    out.finish();
}

/// scenario prefixes (ops text).  Package defs: 0 = test:a, 1 = test:b@1.0.0, 2 = test:c, 3 = test:a (other content)
fn scenarios() -> Vec<&'static str> {
    vec![
        "",
        "reg:0;reg:1",
        "reg:0;reg:1;inst:0:0;inst:1:0",
        // argument supplied by an alias, alias exported
        "reg:0;reg:1;inst:0:0;inst:1:0;alias:0:f;set:1:f:2;exp:2:x",
        // one node exported under two names
        "reg:0;inst:0:0;alias:0:h;exp:1:x;exp:1:g",
        // dependants defined before their base
        "def:f:2;def:g:1",
        "def:f:2;def:g:1;def:x:0",
        // explicit imports as arguments, nested alias
        "reg:1;inst:0:0;imp:f:func;imp:i:inst;set:0:f:1;set:0:i:2;alias:0:i;alias:3:x",
        // slot reuse of nodes and packages
        "reg:0;inst:0:0;alias:0:f;rm:0;reg:2;unreg:0:0;reg:1;inst:0:1",
    ]
}

#[allow(clippy::too_many_arguments)]
fn exhaustive(
    uni: &Uni,
    ctx: &[String],
    out: &mut Out,
    prefix: &[Op],
    depth: usize,
    cap: usize,
    r: &mut Rng,
    shard: usize,
    nshards: usize,
    counter: &mut usize,
) {
    // depth-first over op instances; each visited sequence is one case (observation at its last step)
    fn rec(
        uni: &Uni,
        ctx: &[String],
        out: &mut Out,
        seq: &mut Vec<Op>,
        depth: usize,
        cap: usize,
        r: &mut Rng,
        shard: usize,
        nshards: usize,
        counter: &mut usize,
        top: bool,
    ) {
        // replay the sequence to get the state (cheap: sequences are short)
        let mut st = State::new(uni);
        let mut dead = false;
        for op in seq.iter() {
            if st.apply(uni, op).is_panic() {
                dead = true;
                break;
            }
        }
        *counter += 1;
        if !top && *counter % nshards == shard {
            run_sequence(uni, ctx, out, seq, ObsMode::Last, false);
        } else if top && shard == 0 {
            run_sequence(uni, ctx, out, seq, ObsMode::All, false);
        }
        if dead || depth == 0 {
            return;
        }
        let mut ops = st.applicable_ops(uni);
        if ops.len() > cap {
            r.shuffle(&mut ops);
            ops.truncate(cap);
        }
        out.add("exhaustive:branching", ops.len() as u64);
        out.count("exhaustive:states");
        for op in ops {
            seq.push(op);
            rec(uni, ctx, out, seq, depth - 1, cap, r, shard, nshards, counter, false);
            seq.pop();
        }
    }
    let mut seq = prefix.to_vec();
    rec(uni, ctx, out, &mut seq, depth, cap, r, shard, nshards, counter, true);
}
