//! C06: operation histories on the real `CompositionGraph`.
//!
//! One protocol line per sequence:
//!   <id> <N|T> seq <ops-text> <ctx tokens…> <nsteps> (<op tokens> <result tokens> <obs flag> [<obs tokens>])*
//! (see lean/Driver/C06.lean for the grammar).  `ops-text` is only used by `--replay`.
#[path = "../graph_util.rs"]
mod graph_util;
use graph_util::*;
use wacv::*;

fn main() {
    quiet_panics();
    let args = Args::parse();
    let shard = args.num("shard", 0);
    let nshards = args.num("nshards", 1).max(1);
    let mut out = Out::create(&args.out, &format!("c06-{}-", shard));
    let uni = Uni::build();
    let ctx = uni.ctx_tokens();

    if let Some(path) = &args.replay {
        let text = std::fs::read_to_string(path).expect("replay file");
        for line in text.lines() {
            if let Some(ops) = replay_ops(line, "seq") {
                let seq = parse_ops(&ops);
                run_sequence(&uni, &ctx, &mut out, &seq, ObsMode::All, true);
            }
        }
        out.finish();
        return;
    }

    // 1. exhaustive short sequences after a set of scenario prefixes
    let depth = args.num("depth", if args.thorough() { 3 } else { 2 });
    let cap = args.num("cap", if args.thorough() { 60 } else { 40 });
    let scenarios = scenarios();
    let mut counter = 0usize;
    for (si, sc) in scenarios.iter().enumerate() {
        let prefix = parse_ops(sc);
        let mut r = Rng::new(args.seed ^ (si as u64) << 32);
        exhaustive(&uni, &ctx, &mut out, &prefix, depth, cap, &mut r, shard, nshards, &mut counter);
    }

    // 2. random long sequences
    let nrand = args.num("random", if args.thorough() { 6000 } else { 400 });
    let maxlen = args.num("maxlen", 200);
    for i in 0..nrand {
        if i % nshards != shard {
            continue;
        }
        let mut r = Rng::new(args.seed.wrapping_mul(1_000_003).wrapping_add(i as u64 + 17));
        let len = 5 + r.below(maxlen - 4);
        let seq = random_sequence(&uni, &mut r, len);
        run_sequence(&uni, &ctx, &mut out, &seq, ObsMode::All, true);
    }

    // 3. argument wiring: every word over {set, unset} x argument names x sources for one
    //    instantiation (one node under several argument names, in every order)
    let wordlen = args.num("argwords", if args.thorough() { 5 } else { 4 });
    arg_words(&uni, &ctx, &mut out, wordlen, shard, nshards);

    // 4. random argument walks: set / unset / remove around instantiations whose arguments share sources
    let nwalks = args.num("argwalks", if args.thorough() { 4000 } else { 300 });
    for i in 0..nwalks {
        if i % nshards != shard {
            continue;
        }
        let mut r = Rng::new(args.seed.wrapping_mul(7_000_003).wrapping_add(i as u64 + 0xA26));
        let seq = arg_walk(&uni, &mut r);
        out.count("argwalk:histories");
        run_sequence(&uni, &ctx, &mut out, &seq, ObsMode::All, true);
    }
    out.finish();
}

/// Settings for `arg_words`: (prefix, instantiation node, argument names, source nodes).
/// Package 0 (`test:a`) imports `f` and `g`, both `func()`, so ONE node can be passed under both
/// names; its exports `f`, `h` are `func()` too.
fn arg_settings() -> Vec<(&'static str, usize, Vec<&'static str>, Vec<usize>)> {
    vec![
        // the source is an alias of another instance's export
        ("reg:0;inst:0:0;inst:0:0;alias:0:f", 1, vec!["f", "g"], vec![2]),
        // the source is an explicit import
        ("reg:0;inst:0:0;imp:x:func", 0, vec!["f", "g"], vec![1]),
        // two sources (an alias and an import) compete for the two names
        ("reg:0;inst:0:0;inst:0:0;alias:0:h;imp:x:func", 1, vec!["f", "g"], vec![2, 3]),
        // two instantiations of the same package share the source: instance 1's own export is
        // wired back into instance 0 and instance 1
        ("reg:0;inst:0:0;inst:0:0;alias:1:f;set:0:f:2;set:0:g:2", 1, vec!["f", "g"], vec![2]),
    ]
}

/// all words of exactly `len` letters over {set, unset} x names x sources, each observed after
/// every step (a word's prefixes are observed as part of it)
fn arg_words(uni: &Uni, ctx: &[String], out: &mut Out, len: usize, shard: usize, nshards: usize) {
    let nm = |s: &str| NAMES.iter().position(|n| *n == s).unwrap();
    let mut counter = 0usize;
    for (prefix, inst, names, srcs) in arg_settings() {
        let prefix = parse_ops(prefix);
        let mut letters: Vec<Op> = Vec::new();
        for s in &srcs {
            for n in &names {
                letters.push(Op::Set(inst, nm(n), *s));
                letters.push(Op::Unset(inst, nm(n), *s));
            }
        }
        // two sources double the alphabet: one letter less
        let len = if srcs.len() > 1 { len.saturating_sub(1).max(1) } else { len };
        let total = letters.len().pow(len as u32);
        for w in 0..total {
            counter += 1;
            if counter % nshards != shard {
                continue;
            }
            let mut seq = prefix.clone();
            let mut x = w;
            for _ in 0..len {
                seq.push(letters[x % letters.len()].clone());
                x /= letters.len();
            }
            out.count("argwords:histories");
            run_sequence(uni, ctx, out, &seq, ObsMode::All, false);
        }
    }
}

/// a random history concentrated on argument edges: a few packages, instantiations and sources,
/// then set / unset (preferring sources that already supply another argument of the same
/// instantiation, and unsetting ANY of the existing edges, not just the newest) with an
/// occasional removal of a source or an instantiation
fn arg_walk(uni: &Uni, r: &mut Rng) -> Vec<Op> {
    let nm = |s: &str| NAMES.iter().position(|n| *n == s).unwrap();
    let mut st = State::new(uni);
    let mut seq: Vec<Op> = Vec::new();
    fn push(uni: &Uni, st: &mut State, seq: &mut Vec<Op>, op: Op) -> bool {
        let res = st.apply(uni, &op);
        seq.push(op);
        !res.is_panic()
    }
    // packages: definition 0 (two same-typed imports) most of the time, plus others
    let mut defs: Vec<usize> = Vec::new();
    if r.chance(5, 6) {
        defs.push(0);
    }
    for d in [1usize, 2] {
        if r.chance(1, 2) {
            defs.push(d);
        }
    }
    if defs.is_empty() {
        defs.push(3);
    }
    r.shuffle(&mut defs);
    for d in &defs {
        if !push(uni, &mut st, &mut seq, Op::Reg(*d)) {
            return seq;
        }
    }
    let pkgs: Vec<(usize, usize)> =
        st.dump.packages.iter().enumerate().filter(|(_, p)| p.1.is_some()).map(|(i, p)| (i, p.0)).collect();
    let ninst = 1 + r.below(3);
    for _ in 0..ninst {
        let (s, g) = *r.pick(&pkgs);
        if !push(uni, &mut st, &mut seq, Op::Inst(s, g)) {
            return seq;
        }
    }
    // sources: aliases of instance exports and explicit imports
    let nsrc = 1 + r.below(3);
    for k in 0..nsrc {
        let insts: Vec<usize> = st.dump.nodes.iter().filter(|n| n.kind == 2).map(|n| n.idx).collect();
        let op = if r.chance(2, 3) && !insts.is_empty() {
            let i = *r.pick(&insts);
            let exports: Vec<usize> = match uni.kinds[st.dump.node(i).unwrap().item] {
                wac_graph::types::ItemKind::Instance(id) => uni.base.types()[id].exports.keys().map(|k| nm(k)).collect(),
                _ => vec![],
            };
            if exports.is_empty() {
                continue;
            }
            Op::Alias(i, *r.pick(&exports))
        } else {
            Op::Imp(nm(["x", "h", "n"][k % 3]), *r.pick(&uni.import_kinds))
        };
        if !push(uni, &mut st, &mut seq, op) {
            return seq;
        }
    }
    let steps = 4 + r.below(12);
    for _ in 0..steps {
        let d = &st.dump;
        let live: Vec<usize> = d.nodes.iter().map(|n| n.idx).collect();
        let insts: Vec<usize> = d.nodes.iter().filter(|n| n.kind == 2).map(|n| n.idx).collect();
        if insts.is_empty() || live.is_empty() {
            break;
        }
        let inst = *r.pick(&insts);
        let imports: Vec<(usize, usize)> = match d.node(inst).and_then(|nd| nd.pkg).and_then(|(s, _)| d.packages.get(s).and_then(|p| p.1)) {
            Some(def) => uni.base.types()[uni.pkgs[def].ty()].imports.iter().map(|(k, v)| (nm(k), uni.kind_of(*v))).collect(),
            None => vec![],
        };
        if imports.is_empty() {
            break;
        }
        // argument edges into `inst`: (source, argument index)
        let existing: Vec<(usize, usize)> = d.node(inst).unwrap().ins.iter().filter(|e| e.1 == 1).map(|e| (e.0, e.2)).collect();
        let w = r.below(100);
        let op = if w < 45 {
            let (name, want) = *r.pick(&imports);
            let src = if !existing.is_empty() && r.chance(3, 5) {
                r.pick(&existing).0
            } else {
                let fitting: Vec<usize> = d.nodes.iter().filter(|n| uni.sub[n.item][want]).map(|n| n.idx).collect();
                if !fitting.is_empty() && r.chance(4, 5) {
                    *r.pick(&fitting)
                } else {
                    *r.pick(&live)
                }
            };
            Op::Set(inst, name, src)
        } else if w < 85 {
            if !existing.is_empty() && r.chance(5, 6) {
                let (src, ix) = *r.pick(&existing);
                Op::Unset(inst, imports.get(ix).map(|x| x.0).unwrap_or(imports[0].0), src)
            } else {
                Op::Unset(inst, r.pick(&imports).0, *r.pick(&live))
            }
        } else if w < 93 {
            // remove a source (all the arguments it supplies become unsatisfied) or any node
            if !existing.is_empty() && r.chance(2, 3) {
                Op::Rm(r.pick(&existing).0)
            } else {
                Op::Rm(*r.pick(&live))
            }
        } else if w < 97 {
            let (s, g) = *r.pick(&pkgs);
            if d.nodes.len() < MAX_NODES { Op::Inst(s, g) } else { Op::Rm(*r.pick(&live)) }
        } else {
            Op::Exp(*r.pick(&live), nm(["x", "g", "k"][r.below(3)]))
        };
        if !push(uni, &mut st, &mut seq, op) {
            break;
        }
    }
    seq
}

/// scenario prefixes (ops text).  Package defs: 0 = test:a, 1 = test:b@1.0.0, 2 = test:c, 3 = test:a (other content)
fn scenarios() -> Vec<&'static str> {
    vec![
        "",
        "reg:0;reg:1",
        "reg:0;reg:1;inst:0:0;inst:1:0",
        // argument supplied by an alias, alias exported
        "reg:0;reg:1;inst:0:0;inst:1:0;alias:0:f;set:1:f:2;exp:2:x",
        // one node exported under two names
        "reg:0;inst:0:0;alias:0:h;exp:1:x;exp:1:g",
        // dependants defined before their base
        "def:f:2;def:g:1",
        "def:f:2;def:g:1;def:x:0",
        // explicit imports as arguments, nested alias
        "reg:1;inst:0:0;imp:f:func;imp:i:inst;set:0:f:1;set:0:i:2;alias:0:i;alias:3:x",
        // slot reuse of nodes and packages
        "reg:0;inst:0:0;alias:0:f;rm:0;reg:2;unreg:0:0;reg:1;inst:0:1",
        // ONE node supplies two arguments of one instantiation (set in either order)
        "reg:0;inst:0:0;inst:0:0;alias:0:f;set:1:f:2;set:1:g:2",
        "reg:0;inst:0:0;imp:x:func;set:0:g:1;set:0:f:1",
    ]
}

#[allow(clippy::too_many_arguments)]
fn exhaustive(
    uni: &Uni,
    ctx: &[String],
    out: &mut Out,
    prefix: &[Op],
    depth: usize,
    cap: usize,
    r: &mut Rng,
    shard: usize,
    nshards: usize,
    counter: &mut usize,
) {
    // depth-first over op instances; each visited sequence is one case (observation at its last step)
    fn rec(
        uni: &Uni,
        ctx: &[String],
        out: &mut Out,
        seq: &mut Vec<Op>,
        depth: usize,
        cap: usize,
        r: &mut Rng,
        shard: usize,
        nshards: usize,
        counter: &mut usize,
        top: bool,
    ) {
        // replay the sequence to get the state (cheap: sequences are short)
        let mut st = State::new(uni);
        let mut dead = false;
        for op in seq.iter() {
            if st.apply(uni, op).is_panic() {
                dead = true;
                break;
            }
        }
        *counter += 1;
        if !top && *counter % nshards == shard {
            run_sequence(uni, ctx, out, seq, ObsMode::Last, false);
        } else if top && shard == 0 {
            run_sequence(uni, ctx, out, seq, ObsMode::All, false);
        }
        if dead || depth == 0 {
            return;
        }
        let mut ops = st.applicable_ops(uni);
        if ops.len() > cap {
            r.shuffle(&mut ops);
            ops.truncate(cap);
        }
        out.add("exhaustive:branching", ops.len() as u64);
        out.count("exhaustive:states");
        for op in ops {
            seq.push(op);
            rec(uni, ctx, out, seq, depth - 1, cap, r, shard, nshards, counter, false);
            seq.pop();
        }
    }
    let mut seq = prefix.to_vec();
    rec(uni, ctx, out, &mut seq, depth, cap, r, shard, nshards, counter, true);
}
