//! C16: reproducibility.  Each generated graph history / WAC document is executed in this
//! process, on a clone of the graph, and in `k` fresh worker processes (fresh per-process hash
//! randomisation); the SHA-256 of the encoded bytes, of the hook's state dump, of the printed
//! text and of the rendered diagnostics must coincide.  The harness decides (`Out::fail`).
//!
//!   c16 --worker          reads `G <ops-text>` / `D <escaped document>` lines on stdin and
//!                         answers one line of digests per input line
//!
//! Graph histories are additionally written as C06-style `seq` cases so that the Lean driver
//! compares the reported state (edge adjacency order included) with the deterministic model.
#[path = "../graph_util.rs"]
mod graph_util;
use graph_util::*;
use std::io::{BufRead, Write};
use std::panic::AssertUnwindSafe;
use std::process::{Command, Stdio};
use wac_graph::EncodeOptions;
use wacv::*;

// ---------------------------------------------------------------------------------------------
// SHA-256 (FIPS 180-4); the harness crate has no hashing dependency
fn sha256(data: &[u8]) -> String {
    const K: [u32; 64] = [
        0x428a2f98, 0x71374491, 0xb5c0fbcf, 0xe9b5dba5, 0x3956c25b, 0x59f111f1, 0x923f82a4, 0xab1c5ed5, 0xd807aa98,
        0x12835b01, 0x243185be, 0x550c7dc3, 0x72be5d74, 0x80deb1fe, 0x9bdc06a7, 0xc19bf174, 0xe49b69c1, 0xefbe4786,
        0x0fc19dc6, 0x240ca1cc, 0x2de92c6f, 0x4a7484aa, 0x5cb0a9dc, 0x76f988da, 0x983e5152, 0xa831c66d, 0xb00327c8,
        0xbf597fc7, 0xc6e00bf3, 0xd5a79147, 0x06ca6351, 0x14292967, 0x27b70a85, 0x2e1b2138, 0x4d2c6dfc, 0x53380d13,
        0x650a7354, 0x766a0abb, 0x81c2c92e, 0x92722c85, 0xa2bfe8a1, 0xa81a664b, 0xc24b8b70, 0xc76c51a3, 0xd192e819,
        0xd6990624, 0xf40e3585, 0x106aa070, 0x19a4c116, 0x1e376c08, 0x2748774c, 0x34b0bcb5, 0x391c0cb3, 0x4ed8aa4a,
        0x5b9cca4f, 0x682e6ff3, 0x748f82ee, 0x78a5636f, 0x84c87814, 0x8cc70208, 0x90befffa, 0xa4506ceb, 0xbef9a3f7,
        0xc67178f2,
    ];
    let mut h: [u32; 8] =
        [0x6a09e667, 0xbb67ae85, 0x3c6ef372, 0xa54ff53a, 0x510e527f, 0x9b05688c, 0x1f83d9ab, 0x5be0cd19];
    let mut msg = data.to_vec();
    let bitlen = (data.len() as u64) * 8;
    msg.push(0x80);
    while msg.len() % 64 != 56 {
        msg.push(0);
    }
    msg.extend_from_slice(&bitlen.to_be_bytes());
    for chunk in msg.chunks(64) {
        let mut w = [0u32; 64];
        for i in 0..16 {
            w[i] = u32::from_be_bytes([chunk[4 * i], chunk[4 * i + 1], chunk[4 * i + 2], chunk[4 * i + 3]]);
        }
        for i in 16..64 {
            let s0 = w[i - 15].rotate_right(7) ^ w[i - 15].rotate_right(18) ^ (w[i - 15] >> 3);
            let s1 = w[i - 2].rotate_right(17) ^ w[i - 2].rotate_right(19) ^ (w[i - 2] >> 10);
            w[i] = w[i - 16].wrapping_add(s0).wrapping_add(w[i - 7]).wrapping_add(s1);
        }
        let mut v = h;
        for i in 0..64 {
            let s1 = v[4].rotate_right(6) ^ v[4].rotate_right(11) ^ v[4].rotate_right(25);
            let ch = (v[4] & v[5]) ^ (!v[4] & v[6]);
            let t1 = v[7].wrapping_add(s1).wrapping_add(ch).wrapping_add(K[i]).wrapping_add(w[i]);
            let s0 = v[0].rotate_right(2) ^ v[0].rotate_right(13) ^ v[0].rotate_right(22);
            let maj = (v[0] & v[1]) ^ (v[0] & v[2]) ^ (v[1] & v[2]);
            let t2 = s0.wrapping_add(maj);
            v[7] = v[6];
            v[6] = v[5];
            v[5] = v[4];
            v[4] = v[3].wrapping_add(t1);
            v[3] = v[2];
            v[2] = v[1];
            v[1] = v[0];
            v[0] = t1.wrapping_add(t2);
        }
        for i in 0..8 {
            h[i] = h[i].wrapping_add(v[i]);
        }
    }
    h.iter().map(|x| format!("{x:08x}")).collect()
}

// ---------------------------------------------------------------------------------------------
/// digests of one graph history: state dump, encoding with components defined / imported
fn graph_digest(uni: &Uni, ops: &[Op], on_clone: bool) -> String {
    let mut st = State::new(uni);
    for op in ops {
        if st.apply(uni, op).is_panic() {
            return "panic-in-history".into();
        }
    }
    let g = if on_clone { st.g.clone() } else { st.g };
    let mut parts = vec![format!("state:{}", &sha256(g.verif_dump().as_bytes())[..16])];
    for define in [true, false] {
        let r = guarded(AssertUnwindSafe(|| {
            g.encode(EncodeOptions { define_components: define, validate: false, processor: None })
        }));
        parts.push(match r {
            Ok(Ok(bytes)) => format!("enc:{}", &sha256(&bytes)[..32]),
            Ok(Err(e)) => format!(
                "err:{}:{}",
                &sha256(error_chain(&e).as_bytes())[..16],
                e.to_string().split_whitespace().take(4).collect::<Vec<_>>().join("_")
            ),
            Err(m) => format!("panic:{}", m.replace(' ', "_")),
        });
    }
    parts.join(" ")
}

/// digests of one WAC document: parse, print, resolve (diagnostic), encode
fn doc_digest(src: &str) -> String {
    let r = guarded(AssertUnwindSafe(|| -> String {
        let doc = match wac_parser::Document::parse(src) {
            Ok(d) => d,
            Err(e) => return format!("parse-err:{}", &sha256(render(&e, src).as_bytes())[..16]),
        };
        let mut printed = String::new();
        let _ = wac_parser::DocumentPrinter::new(&mut printed, src, None).document(&doc);
        let p = format!("print:{}", &sha256(printed.as_bytes())[..16]);
        match doc.resolve(Default::default()) {
            Err(e) => format!("{p} resolve-err:{}:{}", &sha256(render(&e, src).as_bytes())[..16], first_line(&e.to_string())),
            Ok(res) => match res.encode(EncodeOptions { define_components: true, validate: false, processor: None }) {
                Ok(bytes) => format!("{p} enc:{}", &sha256(&bytes)[..32]),
                Err(e) => format!("{p} encode-err:{}", &sha256(render(&e, src).as_bytes())[..16]),
            },
        }
    }));
    match r {
        Ok(s) => s,
        Err(m) => format!("panic:{}", m.replace(' ', "_")),
    }
}

/// the messages of an error and of its sources (no backtraces, no addresses)
fn error_chain(e: &dyn std::error::Error) -> String {
    let mut s = e.to_string();
    let mut cur = e.source();
    while let Some(c) = cur {
        s.push_str(" <- ");
        s.push_str(&c.to_string());
        cur = c.source();
    }
    s
}

fn first_line(s: &str) -> String {
    s.lines().next().unwrap_or("").replace(' ', "_")
}

/// the diagnostic as a user sees it (message, labels with their spans, help)
fn render<E: miette::Diagnostic>(e: &E, _src: &str) -> String {
    let mut s = e.to_string();
    if let Some(labels) = e.labels() {
        for l in labels {
            s.push_str(&format!("|{}@{}+{}", l.label().unwrap_or(""), l.offset(), l.len()));
        }
    }
    if let Some(h) = e.help() {
        s.push_str(&format!("|help:{h}"));
    }
    s
}

fn worker() {
    quiet_panics();
    let uni = Uni::build();
    let stdin = std::io::stdin();
    let stdout = std::io::stdout();
    let mut out = stdout.lock();
    for line in stdin.lock().lines() {
        let line = line.unwrap();
        let ans = if let Some(ops) = line.strip_prefix("G ") {
            graph_digest(&uni, &parse_ops(ops), false)
        } else if let Some(doc) = line.strip_prefix("D ") {
            doc_digest(&unesc(doc))
        } else {
            "?".into()
        };
        writeln!(out, "{ans}").unwrap();
    }
}

// ---------------------------------------------------------------------------------------------
// generators

/// histories biased towards what the property names: base types defined after their
/// dependants, many same-rank independent nodes; state driven, so that most of them encode
fn history(uni: &Uni, r: &mut Rng) -> Vec<Op> {
    let nm = |s: &str| NAMES.iter().position(|n| *n == s).unwrap();
    let mut st = State::new(uni);
    let mut ops: Vec<Op> = Vec::new();
    // apply; keep the op when it succeeded (or, rarely, as an error path)
    let mut push = |st: &mut State, ops: &mut Vec<Op>, r: &mut Rng, op: Op| -> Res {
        let mut probe = State { g: st.g.clone(), dump: st.dump.clone(), seen_pkgs: st.seen_pkgs.clone(), validate: false };
        let res = probe.apply(uni, &op);
        if res.is_ok() || (!res.is_panic() && r.chance(1, 10)) {
            let res2 = st.apply(uni, &op);
            ops.push(op);
            return res2;
        }
        res
    };
    let style = r.below(4);
    if style <= 1 {
        // type definitions in a random order (dependants before the base half of the time)
        let mut tys: Vec<usize> = (0..uni.types.len()).filter(|t| *t != 5).collect();
        r.shuffle(&mut tys);
        if style == 0 {
            tys.retain(|t| *t != 0);
            let k = 2 + r.below(tys.len() - 1);
            tys.truncate(k.min(7));
            tys.push(0);
        } else {
            tys.truncate(2 + r.below(6));
        }
        let names = ["f", "g", "i", "n", "x", "h", "k", "a:b/c@1.0.0"];
        for (i, t) in tys.iter().enumerate() {
            push(&mut st, &mut ops, r, Op::Def(nm(names[i % names.len()]), *t));
        }
        if r.chance(1, 3) && !st.dump.nodes.is_empty() {
            // remove one definition again (cascades) and define it again under a free name
            let victim = st.dump.nodes[r.below(st.dump.nodes.len())].clone();
            push(&mut st, &mut ops, r, Op::Rm(victim.idx));
            if let Some(t) = victim.ty {
                push(&mut st, &mut ops, r, Op::Def(nm("k"), t));
            }
        }
    }
    if style >= 1 {
        // registrations (package 2 imports `g` with a type that conflicts with package 0's)
        let mut pids: Vec<(usize, usize)> = Vec::new();
        for d in [0usize, 1, 2] {
            if (d < 2 && r.chance(4, 5)) || (d == 2 && r.chance(1, 6)) {
                if let Res::OkPkg(s, g) = push(&mut st, &mut ops, r, Op::Reg(d)) {
                    pids.push((s, g));
                }
            }
        }
        let free_names = ["k", "h", "x", "a:b/c@1.0.0"];
        let mut used_free = 0usize;
        let mut insts: Vec<usize> = Vec::new();
        for _ in 0..(1 + r.below(4)) {
            if pids.is_empty() || st.dump.nodes.len() + 2 > MAX_NODES + 4 {
                break;
            }
            let (s, g) = *r.pick(&pids);
            if let Res::OkNode(n) = push(&mut st, &mut ops, r, Op::Inst(s, g)) {
                insts.push(n);
            }
        }
        // explicit imports under names no package imports, used as arguments
        let mut sources: Vec<usize> = Vec::new();
        for k in ["func", "funcu32", "inst"] {
            if r.chance(1, 3) && used_free < free_names.len() {
                if let Res::OkNode(n) = push(&mut st, &mut ops, r, Op::Imp(nm(free_names[used_free]), uni.kind_alias[k])) {
                    sources.push(n);
                }
                used_free += 1;
            }
        }
        // aliases of earlier instantiations as arguments of later ones (no cycles)
        for (pos, i) in insts.iter().enumerate() {
            if pos + 1 == insts.len() || !r.chance(2, 3) {
                continue;
            }
            let exports: Vec<usize> = match st.dump.node(*i) {
                Some(nd) => match uni.kinds[nd.item] {
                    wac_graph::types::ItemKind::Instance(id) => {
                        uni.base.types()[id].exports.keys().map(|k| nm(k)).collect()
                    }
                    _ => vec![],
                },
                None => vec![],
            };
            if exports.is_empty() {
                continue;
            }
            let export = *r.pick(&exports);
            if let Res::OkNode(a) = push(&mut st, &mut ops, r, Op::Alias(*i, export)) {
                sources.push(a);
                if r.chance(1, 3) && used_free < free_names.len() {
                    push(&mut st, &mut ops, r, Op::Exp(a, nm(free_names[used_free])));
                    used_free += 1;
                }
                // try it on every later instantiation and argument name; keep what type checks
                for later in insts[pos + 1..].iter() {
                    for n in ["f", "g", "i", "n", "x"] {
                        if r.chance(1, 2) {
                            push(&mut st, &mut ops, r, Op::Set(*later, nm(n), a));
                        }
                    }
                }
            }
        }
        // explicit imports (never aliases: an alias must not feed its own source) on any instantiation
        let import_sources: Vec<usize> =
            sources.iter().copied().filter(|s| st.dump.node(*s).map(|n| n.kind == 1).unwrap_or(false)).collect();
        for s in import_sources {
            for i in &insts {
                for n in ["f", "g", "i", "n", "x"] {
                    if r.chance(1, 3) {
                        push(&mut st, &mut ops, r, Op::Set(*i, nm(n), s));
                    }
                }
            }
        }
        if r.chance(1, 4) && !insts.is_empty() {
            // remove something in the middle and build on the freed slot
            let victim = *r.pick(&insts);
            push(&mut st, &mut ops, r, Op::Rm(victim));
            if let Some((s, g)) = pids.first().copied() {
                push(&mut st, &mut ops, r, Op::Inst(s, g));
            }
        }
    }
    if r.chance(1, 6) {
        // a short unconstrained tail
        let before = ops.len();
        for op in random_sequence(uni, r, 8) {
            if st.apply(uni, &op).is_panic() {
                break;
            }
            ops.push(op);
        }
        let _ = before;
    }
    ops
}

fn documents(r: &mut Rng, n: usize) -> Vec<String> {
    let mut docs = Vec::new();
    let names = ["a", "b", "c", "d", "e", "p", "q"];
    for _ in 0..n {
        let mut s = String::from("package test:comp;\n\n");
        // a world with some imports/exports, a second world including it with a `with` clause
        let k = r.below(4);
        let mut have = Vec::new();
        s.push_str("world w1 {\n");
        for i in 0..k {
            let n = names[i];
            have.push(n);
            if r.chance(1, 2) {
                s.push_str(&format!("    import {n}: func();\n"));
            } else {
                s.push_str(&format!("    export {n}: func(x: u32) -> string;\n"));
            }
        }
        s.push_str("}\n\n");
        let nwith = r.below(4);
        let mut with = Vec::new();
        let mut pool: Vec<&str> = names.to_vec();
        r.shuffle(&mut pool);
        for i in 0..nwith {
            // mostly names the world does not have (the order-sensitive diagnostic)
            let from = if r.chance(1, 3) && !have.is_empty() { *r.pick(&have) } else { pool[i] };
            with.push(format!("{from} as z{i}"));
        }
        s.push_str("world w2 {\n");
        if with.is_empty() {
            s.push_str("    include w1;\n");
        } else {
            s.push_str(&format!("    include w1 with {{ {} }};\n", with.join(", ")));
        }
        s.push_str("}\n\n");
        if r.chance(1, 2) {
            s.push_str("/// docs\ninterface i { type t = u32; f: func(x: t) -> t; }\n");
            s.push_str("type r = record { a: u32, b: string }; \nexport r;\n");
        }
        docs.push(s);
    }
    docs
}

// ---------------------------------------------------------------------------------------------
fn main() {
    if std::env::args().any(|a| a == "--worker") {
        worker();
        return;
    }
    quiet_panics();
    let args = Args::parse();
    let shard = args.num("shard", 0);
    let nshards = args.num("nshards", 1).max(1);
    let mut out = Out::create(&args.out, &format!("c16-{}-", shard));
    let uni = Uni::build();
    let ctx = uni.ctx_tokens();
    let k = args.num("procs", if args.thorough() { 8 } else { 4 });
    let n = args.num("cases", if args.thorough() { 5000 } else { 200 });
    let ndocs = args.num("docs", if args.thorough() { 1500 } else { 120 });

    // inputs
    let mut hists: Vec<Vec<Op>> = Vec::new();
    let mut docs: Vec<String> = Vec::new();
    if let Some(path) = &args.replay {
        let text = std::fs::read_to_string(path).expect("replay file");
        for line in text.lines() {
            if let Some(ops) = replay_ops(line, "hist").or_else(|| replay_ops(line, "seq")) {
                hists.push(parse_ops(&ops));
            } else if let Some(d) = replay_ops(line, "doc") {
                docs.push(d);
            }
        }
    } else {
        // the replay sketch of DESIGN §10 row 5 first: dependants, then the base, in one history
        hists.push(parse_ops("def:f:1;def:g:2;def:i:4;def:n:7;def:x:8;def:h:9;def:k:6;def:15:0"));
        let mut r = Rng::new(args.seed.wrapping_mul(7919).wrapping_add(shard as u64));
        for i in 0..n {
            let h = history(&uni, &mut r);
            if i % nshards == shard {
                hists.push(h);
            }
        }
        let all_docs = documents(&mut r.fork(), ndocs);
        for (i, d) in all_docs.into_iter().enumerate() {
            if i % nshards == shard {
                docs.push(d);
            }
        }
    }

    // workers
    let exe = std::env::current_exe().expect("current exe");
    let mut input = String::new();
    for h in &hists {
        input.push_str(&format!("G {}\n", ops_text(h)));
    }
    for d in &docs {
        input.push_str(&format!("D {}\n", esc(d)));
    }
    let mut answers: Vec<Vec<String>> = Vec::new();
    let mut children = Vec::new();
    for _ in 0..k {
        let mut c = Command::new(&exe)
            .arg("--worker")
            .stdin(Stdio::piped())
            .stdout(Stdio::piped())
            .stderr(Stdio::null())
            .spawn()
            .expect("spawn worker");
        let mut stdin = c.stdin.take().unwrap();
        let data = input.clone();
        let t = std::thread::spawn(move || {
            let _ = stdin.write_all(data.as_bytes());
        });
        children.push((c, t));
    }
    for (mut c, t) in children {
        let mut lines = Vec::new();
        if let Some(o) = c.stdout.take() {
            for l in std::io::BufReader::new(o).lines() {
                lines.push(l.unwrap_or_default());
            }
        }
        let _ = t.join();
        let _ = c.wait();
        answers.push(lines);
    }

    let total = hists.len() + docs.len();
    for (w, a) in answers.iter().enumerate() {
        if a.len() != total {
            out.fail("workers", &format!("worker {w} answered {} of {} inputs", a.len(), total), "a worker process died");
        }
    }

    for (i, h) in hists.iter().enumerate() {
        let here = graph_digest(&uni, h, false);
        let cloned = graph_digest(&uni, h, true);
        let mut all: Vec<&str> = vec![here.as_str(), cloned.as_str()];
        for a in &answers {
            if let Some(x) = a.get(i) {
                all.push(x.as_str());
            }
        }
        let distinct: std::collections::BTreeSet<&str> = all.iter().copied().collect();
        let encodes = here.contains("enc:");
        out.count(if encodes { "hist:encodes" } else { "hist:encode-error" });
        if let Some(e) = here.split(' ').find(|p| p.starts_with("err:")) {
            out.count(&format!("hist:err:{}", e.rsplit(':').next().unwrap_or("")));
        }
        if here.contains("panic") {
            out.count("hist:panic");
        }
        let ndefs = h.iter().filter(|o| matches!(o, Op::Def(..))).count();
        if ndefs >= 3 {
            out.count("hist:three-or-more-definitions");
        }
        // the C06-style case for the Lean driver (state incl. adjacency order vs the model)
        let o = exec_sequence(&uni, &ctx, h, ObsMode::Last, false);
        let id = out.case(encodes && h.len() >= 3, "seq", &o.tokens);
        if let Some((sig, detail)) = o.failure {
            out.fail(&id, &sig, &format!("{detail} [history: {}]", ops_text(h)));
        }
        let hid = out.case(encodes && h.len() >= 3, "hist", &[esc(&ops_text(h)), esc(&here), distinct.len().to_string()]);
        if distinct.len() > 1 {
            let what = if here != cloned { "encoding of a clone differs" } else { "encoding differs across processes" };
            out.fail(
                &hid,
                what,
                &format!(
                    "{} distinct digests for one history: {} [history: {}]",
                    distinct.len(),
                    distinct.iter().take(3).copied().collect::<Vec<_>>().join(" / "),
                    ops_text(h)
                ),
            );
        }
    }
    for (j, d) in docs.iter().enumerate() {
        let i = hists.len() + j;
        let here = doc_digest(d);
        let mut all: Vec<&str> = vec![here.as_str()];
        for a in &answers {
            if let Some(x) = a.get(i) {
                all.push(x.as_str());
            }
        }
        let distinct: std::collections::BTreeSet<&str> = all.iter().copied().collect();
        out.count(if here.contains("resolve-err") {
            "doc:resolve-error"
        } else if here.contains("enc:") {
            "doc:encodes"
        } else {
            "doc:other"
        });
        let id = out.case(true, "doc", &[esc(d), esc(&here), distinct.len().to_string()]);
        if distinct.len() > 1 {
            out.fail(
                &id,
                "diagnostics / output of one document differ across processes",
                &format!("{} distinct results: {}", distinct.len(), distinct.iter().take(3).copied().collect::<Vec<_>>().join(" / ")),
            );
        }
    }
    out.add("processes", k as u64);
    out.finish();
}
