//! C09: `TypeAggregator::aggregate` over multisets of 2-5 import requirements coming from
//! separate (or one shared) `Types` collections, in ALL permutations, with one shared
//! `SubtypeChecker`.  One case = one multiset with the observation of every permutation.
//! Shard 0 of every run starts with the fixed witnesses W1..W5 of `c09x.rs` (`type` exports of
//! interface / component type, nested instance exports, flat instances), emitted like any
//! generated case.
//!
//! case `agg`: <n> (<types> <name> <kind>)*n  <p> ( <perm: i0.i1...> <res> )*p
//!   res = `ok` <aggregator types> <k> (<import name> <kind>)*k <canonical name of contributor j>*n
//!       | `err` <step> <message>   | `panic` <step> <message>
#[path = "../tree.rs"]
mod tree;

use std::collections::HashSet;
use tree::*;
use wac_types::{ItemKind, PrimitiveType as P, SubtypeChecker, Type, TypeAggregator, Types};
use wacv::*;

struct Req {
    types: std::rc::Rc<Types>,
    tid: usize,
    name: String,
    kind: ItemKind,
}

fn permutations(n: usize) -> Vec<Vec<usize>> {
    fn go(cur: &mut Vec<usize>, used: &mut Vec<bool>, n: usize, out: &mut Vec<Vec<usize>>) {
        if cur.len() == n {
            out.push(cur.clone());
            return;
        }
        for i in 0..n {
            if !used[i] {
                used[i] = true;
                cur.push(i);
                go(cur, used, n, out);
                cur.pop();
                used[i] = false;
            }
        }
    }
    let mut out = Vec::new();
    go(&mut Vec::new(), &mut vec![false; n], n, &mut out);
    out
}

fn run_perm(reqs: &[Req], perm: &[usize], fields: &mut Vec<String>, out: &mut Out) -> &'static str {
    let names: Vec<String> = reqs.iter().map(|r| r.name.clone()).collect();
    let res = guarded(std::panic::AssertUnwindSafe(|| {
        let mut cache = HashSet::new();
        let mut checker = SubtypeChecker::new(&mut cache);
        let mut agg = TypeAggregator::default();
        for (step, &i) in perm.iter().enumerate() {
            let r = &reqs[i];
            match agg.aggregate(&r.name, &r.types, r.kind, &mut checker) {
                Ok(a) => agg = a,
                Err(e) => return Err((step, format!("{e:#}"))),
            }
        }
        let imports: Vec<(String, ItemKind)> = agg.imports().map(|(n, k)| (n.to_string(), k)).collect();
        let canon: Vec<String> = names.iter().map(|n| agg.canonical_import_name(n).to_string()).collect();
        Ok((ser_types(agg.types(), 0), imports, canon))
    }));
    fields.push(perm.iter().map(|i| i.to_string()).collect::<Vec<_>>().join("."));
    match res {
        Ok(Ok((types, imports, canon))) => {
            fields.push("ok".into());
            fields.push(esc(&types));
            fields.push(imports.len().to_string());
            for (n, k) in imports {
                fields.push(esc(&n));
                fields.push(esc(&ser_kind(k)));
            }
            for c in canon {
                fields.push(esc(&c));
            }
            "ok"
        }
        Ok(Err((step, msg))) => {
            fields.push("err".into());
            fields.push(step.to_string());
            fields.push(esc(&msg));
            "err"
        }
        Err(p) => {
            let id = format!("agg-{}", out.n + 1);
            out.fail(&id, "TypeAggregator::aggregate panicked", &format!("{p} :: perm {perm:?} names {names:?}"));
            fields.push("panic".into());
            fields.push("0".into());
            fields.push(esc(&p));
            "panic"
        }
    }
}

fn emit(out: &mut Out, reqs: &[Req], label: &str) {
    let groups: Vec<Vec<usize>> = (0..reqs.len()).map(|i| vec![i]).collect();
    emit_grouped(out, reqs, &groups, label);
}

/// `groups`: requirements that come from one component keep their world order; the groups are
/// permuted
fn emit_grouped(out: &mut Out, reqs: &[Req], groups: &[Vec<usize>], label: &str) {
    let mut fields = vec![reqs.len().to_string()];
    for r in reqs {
        fields.push(esc(&ser_types(&r.types, 1 + r.tid as u64)));
        fields.push(esc(&r.name));
        fields.push(esc(&ser_kind(r.kind)));
    }
    let perms: Vec<Vec<usize>> = permutations(groups.len())
        .into_iter()
        .map(|gp| gp.into_iter().flat_map(|g| groups[g].clone()).collect())
        .collect();
    fields.push(perms.len().to_string());
    let mut outcomes = HashSet::new();
    for p in &perms {
        outcomes.insert(run_perm(reqs, p, &mut fields, out));
    }
    out.add("permutations", perms.len() as u64);
    out.count(&format!("gen:{label}"));
    for o in &outcomes {
        out.count(&format!("outcome:{o}"));
    }
    if outcomes.len() > 1 {
        out.count("outcome:order-dependent");
    }
    out.case(true, "agg", &fields);
}

// ---------------------------------------------------------------------------------------------
// generator 1: structural requirements (DSL): flat / nested instances, funcs, values, types

fn u8_() -> D {
    D::Prim(P::U8)
}

/// the type offered under export name `n`, in variant `v` (variant 0 of every name is
/// compatible across contributors; other variants conflict)
fn item(n: &str, v: usize) -> D {
    match (n, v % 3) {
        ("a", 0) => func(false, &[], None),
        ("a", 1) => func(false, &[("x", u8_())], None),
        ("a", _) => func(true, &[], None),
        ("b", 0) => func(false, &[("x", D::List(Box::new(u8_())))], Some(u8_())),
        ("b", 1) => func(false, &[("x", D::Alias(Box::new(D::List(Box::new(u8_())))))], Some(u8_())),
        ("b", _) => func(false, &[("y", D::List(Box::new(u8_())))], Some(u8_())),
        ("c", 0) => D::Type(Box::new(D::Record(named(&[("f", u8_())])))),
        ("c", 1) => D::Type(Box::new(D::Alias(Box::new(D::Record(named(&[("f", u8_())])))))),
        ("c", _) => D::Type(Box::new(D::Record(named(&[("g", u8_())])))),
        ("d", 0) => D::Value(Box::new(D::Prim(P::String))),
        ("d", 1) => D::Value(Box::new(D::Alias(Box::new(D::Prim(P::String))))),
        ("d", _) => D::Value(Box::new(u8_())),
        (_, 0) => D::Type(Box::new(u8_())),
        (_, 1) => D::Type(Box::new(D::Alias(Box::new(u8_())))),
        (_, _) => D::Type(Box::new(D::Prim(P::String))),
    }
}

fn f0() -> D {
    func(false, &[], None)
}

/// a non-empty subset of the function exports `a`, `b`, `c` (all `func()`, so two subsets are
/// always compatible and usually differ in width); with `conflict` one of them is sometimes
/// given an incompatible signature
fn rand_abc(r: &mut Rng, conflict: bool) -> Vec<(String, D)> {
    let mask = 1 + r.below(7);
    let mut es = Vec::new();
    for (bit, n) in ["a", "b", "c"].iter().enumerate() {
        if mask & (1 << bit) != 0 {
            let d = if conflict && r.chance(1, 5) { func(false, &[("x", u8_())], None) } else { f0() };
            es.push((n.to_string(), d));
        }
    }
    es
}

/// which `type` exports of interface / component type `rand_flat` adds
#[derive(Clone, Copy)]
struct Extras {
    /// `t: type instance{..}` of varying width with probability 1/3
    t: bool,
    /// `w: type component{..}` of varying width with probability 1/3 (only in the ~1/8 of the
    /// cases chosen for it, about 1/20 of all instance requirements: a known finding family
    /// whose SPEC verdicts are tagged per case, see notes/C09.md)
    w: bool,
}

const NO_EXTRAS: Extras = Extras { t: false, w: false };

fn rand_flat(r: &mut Rng, conflict: bool, extras: Extras) -> Vec<(String, D)> {
    let mut names = vec!["a", "b", "c", "d", "e"];
    r.shuffle(&mut names);
    let k = r.below(4);
    names.truncate(k.max(if r.chance(1, 6) { 0 } else { 1 }));
    let mut es: Vec<(String, D)> = names
        .into_iter()
        .map(|n| {
            let v = if conflict && r.chance(1, 5) { 2 } else { r.below(2) };
            (n.to_string(), item(n, v))
        })
        .collect();
    if extras.t && r.chance(1, 3) {
        let pos = r.below(es.len() + 1);
        es.insert(pos, ("t".to_string(), D::Type(Box::new(D::Instance(rand_abc(r, conflict))))));
    }
    if extras.w && r.chance(1, 3) {
        let pos = r.below(es.len() + 1);
        es.insert(pos, ("w".to_string(), D::Type(Box::new(D::Component(vec![], rand_abc(r, false))))));
    }
    es
}

fn rand_instance(r: &mut Rng, depth: usize, conflict: bool, extras: Extras) -> D {
    let mut es = rand_flat(r, conflict, extras);
    if depth > 0 {
        for n in ["x", "y"] {
            if r.chance(1, 2) {
                let pos = r.below(es.len() + 1);
                es.insert(pos, (n.to_string(), rand_instance(r, depth - 1, conflict, extras)));
            }
        }
    }
    D::Instance(es)
}

/// `type` exports of interface (`t`) / component (`w`) type inside instance requirements:
/// (path, kind, sorted export names of the type)
fn type_export_shapes(d: &D, path: &str, acc: &mut Vec<(String, char, Vec<String>)>) {
    if let D::Instance(es) = d {
        for (n, e) in es {
            let p = format!("{path}/{n}");
            match e {
                D::Type(inner) => match &**inner {
                    D::Instance(xs) => {
                        let mut ns: Vec<String> = xs.iter().map(|x| x.0.clone()).collect();
                        ns.sort();
                        acc.push((p, 'i', ns));
                    }
                    D::Component(_, xs) => {
                        let mut ns: Vec<String> = xs.iter().map(|x| x.0.clone()).collect();
                        ns.sort();
                        acc.push((p, 'c', ns));
                    }
                    _ => {}
                },
                D::Instance(_) => type_export_shapes(e, &p, acc),
                _ => {}
            }
        }
    }
}

fn count_type_export_shapes(out: &mut Out, reqs_d: &[(String, D)]) {
    let mut acc = Vec::new();
    for (_, d) in reqs_d {
        type_export_shapes(d, "", &mut acc);
    }
    for (kind, label) in [('i', "interface"), ('c', "component")] {
        let of_kind: Vec<&(String, char, Vec<String>)> = acc.iter().filter(|x| x.1 == kind).collect();
        if of_kind.is_empty() {
            continue;
        }
        out.count(&format!("shape:type-export-of-{label}-type"));
        if of_kind.iter().any(|x| x.0.matches('/').count() > 1) {
            out.count(&format!("shape:type-export-of-{label}-type:nested"));
        }
        // two contributors offer the export at the same path with different widths
        let disagree = of_kind.iter().any(|x| of_kind.iter().any(|y| x.0 == y.0 && x.2 != y.2));
        let shared = of_kind.iter().enumerate().any(|(i, x)| of_kind.iter().skip(i + 1).any(|y| x.0 == y.0));
        if shared {
            out.count(&format!("shape:type-export-of-{label}-type:in-two-contributors"));
        }
        if disagree {
            out.count(&format!("shape:type-export-of-{label}-type:different-widths"));
        }
    }
}

const VERSIONS: [&str; 9] = ["0.2.0", "0.2.1", "0.2.5", "0.3.0", "0.3.2", "1.0.0", "1.1.0", "1.1.2", "2.0.0"];

/// Families of two semver tracks whose lookup keys are string prefixes of one another
/// (`…@0.2` / `…@0.20`, `…@1` / `…@10`, `…@0.1` / `…@0.10`, `…@0.11`): (shorter key, longer keys).
/// Every permutation is run, so the longer track is aggregated first in half of the orders.
const PREFIX_FAMILIES: [(&[&str], &[&str]); 3] = [
    (&["0.2.0", "0.2.1", "0.2.5"], &["0.20.0", "0.20.3", "0.21.0"]),
    (&["1.0.0", "1.1.0", "1.1.2"], &["10.0.0", "10.2.0", "11.0.1"]),
    (&["0.1.0", "0.1.10", "0.1.2"], &["0.10.0", "0.10.2", "0.11.0"]),
];

/// a version of prefix family `fam`: the shorter and the longer keys are equally likely
fn family_version(r: &mut Rng, fam: usize) -> &'static str {
    let (short, long) = PREFIX_FAMILIES[fam % PREFIX_FAMILIES.len()];
    if r.chance(1, 2) {
        *r.pick(short)
    } else {
        *r.pick(long)
    }
}

fn rand_name(r: &mut Rng, base: &str, track_bias: usize) -> String {
    match r.below(6) {
        0 => base.to_string(),
        1 => format!("{base}@{}", r.pick(&VERSIONS)),
        // one track most of the time
        _ => format!("{base}@{}", [["0.2.0", "0.2.1", "0.2.5"], ["1.0.0", "1.1.0", "1.1.2"]][track_bias % 2][r.below(3)]),
    }
}

fn gen_structural(out: &mut Out, r: &mut Rng) {
    let n = 2 + r.below(4);
    let shape = r.below(10);
    let conflict = r.chance(1, 4);
    let shared_collection = r.chance(1, 4);
    let bias = r.below(2);
    let versioned = r.chance(1, 3);
    // a third of the versioned cases: two tracks whose keys are prefixes of one another
    let family = if versioned && r.chance(1, 3) { Some(r.below(PREFIX_FAMILIES.len())) } else { None };
    if family.is_some() {
        out.count("shape:prefix-related-tracks");
    }
    let extras = Extras { t: true, w: r.chance(1, 8) };
    let mut shared = Types::default();
    let mut reqs_d: Vec<(String, D)> = Vec::new();
    for _ in 0..n {
        let name = if let Some(fam) = family {
            format!("p:q/i@{}", family_version(r, fam))
        } else if versioned {
            rand_name(r, "p:q/i", bias)
        } else { ["i", "j"][if r.chance(1, 6) { 1 } else { 0 }].to_string() };
        let d = match shape {
            0 => item(["a", "b"][r.below(2)], if conflict && r.chance(1, 3) { 2 } else { r.below(2) }),
            1 => item(["c", "d", "e"][r.below(3)], if conflict && r.chance(1, 3) { 2 } else { r.below(2) }),
            2 | 3 | 4 => D::Instance(rand_flat(r, conflict, extras)),
            5 | 6 | 7 => rand_instance(r, 1, conflict, extras),
            8 => rand_instance(r, 2, conflict, extras),
            _ => {
                // component-typed requirement (rare in practice; observed, see notes)
                D::Component(rand_flat(r, false, NO_EXTRAS), rand_flat(r, conflict, NO_EXTRAS))
            }
        };
        reqs_d.push((name, d));
    }
    count_type_export_shapes(out, &reqs_d);
    let mut reqs = Vec::new();
    if shared_collection {
        let kinds: Vec<ItemKind> = {
            // no structural sharing across requirements: two requirements never alias one
            // anonymous interface id (see notes/C09.md, observation 6)
            let mut b = Builder::new(&mut shared, false);
            reqs_d.iter().map(|(_, d)| b.kind(d)).collect()
        };
        let rc = std::rc::Rc::new(shared);
        for ((name, _), kind) in reqs_d.iter().zip(kinds) {
            reqs.push(Req { types: rc.clone(), tid: 0, name: name.clone(), kind });
        }
    } else {
        for (i, (name, d)) in reqs_d.iter().enumerate() {
            let mut t = Types::default();
            let kind = Builder::new(&mut t, false).kind(d);
            reqs.push(Req { types: std::rc::Rc::new(t), tid: i, name: name.clone(), kind });
        }
    }
    let label = match shape {
        0 | 1 => "item",
        2..=4 => "flat-instance",
        5..=7 => "nested-instance-1",
        8 => "nested-instance-2",
        _ => "component",
    };
    emit(out, &reqs, label);
}

// ---------------------------------------------------------------------------------------------
// generator 2: WIT packages with versions, `use`d interfaces and resources

/// `use_r` / `use_res`: does `user` have `use types.{r}` / `use types.{res}` (forced when one of
/// its functions needs the type)?  Contributors of one case differ in their `use`s, so a `use`
/// can be missing from the FIRST version of `user` that is aggregated and present in a later one.
fn wit_package(
    r: &mut Rng,
    version: &str,
    with_resource: bool,
    variant_r: usize,
    funcs: &[&str],
    use_r: bool,
    use_res: bool,
) -> String {
    let mut s = format!("package p:q@{version};\n");
    s.push_str("interface types {\n");
    match variant_r {
        0 => s.push_str("  record r { a: u8 }\n"),
        1 => s.push_str("  record r { a: u8 }\n  enum e { x, y }\n"),
        _ => s.push_str("  record r { a: u8, b: u8 }\n"),
    }
    if with_resource {
        s.push_str("  resource res;\n");
    }
    s.push_str("}\n");
    s.push_str("interface user {\n");
    if use_r || funcs.iter().any(|f| *f == "f" || *f == "g") {
        s.push_str("  use types.{r};\n");
    }
    if with_resource && (use_res || funcs.contains(&"h")) {
        s.push_str("  use types.{res};\n");
    }
    for f in funcs {
        match *f {
            "f" => s.push_str("  f: func(x: r);\n"),
            "g" => s.push_str("  g: func() -> list<r>;\n"),
            "h" if with_resource => s.push_str("  h: func(x: borrow<res>);\n"),
            "h" => s.push_str("  h: func(x: u32);\n"),
            _ => s.push_str("  k: func(x: string) -> string;\n"),
        }
    }
    s.push_str("}\n");
    let _ = r;
    s
}

fn gen_wit(out: &mut Out, r: &mut Rng) {
    let bias = r.below(2);
    let with_resource = r.chance(1, 2);
    let conflict = r.chance(1, 5);
    // a component that imports `user` also imports the interface `user` uses (`types`), in
    // world order; with resources this is the only shape decoded components produce
    let grouped = with_resource || r.chance(1, 2);
    let n = if grouped { 2 + r.below(2) } else { 2 + r.below(3) };
    // a fifth of the cases: package versions on two tracks whose keys are prefixes of one another
    let family = if r.chance(1, 5) { Some(r.below(PREFIX_FAMILIES.len())) } else { None };
    if family.is_some() {
        out.count("shape:prefix-related-tracks");
    }
    // `use`s of `user` vary between the contributors in half of the cases
    let vary_uses = r.chance(1, 2);
    let mut use_sets: Vec<(bool, bool)> = Vec::new();
    let mut reqs = Vec::new();
    let mut groups: Vec<Vec<usize>> = Vec::new();
    for i in 0..n {
        let version = if let Some(fam) = family {
            family_version(r, fam)
        } else if r.chance(3, 4) {
            [["0.2.0", "0.2.1", "0.2.5"], ["1.0.0", "1.1.0", "1.1.2"]][bias][r.below(3)]
        } else {
            *r.pick(&VERSIONS)
        };
        let variant_r = if conflict && r.chance(1, 2) { 2 } else { r.below(2) };
        let mut funcs = vec!["f", "g", "h", "k"];
        r.shuffle(&mut funcs);
        funcs.truncate(1 + r.below(3));
        let (use_r, use_res) = if vary_uses { (r.chance(1, 2), r.chance(1, 2)) } else { (true, true) };
        use_sets.push((
            use_r || funcs.iter().any(|f| *f == "f" || *f == "g"),
            with_resource && (use_res || funcs.contains(&"h")),
        ));
        let wit = wit_package(r, version, with_resource, variant_r, &funcs, use_r, use_res);
        let mut t = Types::default();
        let pkg = match types_from_wit("p", &wit, &mut t) {
            Ok(p) => p,
            Err(e) => {
                out.count("wit:rejected");
                if std::env::var("WACV_DEBUG").is_ok() {
                    eprintln!("{e:#}\n{wit}");
                }
                return;
            }
        };
        let mut find = |want: &str| -> Option<(String, ItemKind)> {
            let mut found = None;
            for (dn, k) in pkg.definitions() {
                if let ItemKind::Type(Type::Interface(id)) = k {
                    let iid = t[*id].id.clone().unwrap_or_default();
                    if dn.contains(want) || iid.contains(&format!("/{want}")) {
                        found = Some((iid, ItemKind::Instance(*id)));
                    }
                }
            }
            found
        };
        let wants: Vec<&str> = if grouped {
            if r.chance(1, 5) { vec!["types"] } else { vec!["types", "user"] }
        } else if r.chance(1, 4) {
            vec!["types"]
        } else {
            vec!["user"]
        };
        let found: Vec<Option<(String, ItemKind)>> = wants.iter().map(|w| find(w)).collect();
        let rc = std::rc::Rc::new(t);
        let mut group = Vec::new();
        for f in found {
            let Some((name, kind)) = f else {
                out.count("wit:no-definition");
                return;
            };
            group.push(reqs.len());
            reqs.push(Req { types: rc.clone(), tid: i, name, kind });
        }
        groups.push(group);
    }
    if use_sets.iter().any(|u| *u != use_sets[0]) {
        out.count("shape:wit-uses-differ-between-contributors");
        if use_sets.iter().any(|u| u.1) && use_sets.iter().any(|u| !u.1) && with_resource {
            out.count("shape:wit-resource-use-in-some-contributors-only");
        }
    }
    let label = match (with_resource, grouped) {
        (true, _) => "wit-resource-components",
        (false, true) => "wit-use-components",
        (false, false) => "wit-use",
    };
    emit_grouped(out, &reqs, &groups, label);
}

// ---------------------------------------------------------------------------------------------
// fixed witnesses (the same five as `c09x.rs`, which also prints a readable summary of them)

fn inst(es: &[(&str, D)]) -> D {
    D::Instance(named(es))
}

fn ty(d: D) -> D {
    D::Type(Box::new(d))
}

fn witnesses() -> Vec<(&'static str, Vec<(&'static str, D)>)> {
    let w1a = inst(&[("t", ty(inst(&[("a", f0())])))]);
    let w1b = inst(&[("t", ty(inst(&[("a", f0()), ("b", f0())])))]);
    let w1c = inst(&[("t", ty(inst(&[("c", f0())])))]);
    vec![
        ("W1-type-export-of-instance-type", vec![("i", w1a.clone()), ("i", w1b.clone())]),
        ("W2-type-export-of-instance-type-3", vec![("i", w1a), ("i", w1b), ("i", w1c)]),
        (
            "W3-nested-instance-export",
            vec![
                ("i", inst(&[("x", inst(&[("a", f0())]))])),
                ("i", inst(&[("x", inst(&[("a", f0()), ("b", f0())]))])),
            ],
        ),
        ("W4-flat", vec![("i", inst(&[("a", f0())])), ("i", inst(&[("b", f0())]))]),
        (
            "W5-type-export-of-component-type",
            vec![
                ("i", inst(&[("t", ty(D::Component(vec![], named(&[("a", f0())]))))])),
                ("i", inst(&[("t", ty(D::Component(vec![], named(&[("a", f0()), ("b", f0())]))))])),
            ],
        ),
    ]
}

fn main() {
    quiet_panics();
    let args = Args::parse();
    if args.replay.is_some() {
        // cases are regenerated from the seed; the ids of the replay file select them
        replay(&args);
        return;
    }
    let shard = args.num("shard", 0);
    let nshards = args.num("nshards", 1).max(1);
    generate(&args, args.seed, args.thorough(), shard, nshards, &args.out);
}

fn generate(args: &Args, seed: u64, thorough: bool, shard: usize, nshards: usize, path: &str) {
    let mut r = Rng::new(seed ^ ((shard as u64).wrapping_mul(0x9E37_79B9)) ^ 0xC09);
    let tier = if thorough { "t" } else { "q" };
    let mut out = Out::create(path, &format!("c09-{tier}{seed}-{shard}of{nshards}-"));
    let n = if thorough { 20_000 } else { args.num("n", 500) } / nshards;
    if shard == 0 {
        // fixed witnesses first (no randomness involved), through the same path as the rest
        for (label, reqs_d) in witnesses() {
            let reqs_d: Vec<(String, D)> = reqs_d.into_iter().map(|(n, d)| (n.to_string(), d)).collect();
            count_type_export_shapes(&mut out, &reqs_d);
            let mut reqs = Vec::new();
            for (i, (name, d)) in reqs_d.iter().enumerate() {
                // every contributor has its own fresh collection
                let mut t = Types::default();
                let kind = Builder::new(&mut t, false).kind(d);
                reqs.push(Req { types: std::rc::Rc::new(t), tid: i, name: name.clone(), kind });
            }
            emit(&mut out, &reqs, label);
        }
    }
    for i in 0..n {
        if i % 4 == 3 {
            gen_wit(&mut out, &mut r);
        } else {
            gen_structural(&mut out, &mut r);
        }
    }
    out.finish();
}

fn replay(args: &Args) {
    let file = args.replay.clone().unwrap();
    let text = std::fs::read_to_string(&file).expect("read replay file");
    let mut wanted: Vec<String> = Vec::new();
    for line in text.lines() {
        if let Some(rest) = line.strip_prefix("CASE\t") {
            if let Some(id) = rest.split('\t').next() {
                wanted.push(id.to_string());
            }
        }
    }
    let mut shards: Vec<(bool, u64, usize, usize)> = Vec::new();
    for id in &wanted {
        let parts: Vec<&str> = id.split('-').collect();
        if parts.len() != 4 || parts[0] != "c09" {
            continue;
        }
        let thorough = parts[1].starts_with('t');
        let seed: u64 = parts[1][1..].parse().unwrap_or(0);
        let Some((s, n)) = parts[2].split_once("of") else { continue };
        let key = (thorough, seed, s.parse().unwrap_or(0), n.parse().unwrap_or(1));
        if !shards.contains(&key) {
            shards.push(key);
        }
    }
    let mut kept = String::new();
    for (thorough, seed, shard, nshards) in shards {
        let tmp = format!("{}.regen", args.out);
        generate(args, seed, thorough, shard, nshards, &tmp);
        let all = std::fs::read_to_string(&tmp).unwrap_or_default();
        for line in all.lines() {
            let id = if let Some(rest) = line.strip_prefix("!FAIL\t") { rest.split('\t').next() } else { line.split('\t').next() };
            if let Some(id) = id {
                if wanted.iter().any(|w| w == id) {
                    kept.push_str(line);
                    kept.push('\n');
                }
            }
        }
        let _ = std::fs::remove_file(&tmp);
    }
    std::fs::write(&args.out, kept).expect("write replay output");
}
