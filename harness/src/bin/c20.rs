//! C20 launcher.  The correspondence itself is `harness/src/c20_core.rs`; it needs the Warg
//! server and client and wac-resolver's `registry` feature, which the shared harness crate does
//! not depend on, so this binary builds a helper crate (`$WACV_TARGET/c20x-ws`, cargo, offline)
//! that `#[path]`-includes the core, and runs it with the same arguments.
#[path = "../small_util.rs"]
mod small_util;

fn main() {
    let Some(env) = small_util::env() else {
        eprintln!("c20: WACV_REPO / WACV_VERIF / WACV_TARGET must be set (run through ./check)");
        std::process::exit(2);
    };
    let deps = format!(
        "wac-types = {{ path = \"{repo}/crates/wac-types\" }}\n\
         wac-resolver = {{ path = \"{repo}/crates/wac-resolver\", default-features = false, features = [\"registry\"] }}\n\
         warg-client = \"0.9.0\"\nwarg-protocol = \"0.9.0\"\nwarg-crypto = \"0.9.0\"\nwarg-server = \"0.9.0\"\n\
         tokio = {{ version = \"1.45.1\", default-features = false, features = [\"macros\", \"rt-multi-thread\", \"time\"] }}\n\
         tokio-util = \"0.7.10\"\nfutures = \"0.3.30\"\nwat = \"1.245.1\"\nsemver = \"1.0.22\"\nindexmap = \"2.2.6\"\nmiette = \"7.2.0\"\nanyhow = \"1.0.81\"\n",
        repo = env.repo
    );
    let main_rs = format!(
        "#![allow(dead_code)]\n#[path = \"{v}/harness/src/lib.rs\"]\nmod api;\n#[path = \"{v}/harness/src/c20_core.rs\"]\nmod c20_core;\nfn main() {{\n    c20_core::run(api::Args::parse());\n}}\n",
        v = env.verif
    );
    // built by `--prebuild 1`; a normal run only checks the source stamp (and rebuilds, under a
    // file lock, when it is stale)
    let bin = match small_util::build_helper(&env, "c20x-ws", "c20x", &deps, &main_rs, &["lib.rs", "c20_core.rs"]) {
        Ok(b) => b,
        Err(e) => {
            eprintln!("c20: {e}");
            std::process::exit(3);
        }
    };
    if std::env::args().any(|a| a == "--prebuild") {
        return;
    }
    let st = std::process::Command::new(bin).args(std::env::args().skip(1)).status().expect("run c20x");
    std::process::exit(st.code().unwrap_or(4));
}
