//! C07: `SubtypeChecker::is_subtype` verdicts over an exhaustive small-scope universe of item
//! kinds (all ordered pairs in thorough, a sample in quick), random deeper WIT-derived types,
//! memo orders on one shared checker, and `set_instantiation_argument` verdicts for a sample.
//! The independent oracle (wasm-encoder + wasmparser `is_subtype_of`) validates the Lean
//! *specification*; its verdict travels with every `pair` case.
#[path = "../tree.rs"]
mod tree;
#[path = "../c07_universe.rs"]
mod universe;
#[path = "../c07_wit.rs"]
mod witgen;
#[path = "../c07_resources.rs"]
mod resources;

use std::collections::HashSet;
use tree::*;
use wac_types::{CoreExtern, DefinedType, ItemKind, Resource, SubtypeChecker, Type, Types, ValueType};
use wacv::*;

fn b(x: bool) -> String {
    if x {
        "1".into()
    } else {
        "0".into()
    }
}

fn has_table64(d: &D) -> bool {
    let any = |v: &Vec<(String, D)>| v.iter().any(|(_, d)| has_table64(d));
    match d {
        D::Module(m) => m.0.imports.values().chain(m.0.exports.values()).any(|e| matches!(e, CoreExtern::Table { table64: true, .. })),
        D::Instance(es) => any(es),
        D::Component(is, es) => any(is) || any(es),
        D::Type(d) => has_table64(d),
        _ => false,
    }
}

fn has_shared_global(d: &D) -> bool {
    let any = |v: &Vec<(String, D)>| v.iter().any(|(_, d)| has_shared_global(d));
    match d {
        D::Module(m) => m.0.imports.values().chain(m.0.exports.values()).any(|e| matches!(e, CoreExtern::Global { shared: true, .. })),
        D::Instance(es) => any(es),
        D::Component(is, es) => any(is) || any(es),
        D::Type(d) => has_shared_global(d),
        _ => false,
    }
}

fn oracle_field(out: &mut Out, a: &D, bd: &D) -> String {
    // wasmparser 0.247 `entity_type` compares only mutability and content type of globals and
    // ignores their `shared` flag (core import matching and the pinned wac tests require it)
    if has_shared_global(a) != has_shared_global(bd) {
        out.count("oracle:skipped-shared-flag");
        return "-".into();
    }
    // wasmparser 0.247 does not compare the table64 flag of tables (core import matching does)
    if has_table64(a) != has_table64(bd) {
        out.count("oracle:skipped-table64");
        return "-".into();
    }
    match oracle_subtype(a, bd) {
        Ok(Some(v)) => {
            out.count(if v { "oracle:sub" } else { "oracle:not-sub" });
            b(v)
        }
        Ok(None) => {
            out.count("oracle:not-expressible");
            "-".into()
        }
        Err(e) => {
            out.count("oracle:encode-error");
            let id = format!("oracle-{}", out.n);
            out.fail(&id, "oracle encoding rejected", &format!("{e} :: a={a:?} b={bd:?}"));
            "-".into()
        }
    }
}

/// verdict fields of one `is_subtype` call: `1`/`0`/`P` and the `{:#}` message
fn verdict_fields(r: Result<anyhow::Result<()>, String>) -> (String, String) {
    match r {
        Ok(Ok(())) => ("1".into(), String::new()),
        Ok(Err(e)) => ("0".into(), format!("{e:#}")),
        Err(p) => ("P".into(), p),
    }
}

/// one pair: `mode` 0 = two collections, 1 = one collection without sharing, 2 = one collection
/// with structural sharing (id shortcuts)
fn pair_case(out: &mut Out, a: &D, bd: &D, mode: usize, with_oracle: bool) {
    let (ta, ka, tb, kb) = match mode {
        0 => {
            let mut ta = Types::default();
            let ka = Builder::new(&mut ta, false).kind(a);
            let mut tb = Types::default();
            let kb = Builder::new(&mut tb, false).kind(bd);
            (ta, ka, Some(tb), kb)
        }
        m => {
            let mut t = Types::default();
            let (ka, kb) = {
                let mut bl = Builder::new(&mut t, m == 2);
                let ka = bl.kind(a);
                let kb = bl.kind(bd);
                (ka, kb)
            };
            (t, ka, None, kb)
        }
    };
    pair_case_built(out, &ta, ka, tb.as_ref(), kb, Some((a, bd)), with_oracle, a.strip() != bd.strip());
}

#[allow(clippy::too_many_arguments)]
fn pair_case_built(
    out: &mut Out,
    ta: &Types,
    ka: ItemKind,
    tb: Option<&Types>,
    kb: ItemKind,
    descs: Option<(&D, &D)>,
    with_oracle: bool,
    nontrivial: bool,
) {
    let r = guarded(std::panic::AssertUnwindSafe(|| {
        let mut cache = HashSet::new();
        let mut c = SubtypeChecker::new(&mut cache);
        c.is_subtype(ka, ta, kb, tb.unwrap_or(ta))
    }));
    let (v, msg) = verdict_fields(r);
    if v == "P" {
        let id = format!("pair-{}", out.n + 1);
        out.fail(&id, "is_subtype panicked", &format!("{msg} :: {descs:?}"));
    }
    out.count(&format!("verdict:{v}"));
    let orc = match (with_oracle, descs) {
        (true, Some((a, bd))) => oracle_field(out, a, bd),
        _ => "-".into(),
    };
    let fields = vec![
        esc(&ser_types(ta, 1)),
        esc(&ser_kind(ka)),
        match tb {
            None => "=".to_string(),
            Some(tb) => esc(&ser_types(tb, 2)),
        },
        esc(&ser_kind(kb)),
        v,
        esc(&msg),
        orc,
    ];
    out.case(nontrivial, "pair", &fields);
}

/// a sequence of checks on ONE `SubtypeChecker` (shared memo and variance stack) over a few
/// collections; the same queries are asked in a random order with random repetitions
fn memo_case(out: &mut Out, r: &mut Rng, pool: &[D]) {
    let ncoll = 1 + r.below(3);
    let mut colls: Vec<Types> = (0..ncoll).map(|_| Types::default()).collect();
    let mut kinds: Vec<(usize, ItemKind)> = Vec::new();
    // a handful of related kinds: pick a base and neighbours of the same constructor family
    let base = r.below(pool.len());
    let nk = 3 + r.below(4);
    for j in 0..nk {
        let d = if j == 0 || r.chance(2, 3) {
            // neighbours in the universe list are variations of one constructor
            let lo = base.saturating_sub(4);
            let hi = (base + 5).min(pool.len());
            &pool[lo + r.below(hi - lo)]
        } else {
            r.pick(pool)
        };
        let ci = r.below(ncoll);
        let share = r.chance(1, 2);
        let k = Builder::new(&mut colls[ci], share).kind(d);
        kinds.push((ci, k));
    }
    let nchecks = 4 + r.below(10);
    let mut fields: Vec<String> = vec![ncoll.to_string()];
    for (i, t) in colls.iter().enumerate() {
        fields.push(esc(&ser_types(t, 10 + i as u64)));
    }
    fields.push(nchecks.to_string());
    let mut cache = HashSet::new();
    let mut checker = SubtypeChecker::new(&mut cache);
    let mut any_hit = false;
    let mut asked: HashSet<(usize, usize)> = HashSet::new();
    for _ in 0..nchecks {
        let ia = r.below(kinds.len());
        let ib = if r.chance(1, 5) { ia } else { r.below(kinds.len()) };
        if !asked.insert((ia, ib)) {
            any_hit = true;
        }
        let (ca, ka) = kinds[ia];
        let (cb, kb) = kinds[ib];
        let res = guarded(std::panic::AssertUnwindSafe(|| checker.is_subtype(ka, &colls[ca], kb, &colls[cb])));
        let (v, msg) = verdict_fields(res);
        out.count(&format!("memo-verdict:{v}"));
        fields.push(ca.to_string());
        fields.push(esc(&ser_kind(ka)));
        fields.push(cb.to_string());
        fields.push(esc(&ser_kind(kb)));
        fields.push(v);
        fields.push(esc(&msg));
    }
    if any_hit {
        out.count("memo:repeated-query");
    }
    out.case(true, "memo", &fields);
}

/// resource-bearing kinds: every ordered pair of `resources::pool()`, and a hand-built collection
/// in which two distinct resources share a name (the checker compares names: accepted)
fn resource_cases(out: &mut Out, r: &mut Rng, shard: usize, nshards: usize) {
    let pool = resources::pool();
    if shard == 0 {
        out.add("res:pool-size", pool.len() as u64);
    }
    let mut idx = 0usize;
    for a in &pool {
        for bd in &pool {
            idx += 1;
            if idx % nshards != shard {
                continue;
            }
            let mode = r.below(3);
            out.count(&format!("res:mode:{mode}"));
            pair_case(out, a, bd, mode, false);
        }
    }
    if shard == 0 {
        let mut t = Types::default();
        let r0 = t.add_resource(Resource { name: "r".to_string(), alias: None });
        let r1 = t.add_resource(Resource { name: "r".to_string(), alias: None });
        let l0 = t.add_defined_type(DefinedType::List(ValueType::Own(r0)));
        let l1 = t.add_defined_type(DefinedType::List(ValueType::Own(r1)));
        let pairs = [
            (ItemKind::Value(ValueType::Own(r0)), ItemKind::Value(ValueType::Own(r1))),
            (ItemKind::Value(ValueType::Borrow(r1)), ItemKind::Value(ValueType::Borrow(r0))),
            (ItemKind::Value(ValueType::Defined(l0)), ItemKind::Value(ValueType::Defined(l1))),
            (ItemKind::Type(Type::Resource(r0)), ItemKind::Type(Type::Resource(r1))),
            (ItemKind::Type(Type::Resource(r0)), ItemKind::Type(Type::Resource(r0))),
        ];
        for (ka, kb) in pairs {
            out.count("res:duplicate-name");
            pair_case_built(out, &t, ka, None, kb, None, false, true);
        }
    }
}

fn generate(args: &Args, seed: u64, thorough: bool, shard: usize, nshards: usize, path: &str) {
    let mut r = Rng::new(seed ^ ((shard as u64).wrapping_mul(0x9E37_79B9)));
    let tier = if thorough { "t" } else { "q" };
    let mut out = Out::create(path, &format!("c07-{tier}{seed}-{shard}of{nshards}-"));
    let uni = universe::universe();
    if shard == 0 {
        out.add("universe:size", uni.len() as u64);
    }

    // 1. the small-scope universe: all ordered pairs in thorough, a 1/stride sample in quick
    //    (the diagonal and its structural duplicates always)
    let stride = if thorough { 1 } else { args.num("stride", 10) };
    let mut idx = 0usize;
    for a in &uni {
        for bd in &uni {
            idx += 1;
            if idx % nshards != shard {
                continue;
            }
            if r.below(stride) != 0 && a.strip() != bd.strip() {
                continue;
            }
            let mode = r.below(3);
            out.count(&format!("mode:{mode}"));
            pair_case(&mut out, a, bd, mode, true);
        }
    }

    // 2. memo orders
    let nmemo = if thorough { 6000 } else { args.num("memo", 500) } / nshards;
    for _ in 0..nmemo {
        memo_case(&mut out, &mut r, &uni);
    }

    // 3. random deeper WIT-derived types (decoded by wac from wit-component's encoding)
    let nwit = if thorough { 1500 } else { args.num("wit", 60) } / nshards;
    for _ in 0..nwit {
        witgen::wit_cases(&mut out, &mut r);
    }
    // 4. `set_instantiation_argument` verdicts for a sample of WIT-derived exporter/importer pairs
    let narg = if thorough { 600 } else { args.num("arg", 40) } / nshards;
    for _ in 0..narg {
        witgen::arg_case(&mut out, &mut r);
    }
    // 5. the resource clause: all ordered pairs of the resource-bearing pool in a random build
    //    mode (one collection: resource names injective; two collections: a shared name is not)
    resource_cases(&mut out, &mut r, shard, nshards);
    out.finish();
}

/// `--replay FILE`: the ids of the `CASE` lines name tier, seed and shard; regenerate those
/// shards and keep only the named cases (and the harness-decided failures about them).
fn replay(args: &Args, file: &str) {
    let text = std::fs::read_to_string(file).expect("read replay file");
    let mut wanted: Vec<String> = Vec::new();
    for line in text.lines() {
        if let Some(rest) = line.strip_prefix("CASE\t") {
            if let Some(id) = rest.split('\t').next() {
                wanted.push(id.to_string());
            }
        }
    }
    let mut shards: Vec<(bool, u64, usize, usize)> = Vec::new();
    for id in &wanted {
        // c07-<q|t><seed>-<shard>of<nshards>-<n>
        let parts: Vec<&str> = id.split('-').collect();
        if parts.len() != 4 || parts[0] != "c07" {
            continue;
        }
        let thorough = parts[1].starts_with('t');
        let seed: u64 = parts[1][1..].parse().unwrap_or(0);
        let Some((s, n)) = parts[2].split_once("of") else { continue };
        let key = (thorough, seed, s.parse().unwrap_or(0), n.parse().unwrap_or(1));
        if !shards.contains(&key) {
            shards.push(key);
        }
    }
    let mut kept = String::new();
    for (thorough, seed, shard, nshards) in shards {
        let tmp = format!("{}.regen", args.out);
        generate(args, seed, thorough, shard, nshards, &tmp);
        let all = std::fs::read_to_string(&tmp).unwrap_or_default();
        for line in all.lines() {
            let id = if let Some(rest) = line.strip_prefix("!FAIL\t") { rest.split('\t').next() } else { line.split('\t').next() };
            if let Some(id) = id {
                if wanted.iter().any(|w| w == id) {
                    kept.push_str(line);
                    kept.push('\n');
                }
            }
        }
        let _ = std::fs::remove_file(&tmp);
    }
    std::fs::write(&args.out, kept).expect("write replay output");
}

fn main() {
    quiet_panics();
    let args = Args::parse();
    if let Some(file) = args.replay.clone() {
        replay(&args, &file);
        return;
    }
    let shard = args.num("shard", 0);
    let nshards = args.num("nshards", 1).max(1);
    generate(&args, args.seed, args.thorough(), shard, nshards, &args.out);
}
