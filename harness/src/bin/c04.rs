//! C04: generated WAC programs (statement sublanguage) over generated package libraries.
//! Observation = `Document::parse` + `resolve` + `Resolution::encode`: the error variant with the
//! names it carries, or the wiring decoded from the encoded bytes by an independent reader.
//! The Lean driver compares it with the LANGUAGE.md reference evaluator (SPEC) and with the model
//! of resolution.rs (MODEL).
#[path = "../lang_util.rs"]
mod lang_util;
use lang_util::*;
use wacv::*;

use indexmap::IndexMap;
use wac_parser::resolution::{Error, InstanceOperation};
use wac_parser::Document;
use wac_types::{BorrowedPackageKey, ExternKind};

const SELF: &str = "test:comp";

// ------------------------------------------------------------------------------------------
// library generation

const PLAIN: &[&str] = &["a", "b", "c", "baz", "qux", "streams", "run", "handler"];
const PATHS: &[&str] = &[
    "foo:bar/baz",
    "foo:bar/baz@1.0.0",
    "foo:bar/qux@1.0.0",
    "foo:bar/run",
    "x:y/baz@2.0.0",
    "x:y/handler",
    "wasi:io/streams@0.2.0",
    "a:b/c@1.0.0",
    "a:b/c@2.0.0",
    // a nested name (accepted by the validator with all features on): the *last* segment counts
    "foo:bar/sub/qux",
];
const COMPONENT_NAMES: &[&str] = &["test:p0", "test:p1", "foo:comp", "x:srv", "my:stream"];
const LOCALS: &[&str] = &["s", "t", "u", "v", "w", "i", "j", "k", "baz", "qux", "streams", "c", "handler", "run", "a", "b", "foo-bar"];

fn last_segment(n: &str) -> String {
    match n.rfind('/') {
        Some(i) => {
            let r = &n[i + 1..];
            r.split('@').next().unwrap().to_string()
        }
        None => n.to_string(),
    }
}

fn inst_shape(r: &mut Rng) -> Vec<(String, Kind)> {
    let f = |n: &str, s: usize| (n.to_string(), Kind::Func(s));
    match r.below(9) {
        0 | 1 => vec![f("f", 0)],
        2 | 3 => vec![f("f", 0), f("g", 1)],
        4 => vec![f("g", 1)],
        5 => vec![f("f", 1)],
        6 => vec![f("f", 0), ("inner".to_string(), Kind::Inst(None, vec![f("g", 1)]))],
        7 => vec![f("g", 1), f("f", 0), f("h", 2)],
        _ => vec![],
    }
}

fn with_id(name: &str, es: Vec<(String, Kind)>) -> Kind {
    Kind::Inst(if name.contains(':') { Some(name.to_string()) } else { None }, es)
}

struct Lib {
    pkgs: Vec<Package>,
    bytes: Vec<(String, Vec<u8>)>,
    table: Vec<(String, Kind)>,
}

fn split_path(p: &str) -> (String, Option<String>, String) {
    // ns:pkg/iface[@ver]
    let (path, ver) = match p.find('@') {
        Some(i) => (&p[..i], Some(p[i + 1..].to_string())),
        None => (p, None),
    };
    let i = path.find('/').unwrap();
    (path[..i].to_string(), ver, path[i + 1..].to_string())
}

fn gen_lib(r: &mut Rng) -> Vec<Package> {
    // one kind per name (so that implicit imports of one name always merge trivially)
    let mut table: Vec<(String, Kind)> = Vec::new();
    for n in PLAIN {
        let k = if r.chance(1, 2) { Kind::Func(r.below(3)) } else { with_id(n, inst_shape(r)) };
        table.push((n.to_string(), k));
    }
    for n in PATHS {
        table.push((n.to_string(), with_id(n, inst_shape(r))));
    }
    let mut pkgs: Vec<Package> = Vec::new();
    let ncomp = 2 + r.below(3);
    let mut names: Vec<&str> = COMPONENT_NAMES.to_vec();
    r.shuffle(&mut names);
    // names exported by two packages and imported by a third (or by one of the two)
    let mut shared: Vec<(String, Kind)> = Vec::new();
    if r.chance(1, 2) {
        let mut pool: Vec<usize> = (0..table.len()).filter(|&j| table[j].0.matches('/').count() <= 1).collect();
        r.shuffle(&mut pool);
        let n = 1 + r.below(3);
        shared = pool.iter().take(n).map(|&j| table[j].clone()).collect();
    }
    let shared_importer = if ncomp >= 3 { 2 + r.below(ncomp - 2) } else { 1 };
    for (i, name) in names.iter().take(ncomp).enumerate() {
        let nimp = [0, 1, 1, 2, 2, 3, 4][r.below(7)];
        let nexp = [0, 1, 1, 2, 2, 3][r.below(6)];
        let mut pool: Vec<usize> = (0..table.len()).collect();
        r.shuffle(&mut pool);
        // bias: with some probability make sure two names share a last segment (ambiguity)
        let mut imports: Vec<(String, Kind)> = pool.iter().take(nimp).map(|&i| table[i].clone()).collect();
        if r.chance(1, 4) {
            for n in ["foo:bar/baz", "x:y/baz@2.0.0"] {
                if !imports.iter().any(|(m, _)| m == n) {
                    imports.push(table.iter().find(|(m, _)| m == n).unwrap().clone());
                }
            }
        }
        if r.chance(1, 6) {
            for n in ["baz", "foo:bar/baz"] {
                if !imports.iter().any(|(m, _)| m == n) {
                    imports.push(table.iter().find(|(m, _)| m == n).unwrap().clone());
                }
            }
        }
        r.shuffle(&mut pool);
        let mut exports: Vec<(String, Kind)> = Vec::new();
        for &j in pool.iter().filter(|&&j| table[j].0.matches('/').count() <= 1).take(nexp) {
            let (n, k) = table[j].clone();
            // an export may have another kind than the import of the same name elsewhere
            let k = if r.chance(1, 6) {
                if r.chance(1, 2) {
                    Kind::Func(r.below(3))
                } else {
                    with_id(&n, inst_shape(r))
                }
            } else {
                k
            };
            exports.push((n, k));
        }
        let version = if r.chance(1, 4) { Some(["1.2.0", "0.3.1"][r.below(2)].to_string()) } else { None };
        // overlapping export sets: the shared names are exported by the first two component
        // packages and imported by one package (several spreads can then supply the same argument)
        if i < 2 {
            for (n, k) in &shared {
                if !exports.iter().any(|(m, _)| m == n) {
                    exports.push((n.clone(), k.clone()));
                }
            }
        }
        if i == shared_importer && !shared.is_empty() {
            // ... and something only one of the two exports, so that a later spread still has
            // something new to supply
            for q in pkgs.iter().take(2) {
                if r.chance(2, 3) {
                    if let Some((n, k)) = q.exports.iter().find(|(n, k)| !shared.iter().any(|(m, _)| m == n) && table.iter().any(|(m, tk)| m == n && tk == k)) {
                        if !imports.iter().any(|(m, _)| m == n) {
                            imports.push((n.clone(), k.clone()));
                        }
                    }
                }
            }
            for (n, k) in &shared {
                if !imports.iter().any(|(m, _)| m == n) {
                    let at = r.below(imports.len() + 1);
                    imports.insert(at, (n.clone(), k.clone()));
                }
            }
        }
        pkgs.push(Package { name: name.to_string(), version, imports, exports });
        // a second version of the same name with another world
        if i == 0 && r.chance(1, 4) {
            let mut p2 = pkgs.last().unwrap().clone();
            p2.version = Some("2.0.0".to_string());
            if !p2.imports.is_empty() && r.chance(1, 2) {
                p2.imports.pop();
            }
            if p2.version != pkgs.last().unwrap().version {
                pkgs.push(p2);
            }
        }
    }
    // type packages: `ns:pkg[@ver]` exporting interface definitions
    let mut tp: Vec<Package> = Vec::new();
    for p in PATHS {
        if !r.chance(2, 3) || p.matches('/').count() != 1 {
            continue;
        }
        let (pkg, ver, iface) = split_path(p);
        let kind = match &table.iter().find(|(n, _)| n == p).unwrap().1 {
            Kind::Inst(id, es) => Kind::Type(id.clone(), es.clone()),
            _ => unreachable!(),
        };
        match tp.iter_mut().find(|q| q.name == pkg && q.version == ver) {
            Some(q) => q.exports.push((iface, kind)),
            None => tp.push(Package { name: pkg, version: ver, imports: vec![], exports: vec![(iface, kind)] }),
        }
    }
    pkgs.extend(tp);
    r.shuffle(&mut pkgs);
    pkgs
}

fn realise_lib(pkgs: Vec<Package>) -> Result<Lib, String> {
    let mut bytes = Vec::new();
    let mut table = Vec::new();
    for (i, p) in pkgs.iter().enumerate() {
        let text = package_wat(p, i);
        let b = wat::parse_str(&text).map_err(|e| format!("wat: {e}\n{text}"))?;
        // self-check: wac-types must see exactly the abstract package
        let ver = p.version.as_ref().map(|v| semver::Version::parse(v).unwrap());
        let (imports, exports, defs) = decode_package(&p.name, ver.as_ref(), &b)?;
        if imports != p.imports || exports != p.exports {
            return Err(format!("realisation differs: {:?} vs {:?} / {:?}\n{text}", p, imports, exports));
        }
        let want: Vec<String> = p.exports.iter().filter(|(_, k)| matches!(k, Kind::Type(..))).map(|(n, _)| n.clone()).collect();
        if defs != want {
            return Err(format!("definitions differ: {defs:?} vs {want:?}"));
        }
        for (n, k) in &p.imports {
            table.push((n.clone(), k.clone()));
        }
        bytes.push((p.key(), b));
    }
    Ok(Lib { pkgs, bytes, table })
}

// ------------------------------------------------------------------------------------------
// program generation (mostly valid; the generator tracks an approximation of what each local is —
// used only to steer generation, never to judge)

#[derive(Clone)]
struct Val {
    kind: Kind,
    /// import name / accessed export name
    ext: Option<String>,
}

struct Gen<'a> {
    r: &'a mut Rng,
    lib: &'a [Package],
    locals: Vec<(String, Val)>,
    stmts: Vec<Stmt>,
    import_names: Vec<String>,
    export_names: Vec<String>,
    /// distribution counters (flushed by the caller)
    count: Vec<&'static str>,
}

fn lookup<'k>(es: &'k [(String, Kind)], n: &str) -> Option<&'k Kind> {
    es.iter().find(|(m, _)| m == n).map(|(_, k)| k)
}

/// what a short name selects among `names` (approximation of the documented rule)
fn short_name(names: &[&String], id: &str) -> String {
    if names.iter().any(|m| *m == id) {
        return id.to_string();
    }
    let c: Vec<&&String> = names.iter().filter(|m| m.contains('/') && last_segment(m) == id).collect();
    if c.len() == 1 {
        (*c[0]).clone()
    } else {
        id.to_string()
    }
}

fn approx_infer(local: &str, v: &Val, imports: &[(String, Kind)]) -> String {
    let names: Vec<&String> = imports.iter().map(|(n, _)| n).collect();
    if let Kind::Inst(Some(id), _) = &v.kind {
        if names.contains(&id) {
            return id.clone();
        }
    }
    if let Some(e) = &v.ext {
        if names.contains(&e) {
            return e.clone();
        }
    }
    short_name(&names, local)
}

/// every instance with an interface id inside `k` has exactly the kind that id has as a package
/// import / interface definition of the library
fn one_shape(lib: &[Package], k: &Kind) -> bool {
    match k {
        Kind::Func(_) => true,
        Kind::Type(..) | Kind::IfaceTy(..) => false,
        Kind::Inst(id, es) => {
            if let Some(id) = id {
                let mut found = false;
                for p in lib {
                    for (n, ik) in &p.imports {
                        if n == id {
                            if ik != k {
                                return false;
                            }
                            found = true;
                        }
                    }
                    for (_, ek) in &p.exports {
                        if let Kind::Type(Some(tid), tes) = ek {
                            if tid == id {
                                if tes != es {
                                    return false;
                                }
                                found = true;
                            }
                        }
                    }
                }
                if !found {
                    return false;
                }
            }
            es.iter().all(|(_, ek)| one_shape(lib, ek))
        }
    }
}

impl<'a> Gen<'a> {
    fn fresh_local(&mut self, prefer: Option<&str>) -> String {
        if let Some(p) = prefer {
            if is_ident(p) && !self.locals.iter().any(|(n, _)| n == p) && self.r.chance(3, 4) {
                return p.to_string();
            }
        }
        for _ in 0..20 {
            let n = *self.r.pick(LOCALS);
            if !self.locals.iter().any(|(m, _)| m == n) {
                return n.to_string();
            }
        }
        format!("l{}", self.locals.len())
    }

    /// `e.<export>` in short or string form
    fn access_of(&mut self, e: Expr, es: &[(String, Kind)], en: &str) -> Expr {
        let seg = last_segment(en);
        let names: Vec<&String> = es.iter().map(|(n, _)| n).collect();
        if is_ident(&seg) && short_name(&names, &seg) == en && self.r.chance(2, 3) {
            Expr::Access(Box::new(e), seg)
        } else if seg != en && self.r.chance(1, 25) {
            // the string form is exact: a short name does not select a path
            Expr::NamedAccess(Box::new(e), seg)
        } else {
            Expr::NamedAccess(Box::new(e), en.to_string())
        }
    }

    /// expressions (with what they approximately denote) available without new instantiations
    fn value_paths(&mut self) -> Vec<(Expr, Val)> {
        let mut v = Vec::new();
        for (n, val) in self.locals.clone() {
            if matches!(val.kind, Kind::IfaceTy(..)) {
                // a declaration is not used as a value (exporting it under another name is a known
                // graph-level defect outside this property)
                continue;
            }
            v.push((Expr::Ident(n.clone()), val.clone()));
            if let Kind::Inst(_, es) = &val.kind {
                for (en, ek) in es {
                    let e = self.access_of(Expr::Ident(n.clone()), es, en);
                    v.push((e.clone(), Val { kind: ek.clone(), ext: Some(en.clone()) }));
                    if let Kind::Inst(_, es2) = ek {
                        for (en2, ek2) in es2 {
                            let e2 = self.access_of(e.clone(), es2, en2);
                            v.push((e2, Val { kind: ek2.clone(), ext: Some(en2.clone()) }));
                        }
                    }
                }
            }
        }
        v
    }

    fn gen_value(&mut self, want: &Kind, depth: usize) -> Option<Expr> {
        let paths = self.value_paths();
        let good: Vec<&(Expr, Val)> = paths.iter().filter(|(_, v)| v.kind.sub(want)).collect();
        let mut e = if !good.is_empty() && self.r.chance(5, 6) {
            good[self.r.below(good.len())].0.clone()
        } else if depth < 2 && want.is_inst() && self.r.chance(1, 2) {
            // a nested instantiation whose instance might fit
            let cands: Vec<&Package> = self.lib.iter().filter(|p| Kind::Inst(None, p.exports.clone()).sub(want)).collect();
            if cands.is_empty() {
                return None;
            }
            let p = cands[self.r.below(cands.len())].clone();
            self.gen_new(&p, depth + 1)
        } else if depth < 2 && self.r.chance(2, 3) {
            // an export of a nested instantiation
            let mut cands: Vec<(Package, String)> = Vec::new();
            for p in self.lib.iter() {
                for (n, k) in &p.exports {
                    if k.sub(want) {
                        cands.push((p.clone(), n.clone()));
                    }
                }
            }
            if cands.is_empty() {
                return None;
            }
            let (p, n) = cands[self.r.below(cands.len())].clone();
            let inner = self.gen_new(&p, depth + 1);
            self.access_of(inner, &p.exports, &n)
        } else if !paths.is_empty() && self.r.chance(1, 6) {
            paths[self.r.below(paths.len())].0.clone()
        } else {
            return None;
        };
        if self.r.chance(1, 10) {
            e = Expr::Nested(Box::new(e));
        }
        Some(e)
    }

    fn gen_new(&mut self, p: &Package, depth: usize) -> Expr {
        let mut args: Vec<Arg> = Vec::new();
        let mut spreads: Vec<String> = Vec::new();
        let mut omitted = false;
        let import_names: Vec<&String> = p.imports.iter().map(|(n, _)| n).collect();
        // several spreads in one `new`, preferably with overlapping export sets: the spreads apply
        // in order to the arguments that are still unsatisfied
        let mut covered: Vec<String> = Vec::new();
        let supplies = |v: &Val, strict: bool| -> bool {
            v.kind.exports().map_or(false, |es| p.imports.iter().any(|(n, k)| lookup(es, n).map_or(false, |ek| !strict || ek.sub(k))))
        };
        // (more often when the library has several packages whose instances could supply something)
        let sources = self.lib.iter().filter(|q| supplies(&Val { kind: Kind::Inst(None, q.exports.clone()), ext: None }, true)).count();
        let odds = match (depth, sources >= 2) {
            (0, true) => 2,
            (0, false) => 8,
            (_, true) => 6,
            _ => 16,
        };
        if !p.imports.is_empty() && self.r.chance(1, odds) {
            let mut cands: Vec<String> = self.locals.iter().filter(|(_, v)| supplies(v, true)).map(|(l, _)| l.clone()).collect();
            if cands.len() < 2 && depth == 0 {
                // bind instances of packages exporting some of the wanted names first
                let mut qs: Vec<Package> = self.lib.iter().filter(|q| supplies(&Val { kind: Kind::Inst(None, q.exports.clone()), ext: None }, true)).cloned().collect();
                self.r.shuffle(&mut qs);
                for q in qs.iter().take(2 + self.r.below(2)) {
                    let e = self.gen_new(q, 1);
                    let id = self.fresh_local(None);
                    self.locals.push((id.clone(), Val { kind: Kind::Inst(None, q.exports.clone()), ext: None }));
                    self.stmts.push(Stmt::Let(id.clone(), e));
                    cands.push(id);
                }
            }
            if self.r.chance(1, 8) {
                // instances exporting a wanted name at another kind
                let more: Vec<String> = self.locals.iter().filter(|(l, v)| supplies(v, false) && !cands.contains(l)).map(|(l, _)| l.clone()).collect();
                cands.extend(more);
            }
            if !cands.is_empty() {
                self.r.shuffle(&mut cands);
                // mostly each further spread still has something new to supply (else the
                // documented outcome is SpreadInstantiationNoMatch)
                let n = 2 + self.r.below(2);
                let mut bound: Vec<String> = Vec::new();
                for c in cands.iter() {
                    if spreads.len() >= n {
                        break;
                    }
                    let names: Vec<String> = self
                        .locals
                        .iter()
                        .find(|(l, _)| l == c)
                        .and_then(|(_, v)| v.kind.exports())
                        .map(|es| p.imports.iter().filter(|(n, _)| lookup(es, n).is_some()).map(|(n, _)| n.clone()).collect())
                        .unwrap_or_default();
                    if names.iter().any(|n| !bound.contains(n)) || self.r.chance(1, 25) {
                        spreads.push(c.clone());
                        bound.extend(names);
                    }
                }
                if spreads.len() < 2 && depth == 0 {
                    // bind one more instance that still has something new to supply (preferably
                    // one that also exports what is already supplied)
                    let mut qs: Vec<Package> = self
                        .lib
                        .iter()
                        .filter(|q| p.imports.iter().any(|(n, k)| !bound.contains(n) && lookup(&q.exports, n).map_or(false, |ek| ek.sub(k))))
                        .cloned()
                        .collect();
                    self.r.shuffle(&mut qs);
                    qs.sort_by_key(|q| !q.exports.iter().any(|(n, _)| bound.contains(n)));
                    if let Some(q) = qs.first() {
                        let e = self.gen_new(q, 1);
                        let id = self.fresh_local(None);
                        self.locals.push((id.clone(), Val { kind: Kind::Inst(None, q.exports.clone()), ext: None }));
                        self.stmts.push(Stmt::Let(id.clone(), e));
                        bound.extend(p.imports.iter().filter(|(n, _)| lookup(&q.exports, n).is_some()).map(|(n, _)| n.clone()));
                        let at = self.r.below(spreads.len() + 1);
                        spreads.insert(at, id);
                    }
                }
                // the same instance twice (the second one supplies nothing new), or fewer candidates than wanted
                let real = spreads.len() >= 2;
                if !spreads.is_empty() && (spreads.len() < 2 && self.r.chance(1, 10) || self.r.chance(1, 15)) {
                    let c = spreads[self.r.below(spreads.len())].clone();
                    spreads.push(c);
                }
                if spreads.len() < 2 && self.r.chance(2, 3) {
                    // nothing to overlap with
                    spreads.clear();
                }
                let mut per_name: Vec<usize> = Vec::new();
                for (n, _) in &p.imports {
                    let k = spreads.iter().filter(|s| self.locals.iter().any(|(l, v)| l == *s && v.kind.exports().map_or(false, |es| lookup(es, n).is_some()))).count();
                    if k > 0 {
                        covered.push(n.clone());
                    }
                    per_name.push(k);
                }
                if spreads.len() >= 2 {
                    self.count.push("new:multi-spread");
                    if std::env::var_os("WACV_DEBUG").is_some() {
                        eprintln!("GEN real={real} multi-spread new {} spreads={:?} covered={:?} per_name={:?} imports={:?}", p.key(), spreads, covered, per_name, import_names);
                    }
                }
                if real && per_name.iter().any(|&k| k >= 2) {
                    self.count.push("new:multi-spread-each-supplies-overlap");
                }
                if per_name.iter().any(|&k| k >= 2) {
                    self.count.push("new:multi-spread-overlap");
                }
            }
        }
        for (n, k) in &p.imports {
            let seg = last_segment(n);
            // left to the spreads (mostly)
            if covered.contains(n) && self.r.chance(19, 20) {
                continue;
            }
            // an explicit import of this very name must be passed, else `...` would conflict with it
            if self.import_names.contains(n) && self.r.chance(9, 10) {
                if let Some((l, _)) = self.locals.iter().find(|(l, v)| v.ext.as_ref() == Some(n) && v.kind.sub(k) && approx_infer(l, v, &p.imports) == *n) {
                    args.push(Arg::Inferred(l.clone()));
                    continue;
                }
            }
            match self.r.below(10) {
                0..=2 => {
                    // inferred: a local of a fitting kind whose name infers to `n`
                    let fits: Vec<(String, Val)> = self.locals.iter().filter(|(_, v)| v.kind.sub(k)).cloned().collect();
                    let named: Vec<&(String, Val)> = fits.iter().filter(|(l, v)| approx_infer(l, v, &p.imports) == *n).collect();
                    if !named.is_empty() {
                        args.push(Arg::Inferred(named[self.r.below(named.len())].0.clone()));
                    } else if !fits.is_empty() && self.r.chance(1, 5) {
                        args.push(Arg::Inferred(fits[self.r.below(fits.len())].0.clone()));
                    } else {
                        omitted = true;
                    }
                }
                3 | 4 => match self.gen_value(k, depth) {
                    Some(e) => {
                        let name = if is_ident(&seg) && (short_name(&import_names, &seg) == *n || self.r.chance(1, 8)) {
                            seg.clone()
                        } else if is_ident(n) {
                            n.clone()
                        } else {
                            args.push(Arg::Named(ArgName::Str(n.clone()), e));
                            continue;
                        };
                        args.push(Arg::Named(ArgName::Id(name), e));
                    }
                    None => omitted = true,
                },
                5 | 6 => match self.gen_value(k, depth) {
                    Some(e) => {
                        // the string form is exact: a short name does not select a path
                        let name = if seg != *n && self.r.chance(1, 25) { seg.clone() } else { n.clone() };
                        args.push(Arg::Named(ArgName::Str(name), e))
                    }
                    None => omitted = true,
                },
                7 => {
                    // through a spread of a local instance exporting this name at a fitting kind
                    let cands: Vec<String> = self
                        .locals
                        .iter()
                        .filter(|(_, v)| v.kind.exports().map_or(false, |es| lookup(es, n).map_or(false, |ek| ek.sub(k))))
                        .map(|(l, _)| l.clone())
                        .collect();
                    if !cands.is_empty() {
                        let c = cands[self.r.below(cands.len())].clone();
                        if !spreads.contains(&c) {
                            spreads.push(c);
                        }
                    } else {
                        omitted = true;
                    }
                }
                _ => omitted = true,
            }
        }
        // occasionally a spread of an arbitrary instance
        if self.r.chance(1, 25) {
            let insts: Vec<String> = self.locals.iter().filter(|(_, v)| v.kind.is_inst()).map(|(l, _)| l.clone()).collect();
            if !insts.is_empty() {
                spreads.push(insts[self.r.below(insts.len())].clone());
            }
        }
        // the spreads keep their relative order (it matters: they apply in order)
        let multi = spreads.len() >= 2;
        let mut at: Vec<usize> = spreads.iter().map(|_| self.r.below(args.len() + 1)).collect();
        at.sort();
        for (i, s) in spreads.into_iter().enumerate() {
            args.insert(at[i] + i, Arg::Spread(s));
        }
        if self.r.chance(1, if multi { 8 } else { 3 }) {
            self.r.shuffle(&mut args);
        }
        if (omitted && self.r.chance(29, 30)) || self.r.chance(1, 10) {
            args.push(Arg::Fill);
        }
        Expr::New(p.name.clone(), p.version.clone(), args)
    }

    fn gen_import(&mut self) {
        // an import whose kind some package wants
        let wanted: Vec<(String, Kind)> = self.lib.iter().flat_map(|p| p.imports.clone()).collect();
        let (n, k) = if !wanted.is_empty() && self.r.chance(5, 6) {
            wanted[self.r.below(wanted.len())].clone()
        } else {
            ("x".to_string(), Kind::Func(self.r.below(3)))
        };
        let seg = last_segment(&n);
        let mut default_name = None;
        let mut force_as = false;
        let (ty, kind) = match &k {
            Kind::Func(s) => (ImportTy::Func(*s), k.clone()),
            Kind::Inst(id, es) => {
                // by package path if a type package defines it
                let by_path = id.as_ref().filter(|id| id.matches('/').count() == 1).and_then(|id| {
                    let (pkg, ver, iface) = split_path(id);
                    self.lib.iter().find(|p| p.name == pkg && p.version == ver && lookup(&p.exports, &iface).map_or(false, |k| matches!(k, Kind::Type(..)))).map(|_| (pkg, ver, iface))
                });
                match by_path {
                    Some((pkg, ver, iface)) if self.r.chance(3, 4) => {
                        if !es.is_empty() && self.r.chance(1, 5) {
                            // a longer path projecting into the interface: `ns:pkg/iface/item`
                            // (the path string is not a valid extern name, so `as` is needed)
                            let (en, ek) = es[self.r.below(es.len())].clone();
                            force_as = true;
                            let item = if self.r.chance(1, 6) { "nope".to_string() } else { en };
                            (ImportTy::Path(pkg, ver, vec![iface, item]), ek)
                        } else {
                            default_name = id.clone();
                            (ImportTy::Path(pkg, ver, vec![iface]), k.clone())
                        }
                    }
                    _ => {
                        let fs: Vec<(String, usize)> = es.iter().filter_map(|(n, k)| if let Kind::Func(s) = k { Some((n.clone(), *s)) } else { None }).collect();
                        let kind = Kind::Inst(None, fs.iter().map(|(n, s)| (n.clone(), Kind::Func(*s))).collect());
                        (ImportTy::Iface(fs), kind)
                    }
                }
            }
            Kind::Type(..) | Kind::IfaceTy(..) => unreachable!(),
        };
        let id = self.fresh_local(Some(&seg));
        let mut as_ = match self.r.below(8) {
            0 | 1 if n.matches('/').count() <= 1 => Some(n.clone()),
            2 => Some((*self.r.pick(PLAIN)).to_string()),
            3 => Some("other-name".to_string()),
            _ => None,
        };
        if force_as && as_.is_none() {
            as_ = Some(format!("proj{}", self.import_names.len()));
        }
        let mut name = as_.clone().or(default_name.clone()).unwrap_or(id.clone());
        if self.import_names.contains(&name) && self.r.chance(9, 10) {
            as_ = Some(format!("alt{}", self.import_names.len()));
            name = as_.clone().unwrap();
        }
        self.import_names.push(name.clone());
        self.locals.push((id.clone(), Val { kind, ext: Some(name) }));
        self.stmts.push(Stmt::Import(id, as_, ty));
    }

    /// `interface id { … }`; the id sometimes collides with export names used by `export … as`
    fn gen_interface(&mut self) {
        let id = match self.r.below(6) {
            0 => ["out", "run", "res", "final", "a"][self.r.below(5)].to_string(),
            _ => format!("iface{}", self.stmts.len()),
        };
        let fs: Vec<(String, usize)> = match self.r.below(3) {
            0 => vec![("f".into(), 0)],
            1 => vec![("f".into(), 0), ("g".into(), 1)],
            _ => vec![("g".into(), 1)],
        };
        let kind = Kind::IfaceTy(Some(format!("{SELF}/{id}")), fs.iter().map(|(n, s)| (n.clone(), Kind::Func(*s))).collect());
        if !self.locals.iter().any(|(n, _)| *n == id) || self.r.chance(1, 10) {
            self.locals.push((id.clone(), Val { kind, ext: None }));
            self.export_names.push(id.clone());
            self.stmts.push(Stmt::Iface(id, fs));
        }
    }

    /// `import x [as n]: <local name>` — an interface declared above (or, rarely, any local)
    fn gen_import_ident(&mut self) {
        let decls: Vec<(String, Val)> = self.locals.iter().filter(|(_, v)| matches!(v.kind, Kind::IfaceTy(..))).cloned().collect();
        let (target, kind) = if !decls.is_empty() && self.r.chance(9, 10) {
            let (n, v) = decls[self.r.below(decls.len())].clone();
            match v.kind {
                Kind::IfaceTy(id, es) => (n, Kind::Inst(id, es)),
                _ => unreachable!(),
            }
        } else {
            // any other local, as long as every interface id inside its kind has the shape that
            // id has as an import elsewhere (imports of one interface id are merged by the encoder;
            // that merging is C03's subject, so the generator keeps one shape per interface id)
            let lib = self.lib;
            let others: Vec<(String, Val)> = self.locals.iter().filter(|(_, v)| matches!(v.kind, Kind::Func(_) | Kind::Inst(..)) && one_shape(lib, &v.kind)).cloned().collect();
            if others.is_empty() {
                return;
            }
            let (n, v) = others[self.r.below(others.len())].clone();
            (n, v.kind)
        };
        let id = self.fresh_local(None);
        let mut as_ = match self.r.below(4) {
            0 => Some((*self.r.pick(PLAIN)).to_string()),
            _ => None,
        };
        let default = match &kind {
            Kind::Inst(Some(iid), _) if self.locals.iter().any(|(n, v)| *n == target && !matches!(v.kind, Kind::IfaceTy(..))) => iid.clone(),
            _ => id.clone(),
        };
        let mut name = as_.clone().unwrap_or(default);
        if self.import_names.contains(&name) && self.r.chance(9, 10) {
            as_ = Some(format!("alt{}", self.import_names.len()));
            name = as_.clone().unwrap();
        }
        self.import_names.push(name.clone());
        self.locals.push((id.clone(), Val { kind, ext: Some(name) }));
        self.stmts.push(Stmt::Import(id, as_, ImportTy::Ident(target)));
    }

    fn gen_expr(&mut self) -> (Expr, Option<Val>) {
        match self.r.below(10) {
            0..=5 => {
                let comps: Vec<Package> = self.lib.iter().filter(|p| p.exports.is_empty() || !p.exports.iter().all(|(_, k)| matches!(k, Kind::Type(..)))).cloned().collect();
                let p = if comps.is_empty() || self.r.chance(1, 10) { self.lib[self.r.below(self.lib.len())].clone() } else { comps[self.r.below(comps.len())].clone() };
                let e = self.gen_new(&p, 0);
                let k = Kind::Inst(None, p.exports.clone());
                // maybe access an export directly
                if !p.exports.is_empty() && self.r.chance(1, 4) {
                    let (n, ek) = p.exports[self.r.below(p.exports.len())].clone();
                    let e = self.access_of(e, &p.exports, &n);
                    return (e, Some(Val { kind: ek, ext: Some(n) }));
                }
                (e, Some(Val { kind: k, ext: None }))
            }
            _ => {
                let paths = self.value_paths();
                if paths.is_empty() {
                    return (Expr::Ident("s".into()), None);
                }
                let (e, v) = paths[self.r.below(paths.len())].clone();
                if self.r.chance(1, 8) {
                    (Expr::Nested(Box::new(e)), Some(v))
                } else {
                    (e, Some(v))
                }
            }
        }
    }

    fn gen_export(&mut self, last: bool) {
        let (e, v) = self.gen_expr();
        let inferable = v.as_ref().and_then(|v| match &v.kind {
            Kind::Inst(Some(id), _) => Some(id.clone()),
            _ => v.ext.clone(),
        });
        let is_inst = v.as_ref().map_or(false, |v| v.kind.is_inst());
        let mut opt = match self.r.below(6) {
            0 | 1 if inferable.is_some() || self.r.chance(1, 12) => ExportOpt::None,
            4 | 5 if is_inst || self.r.chance(1, 12) => ExportOpt::Spread,
            _ => ExportOpt::As(if last { "final".to_string() } else { ["out", "run", "a", "x:y/out", "foo:bar/baz", "res"][self.r.below(6)].to_string() }),
        };
        // avoid most duplicate export names
        let name = match &opt {
            ExportOpt::None => inferable.clone(),
            ExportOpt::As(n) => Some(n.clone()),
            ExportOpt::Spread => None,
        };
        if let Some(n) = &name {
            if self.export_names.contains(n) && self.r.chance(9, 10) {
                opt = ExportOpt::As(format!("out{}", self.export_names.len()));
            }
        }
        match &opt {
            ExportOpt::None => self.export_names.extend(inferable),
            ExportOpt::As(n) => self.export_names.push(n.clone()),
            ExportOpt::Spread => {
                if let Some(Val { kind: Kind::Inst(_, es), .. }) = &v {
                    for (n, _) in es {
                        if !self.export_names.contains(n) {
                            self.export_names.push(n.clone());
                        }
                    }
                }
            }
        }
        self.stmts.push(Stmt::Export(e, opt));
    }

    fn gen_program(&mut self) {
        let nimports = self.r.below(4);
        for _ in 0..nimports {
            self.gen_import();
        }
        let n = 1 + self.r.below(6);
        for _ in 0..n {
            match self.r.below(12) {
                10 => self.gen_interface(),
                11 => self.gen_import_ident(),
                0 => self.gen_import(),
                1..=6 => {
                    let (e, v) = self.gen_expr();
                    let id = self.fresh_local(None);
                    if let Some(v) = v {
                        self.locals.push((id.clone(), v));
                    }
                    self.stmts.push(Stmt::Let(id, e));
                }
                _ => self.gen_export(false),
            }
        }
        // most programs end by exporting something
        if self.r.chance(2, 3) {
            self.gen_export(true);
        }
    }
}

// ------------------------------------------------------------------------------------------
// single-fault variants

fn for_each_expr(e: &mut Expr, f: &mut dyn FnMut(&mut Expr)) {
    f(e);
    match e {
        Expr::Ident(_) => {}
        Expr::New(_, _, args) => {
            for a in args {
                if let Arg::Named(_, e) = a {
                    for_each_expr(e, f);
                }
            }
        }
        Expr::Nested(e) | Expr::Access(e, _) | Expr::NamedAccess(e, _) => for_each_expr(e, f),
    }
}

fn for_each_stmt_expr(p: &mut Program, f: &mut dyn FnMut(&mut Expr)) {
    for s in &mut p.stmts {
        match s {
            Stmt::Import(..) | Stmt::Iface(..) => {}
            Stmt::Let(_, e) | Stmt::Export(e, _) => for_each_expr(e, f),
        }
    }
}

fn count_exprs(p: &mut Program, pred: &dyn Fn(&Expr) -> bool) -> usize {
    let mut n = 0;
    for_each_stmt_expr(p, &mut |e| {
        if pred(e) {
            n += 1
        }
    });
    n
}

/// apply `m` to the `k`-th expression satisfying `pred`
fn mutate_nth(p: &mut Program, pred: &dyn Fn(&Expr) -> bool, k: usize, m: &mut dyn FnMut(&mut Expr)) {
    let mut i = 0;
    let mut done = false;
    for_each_stmt_expr(p, &mut |e| {
        if !done && pred(e) {
            if i == k {
                m(e);
                done = true;
            }
            i += 1;
        }
    });
}

fn fault(r: &mut Rng, base: &Program, lib: &[Package]) -> Option<(Program, &'static str)> {
    let mut p = base.clone();
    let is_new = |e: &Expr| matches!(e, Expr::New(..));
    let is_ident_e = |e: &Expr| matches!(e, Expr::Ident(_));
    let any = |_: &Expr| true;
    let nnew = count_exprs(&mut p, &is_new);
    let nid = count_exprs(&mut p, &is_ident_e);
    let nany = count_exprs(&mut p, &any);
    let which = r.below(16);
    let tag: &'static str = match which {
        0 if nid > 0 => {
            let k = r.below(nid);
            mutate_nth(&mut p, &is_ident_e, k, &mut |e| *e = Expr::Ident("nope".into()));
            "undefined-name"
        }
        1 => {
            // duplicate local name
            let names: Vec<String> = p.stmts.iter().filter_map(|s| match s {
                Stmt::Import(id, ..) | Stmt::Let(id, _) => Some(id.clone()),
                _ => None,
            }).collect();
            if names.len() < 2 {
                return None;
            }
            let i = 1 + r.below(names.len() - 1);
            let target = names[r.below(i)].clone();
            let mut seen = 0;
            for s in &mut p.stmts {
                match s {
                    Stmt::Import(id, ..) | Stmt::Let(id, _) => {
                        if seen == i {
                            *id = target.clone();
                        }
                        seen += 1;
                    }
                    _ => {}
                }
            }
            "duplicate-name"
        }
        2 if nnew > 0 => {
            let k = r.below(nnew);
            let mut ok = false;
            let rr = r.next() as usize;
            mutate_nth(&mut p, &is_new, k, &mut |e| {
                if let Expr::New(_, _, args) = e {
                    let idx: Vec<usize> = args.iter().enumerate().filter(|(_, a)| !matches!(a, Arg::Fill)).map(|(i, _)| i).collect();
                    if !idx.is_empty() {
                        args.remove(idx[rr % idx.len()]);
                        args.retain(|a| !matches!(a, Arg::Fill));
                        ok = true;
                    }
                }
            });
            if !ok {
                return None;
            }
            "missing-arg"
        }
        3 if nnew > 0 => {
            let k = r.below(nnew);
            let mut ok = false;
            let rr = r.next() as usize;
            mutate_nth(&mut p, &is_new, k, &mut |e| {
                if let Expr::New(_, _, args) = e {
                    let idx: Vec<usize> = args.iter().enumerate().filter(|(_, a)| matches!(a, Arg::Inferred(_) | Arg::Named(..))).map(|(i, _)| i).collect();
                    if !idx.is_empty() {
                        let a = args[idx[rr % idx.len()]].clone();
                        let at = rr / 7 % (args.len() + 1);
                        let at = if matches!(args.last(), Some(Arg::Fill)) { at.min(args.len() - 1) } else { at };
                        args.insert(at, a);
                        ok = true;
                    }
                }
            });
            if !ok {
                return None;
            }
            "duplicate-arg"
        }
        4 if nnew > 0 => {
            let k = r.below(nnew);
            let mut ok = false;
            mutate_nth(&mut p, &is_new, k, &mut |e| {
                if let Expr::New(_, _, args) = e {
                    if !args.is_empty() {
                        args.retain(|a| !matches!(a, Arg::Fill));
                        args.insert(0, Arg::Fill);
                        ok = args.len() > 1;
                    }
                }
            });
            if !ok {
                return None;
            }
            "fill-not-last"
        }
        5 if nnew > 0 => {
            // spread of something (maybe not an instance, maybe without a match)
            let locals: Vec<String> = p.stmts.iter().filter_map(|s| match s {
                Stmt::Import(id, ..) | Stmt::Let(id, _) => Some(id.clone()),
                _ => None,
            }).collect();
            if locals.is_empty() {
                return None;
            }
            let l = locals[r.below(locals.len())].clone();
            let k = r.below(nnew);
            mutate_nth(&mut p, &is_new, k, &mut |e| {
                if let Expr::New(_, _, args) = e {
                    args.insert(0, Arg::Spread(l.clone()));
                }
            });
            "extra-spread"
        }
        6 if nany > 0 => {
            let k = r.below(nany);
            let name = ["f", "zzz", "baz", "g"][r.below(4)].to_string();
            mutate_nth(&mut p, &any, k, &mut |e| {
                let inner = std::mem::replace(e, Expr::Ident(String::new()));
                *e = Expr::Access(Box::new(inner), name.clone());
            });
            "extra-access"
        }
        7 => {
            let exports: Vec<usize> = p.stmts.iter().enumerate().filter(|(_, s)| matches!(s, Stmt::Export(..))).map(|(i, _)| i).collect();
            if exports.is_empty() {
                return None;
            }
            let i = exports[r.below(exports.len())];
            let s = p.stmts[i].clone();
            p.stmts.push(s);
            "duplicate-export"
        }
        8 if nnew > 0 => {
            let k = r.below(nnew);
            let choice = r.below(3);
            mutate_nth(&mut p, &is_new, k, &mut |e| {
                if let Expr::New(pkg, ver, _) = e {
                    match choice {
                        0 => *pkg = "no:such".into(),
                        1 => *pkg = SELF.into(),
                        _ => *ver = Some("9.9.9".into()),
                    }
                }
            });
            "unknown-package"
        }
        9 if nnew > 0 => {
            let k = r.below(nnew);
            let locals: Vec<String> = p.stmts.iter().filter_map(|s| match s {
                Stmt::Import(id, ..) => Some(id.clone()),
                _ => None,
            }).collect();
            if locals.is_empty() {
                return None;
            }
            let l = locals[r.below(locals.len())].clone();
            let form = r.chance(1, 2);
            mutate_nth(&mut p, &is_new, k, &mut |e| {
                if let Expr::New(_, _, args) = e {
                    let name = if form { ArgName::Id("zzz".into()) } else { ArgName::Str("zzz".into()) };
                    args.insert(0, Arg::Named(name, Expr::Ident(l.clone())));
                }
            });
            "unknown-arg"
        }
        10 => {
            // a spread export of something
            let locals: Vec<String> = p.stmts.iter().filter_map(|s| match s {
                Stmt::Import(id, ..) | Stmt::Let(id, _) => Some(id.clone()),
                _ => None,
            }).collect();
            if locals.is_empty() {
                return None;
            }
            let l = locals[r.below(locals.len())].clone();
            p.stmts.push(Stmt::Export(Expr::Ident(l.clone()), ExportOpt::Spread));
            if r.chance(1, 2) {
                p.stmts.push(Stmt::Export(Expr::Ident(l), ExportOpt::Spread));
            }
            "spread-export"
        }
        11 if nnew > 0 => {
            // an argument of the wrong kind
            let imports: Vec<String> = p.stmts.iter().filter_map(|s| match s {
                Stmt::Import(id, ..) | Stmt::Let(id, _) => Some(id.clone()),
                _ => None,
            }).collect();
            if imports.is_empty() {
                return None;
            }
            let l = imports[r.below(imports.len())].clone();
            let k = r.below(nnew);
            let rr = r.next() as usize;
            let mut ok = false;
            mutate_nth(&mut p, &is_new, k, &mut |e| {
                if let Expr::New(pkg, ver, args) = e {
                    if let Some(pk) = lib.iter().find(|q| q.name == *pkg && q.version == *ver) {
                        if !pk.imports.is_empty() {
                            let (n, _) = &pk.imports[rr % pk.imports.len()];
                            args.retain(|a| match a {
                                Arg::Named(ArgName::Str(m), _) => m != n,
                                _ => true,
                            });
                            args.insert(0, Arg::Named(ArgName::Str(n.clone()), Expr::Ident(l.clone())));
                            ok = true;
                        }
                    }
                }
            });
            if !ok {
                return None;
            }
            "replaced-arg"
        }
        12 => {
            // an import that clashes with an implicit or explicit import name
            let names: Vec<String> = lib.iter().flat_map(|p| p.imports.iter().filter(|(n, _)| n.matches('/').count() <= 1).map(|(n, _)| n.clone())).collect();
            if names.is_empty() {
                return None;
            }
            let n = names[r.below(names.len())].clone();
            let at = r.below(p.stmts.len() + 1);
            p.stmts.insert(at, Stmt::Import(format!("extra{at}"), Some(n), ImportTy::Func(0)));
            "import-clash"
        }
        13 => {
            let names: Vec<(String, Option<String>, String)> = lib.iter().flat_map(|p| p.exports.iter().filter(|(n, _)| is_ident(n)).map(move |(n, _)| (p.name.clone(), p.version.clone(), n.clone()))).collect();
            if names.is_empty() {
                return None;
            }
            let (pkg, ver, n) = names[r.below(names.len())].clone();
            let seg = if r.chance(1, 4) { "nope".to_string() } else { n };
            let at = r.below(p.stmts.len() + 1);
            p.stmts.insert(at, Stmt::Import(format!("extra{at}"), None, ImportTy::Path(pkg, ver, vec![seg])));
            "path-import"
        }
        14 => {
            // a declaration taking the name of an earlier export
            let names: Vec<String> = p.stmts.iter().filter_map(|s| match s {
                Stmt::Export(_, ExportOpt::As(n)) if is_ident(n) => Some(n.clone()),
                _ => None,
            }).collect();
            if names.is_empty() {
                return None;
            }
            let n = names[r.below(names.len())].clone();
            p.stmts.push(Stmt::Iface(n, vec![("f".into(), 0)]));
            "declaration-conflict"
        }
        15 => {
            // an export taking the name of a declaration (or of a local name bound to one)
            let decls: Vec<String> = p.stmts.iter().filter_map(|s| match s {
                Stmt::Iface(id, _) => Some(id.clone()),
                _ => None,
            }).collect();
            let locals: Vec<String> = p.stmts.iter().filter_map(|s| match s {
                Stmt::Import(id, ..) => Some(id.clone()),
                _ => None,
            }).collect();
            if locals.is_empty() {
                return None;
            }
            let l = locals[r.below(locals.len())].clone();
            let name = if decls.is_empty() {
                p.stmts.insert(0, Stmt::Iface("decl".into(), vec![("g".into(), 1)]));
                "decl".to_string()
            } else {
                decls[r.below(decls.len())].clone()
            };
            if r.chance(1, 3) {
                // through an alias of the declaration
                p.stmts.push(Stmt::Let("alias-of-decl".into(), Expr::Ident(name)));
                p.stmts.push(Stmt::Export(Expr::Ident(l), ExportOpt::As("alias-of-decl".into())));
            } else {
                p.stmts.push(Stmt::Export(Expr::Ident(l), ExportOpt::As(name)));
            }
            "export-conflict"
        }
        _ => return None,
    };
    Some((p, tag))
}

// ------------------------------------------------------------------------------------------
// running the real code

fn op_name(op: &InstanceOperation) -> &'static str {
    match op {
        InstanceOperation::Access => "access",
        InstanceOperation::Spread => "spread",
    }
}

fn render_error(e: &Error) -> String {
    match e {
        Error::UndefinedName { name, .. } => format!("UndefinedName {name}"),
        Error::DuplicateName { name, .. } => format!("DuplicateName {name}"),
        Error::UnknownPackage { name, .. } => format!("UnknownPackage {name}"),
        Error::PackageMissingExport { package, export, .. } => format!("PackageMissingExport {package} {export}"),
        Error::DuplicateExternName { name, kind, .. } => format!("DuplicateExternName {} {name}", if *kind == ExternKind::Import { "import" } else { "export" }),
        Error::DuplicateInstantiationArg { name, .. } => format!("DuplicateInstantiationArg {name}"),
        Error::FillArgumentNotLast { .. } => "FillArgumentNotLast".into(),
        Error::NotAnInstance { operation, .. } => format!("NotAnInstance {}", op_name(operation)),
        Error::SpreadInstantiationNoMatch { .. } => "SpreadInstantiationNoMatch".into(),
        Error::MissingComponentImport { import, .. } => format!("MissingComponentImport {import}"),
        Error::MismatchedInstantiationArg { name, .. } => format!("MismatchedInstantiationArg {name}"),
        Error::MissingInstantiationArg { name, .. } => format!("MissingInstantiationArg {name}"),
        Error::MissingInstanceExport { name, .. } => format!("MissingInstanceExport {name}"),
        Error::ExportRequiresAs { .. } => "ExportRequiresAs".into(),
        Error::SpreadExportNoEffect { .. } => "SpreadExportNoEffect".into(),
        Error::ImportConflict { name, .. } => format!("ImportConflict {name}"),
        Error::InstantiationArgMergeFailure { name, .. } => format!("InstantiationArgMergeFailure {name}"),
        Error::ExportConflict { name, .. } => format!("ExportConflict {name}"),
        Error::DeclarationConflict { name, .. } => format!("DeclarationConflict {name}"),
        Error::InvalidExternName { name, .. } => format!("InvalidExternName {name}"),
        Error::ValidationFailure { source } => format!("ValidationFailure {source}"),
        other => {
            let s = format!("{other:?}");
            format!("Other {}", s.split([' ', '{', '(']).next().unwrap_or(""))
        }
    }
}

enum Obs {
    /// the observation to compare
    Line(String),
    /// decided by the harness itself: (signature, detail)
    Fail(String, String),
}

fn observe(text: &str, lib: &Lib, define_components: bool) -> Obs {
    let doc = match Document::parse(text) {
        Ok(d) => d,
        Err(e) => return Obs::Fail("generated program does not parse (harness bug)".into(), format!("{e:?}")),
    };
    let versions: Vec<Option<semver::Version>> = lib.pkgs.iter().map(|p| p.version.as_ref().map(|v| semver::Version::parse(v).unwrap())).collect();
    let mut packages: IndexMap<BorrowedPackageKey, Vec<u8>> = IndexMap::new();
    for (i, p) in lib.pkgs.iter().enumerate() {
        packages.insert(BorrowedPackageKey::from_name_and_version(&p.name, versions[i].as_ref()), lib.bytes[i].1.clone());
    }
    let resolution = match doc.resolve(packages) {
        Ok(r) => r,
        Err(e) => return Obs::Line(format!("err {}", render_error(&e))),
    };
    let bytes = match resolution.encode(wac_graph::EncodeOptions { define_components, validate: true, processor: None }) {
        Ok(b) => b,
        Err(e @ Error::ValidationFailure { .. }) => return Obs::Fail("encode: output fails validation".into(), render_error(&e)),
        Err(e) => return Obs::Line(format!("err {}", render_error(&e))),
    };
    match read_wiring(&bytes, &lib.bytes) {
        Ok(w) => {
            if !w.notes.is_empty() {
                return Obs::Fail("wiring reader: unexpected content".into(), w.notes.join("; "));
            }
            Obs::Line(format!("ok {}", w.render()))
        }
        Err(e) => Obs::Fail("wiring reader failed".into(), e),
    }
}

fn nontrivial(p: &Program) -> bool {
    let mut q = p.clone();
    count_exprs(&mut q, &|e| matches!(e, Expr::New(..))) > 0 && p.stmts.len() >= 2
}

fn emit(out: &mut Out, lib: &Lib, prog: &Program, define: bool, string_as: bool, tag: &str) {
    let text = prog.print(string_as);
    let mut fields = vec![esc(&text), esc(&prog.self_name)];
    let mut toks = vec!["L".to_string(), lib.pkgs.len().to_string()];
    for p in &lib.pkgs {
        p.tokens(&mut toks);
    }
    prog.tokens(&mut toks);
    fields.extend(toks.iter().map(|t| esc(t)));
    let t2 = text.clone();
    let obs = match guarded(std::panic::AssertUnwindSafe(|| observe(&t2, lib, define))) {
        Ok(o) => o,
        Err(msg) => Obs::Fail("panic in parse/resolve/encode".into(), msg),
    };
    match obs {
        Obs::Line(line) => {
            let head = line.split(' ').take(2).collect::<Vec<_>>().join(" ");
            out.count(&format!("obs:{}", if line.starts_with("ok") { "ok".to_string() } else { head.clone() }));
            out.count(&format!("variant:{tag}"));
            let mut q = prog.clone();
            if tag == "generated" && count_exprs(&mut q, &|e| matches!(e, Expr::New(_, _, args) if args.iter().filter(|a| matches!(a, Arg::Spread(_))).count() >= 2)) > 0 {
                out.count(&format!("multi-spread:{}", if line.starts_with("ok") { "ok".to_string() } else { head.clone() }));
                if std::env::var_os("WACV_DEBUG").is_some() {
                    eprintln!("MULTI-SPREAD {line}\n{text}");
                }
            }
            fields.push(esc(&line));
            out.case(nontrivial(prog), "prog", &fields);
        }
        Obs::Fail(sig, detail) => {
            fields.push(esc("fail"));
            let id = out.case(nontrivial(prog), "prog-failed", &fields[..2].to_vec());
            out.fail(&id, &sig, &format!("{detail}\n{text}"));
        }
    }
}

fn stats_of(out: &mut Out, p: &Program) {
    let mut q = p.clone();
    for_each_stmt_expr(&mut q, &mut |e| match e {
        Expr::New(_, _, args) => {
            out.count("expr:new");
            for a in args.iter() {
                out.count(match a {
                    Arg::Inferred(_) => "arg:inferred",
                    Arg::Named(ArgName::Id(_), _) => "arg:named-id",
                    Arg::Named(ArgName::Str(_), _) => "arg:named-string",
                    Arg::Spread(_) => "arg:spread",
                    Arg::Fill => "arg:fill",
                });
                if let Arg::Named(_, Expr::New(..)) = a {
                    out.count("expr:nested-new");
                }
            }
        }
        Expr::Access(..) => out.count("expr:access"),
        Expr::NamedAccess(..) => out.count("expr:named-access"),
        Expr::Nested(_) => out.count("expr:paren"),
        Expr::Ident(_) => {}
    });
    for s in &p.stmts {
        out.count(match s {
            Stmt::Import(_, None, ImportTy::Ident(_)) => "stmt:import-ident",
            Stmt::Import(_, Some(_), ImportTy::Ident(_)) => "stmt:import-ident-as",
            Stmt::Import(_, None, ImportTy::Path(..)) => "stmt:import-path",
            Stmt::Import(_, Some(_), ImportTy::Path(..)) => "stmt:import-path-as",
            Stmt::Import(_, None, _) => "stmt:import-inline",
            Stmt::Import(_, Some(_), _) => "stmt:import-inline-as",
            Stmt::Iface(..) => "stmt:interface",
            Stmt::Let(..) => "stmt:let",
            Stmt::Export(_, ExportOpt::None) => "stmt:export",
            Stmt::Export(_, ExportOpt::As(_)) => "stmt:export-as",
            Stmt::Export(_, ExportOpt::Spread) => "stmt:export-spread",
        });
    }
}

fn replay(path: &str, out: &mut Out) {
    let text = std::fs::read_to_string(path).expect("read replay file");
    for line in text.lines() {
        let Some(rest) = line.strip_prefix("CASE\t") else { continue };
        let parts: Vec<&str> = rest.split('\t').collect();
        // <id> <N|T> prog <text> <self> L ... P ... <obs>
        if parts.len() < 6 || parts[2] != "prog" {
            continue;
        }
        let un: Vec<String> = parts[4..parts.len() - 1].iter().map(|s| unesc(s)).collect();
        let self_name = un[0].clone();
        let mut t = Toks { v: &un[1..], i: 0 };
        let Some(pkgs) = t.lib() else { continue };
        let Some(prog) = t.program(&self_name) else { continue };
        match realise_lib(pkgs) {
            Ok(lib) => {
                emit(out, &lib, &prog, true, false, "replay");
                emit(out, &lib, &prog, false, true, "replay");
            }
            Err(e) => {
                let id = out.case(false, "prog-failed", &[]);
                out.fail(&id, "replay: library cannot be realised", &e);
            }
        }
    }
}

fn unesc(s: &str) -> String {
    let mut out = String::new();
    let mut cs = s.chars();
    while let Some(c) = cs.next() {
        if c == '\\' {
            let hex: String = cs.by_ref().take_while(|c| *c != ';').collect();
            if hex != "e" {
                if let Some(ch) = u32::from_str_radix(&hex, 16).ok().and_then(char::from_u32) {
                    out.push(ch);
                }
            }
        } else {
            out.push(c);
        }
    }
    out
}

fn main() {
    let args = Args::parse();
    quiet_panics();
    let shard = args.num("shard", 0);
    let nshards = args.num("nshards", 1).max(1);
    let mut out = Out::create(&args.out, &format!("c04-{shard}-"));
    if let Some(path) = &args.replay {
        replay(path, &mut out);
        out.finish();
        return;
    }
    let mut r = Rng::new(args.seed.wrapping_mul(1000).wrapping_add(shard as u64));
    let total = args.num("programs", if args.thorough() { 40_000 } else { 900 });
    let n = total / nshards;
    let mut produced = 0;
    while produced < n {
        let pkgs = gen_lib(&mut r);
        let lib = match realise_lib(pkgs) {
            Ok(l) => l,
            Err(e) => {
                let id = out.case(false, "prog-failed", &[]);
                out.fail(&id, "library cannot be realised (harness bug)", &e);
                produced += 1;
                continue;
            }
        };
        // several programs per library
        for _ in 0..(3 + r.below(4)) {
            let mut g = Gen { r: &mut r, lib: &lib.pkgs, locals: Vec::new(), stmts: Vec::new(), import_names: Vec::new(), export_names: Vec::new(), count: Vec::new() };
            g.gen_program();
            for c in std::mem::take(&mut g.count) {
                out.count(c);
            }
            let prog = Program { self_name: SELF.to_string(), stmts: g.stmts };
            let define = r.chance(2, 3);
            let string_as = r.chance(1, 3);
            stats_of(&mut out, &prog);
            emit(&mut out, &lib, &prog, define, string_as, "generated");
            produced += 1;
            // single-fault variants
            for _ in 0..2 {
                if let Some((fp, tag)) = fault(&mut r, &prog, &lib.pkgs) {
                    emit(&mut out, &lib, &fp, define, string_as, tag);
                    produced += 1;
                }
            }
        }
    }
    out.finish();
}
