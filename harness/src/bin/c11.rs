//! C11: generated (target world, composition) pairs — conforming and perturbed by one extra
//! import / one missing export / one type change, with `use`d interfaces, resources and
//! versioned names.  Observations: the verdict of `Document::resolve` for a WAC document with a
//! `targets` clause, the composition graph's imports/exports (from the same document without the
//! clause), `wac_types::validate_target` on (world package, encoded output), and wasmparser's
//! component subtyping as oracle (resource-free cases).
//!
//! case `tgt`: see lean/Driver/C11.lean
#[path = "../tree.rs"]
mod tree;

use indexmap::IndexMap;
use tree::*;
use wac_graph::EncodeOptions;
use wac_parser::{resolution::Error as RErr, Document};
use wac_types::{BorrowedPackageKey, ExternKind, ItemKind, Package, Type, Types};
use wacv::*;

#[derive(Clone, Debug)]
struct Spec {
    version: Option<&'static str>,
    resource: bool,
    explicit_types: bool,
    api_g: bool,
    log_ty: &'static str,
    run_ret: &'static str,
    api_f_param: &'static str,
    out_h_ret: &'static str,
    /// the world also has `export inl: interface { q: func(); }` (an instance export under a plain name)
    inl: bool,
    /// the world has a world-level `use <iface>.{r};` (imports the interface and the *type* `r`)
    world_use: Option<&'static str>,
}

impl Spec {
    fn pkg_decl(&self) -> String {
        match self.version {
            Some(v) => format!("package t:w@{v};\n"),
            None => "package t:w;\n".to_string(),
        }
    }
    fn iface_ref(&self, name: &str) -> String {
        match self.version {
            Some(v) => format!("t:w/{name}@{v}"),
            None => format!("t:w/{name}"),
        }
    }
    /// interfaces of package `t:w` (+ the target world when `with_world`)
    fn package_text(&self, with_world: bool) -> String {
        let mut s = self.pkg_decl();
        s.push_str("interface types {\n  record r { a: u8 }\n");
        if self.resource {
            s.push_str("  resource res;\n");
        }
        s.push_str("}\n");
        s.push_str("interface api {\n  use types.{r};\n");
        if self.resource {
            s.push_str("  use types.{res};\n  k: func(x: borrow<res>);\n");
        }
        s.push_str(&format!("  f: func(x: {}) -> u32;\n", self.api_f_param));
        if self.api_g {
            s.push_str("  g: func();\n");
        }
        s.push_str("}\n");
        s.push_str(&format!("interface out {{\n  h: func() -> {};\n}}\n", self.out_h_ret));
        s.push_str("interface other {\n  o: func();\n}\n");
        s.push_str("interface alt {\n  record r { b: u16 }\n}\n");
        if with_world {
            s.push_str("world w {\n");
            if let Some(i) = self.world_use {
                s.push_str(&format!("  use {i}.{{r}};\n"));
            }
            s.push_str("  import api;\n");
            if self.explicit_types {
                s.push_str("  import types;\n");
            }
            s.push_str(&format!("  import log: func(msg: {});\n", self.log_ty));
            s.push_str("  export out;\n");
            s.push_str(&format!("  export run: func(){};\n", ret(self.run_ret)));
            if self.inl {
                s.push_str("  export inl: interface {\n    q: func();\n  }\n");
            }
            s.push_str("}\n");
        }
        s
    }
}

fn ret(t: &str) -> String {
    if t.is_empty() {
        String::new()
    } else {
        format!(" -> {t}")
    }
}

/// the component's own world (package `t:c`), referring to the interfaces of its `t:w` dependency
fn component_world(dep: &Spec, imports: &[&str], exports: &[&str], log_ty: &str, run_ret: &str) -> String {
    let mut s = "package t:c;\nworld c {\n".to_string();
    for i in imports {
        match *i {
            "api" | "types" | "other" => s.push_str(&format!("  import {};\n", dep.iface_ref(i))),
            "log" => s.push_str(&format!("  import log: func(msg: {log_ty});\n")),
            "extra" => s.push_str("  import extra: func();\n"),
            // a world-level `use`: the component imports the interface and the type `r` (kept
            // alive by an exported function)
            "use-r" => s.push_str(&format!("  use {}.{{r}};\n  export conv: func(x: r);\n", dep.iface_ref("types"))),
            "use-alt-r" => s.push_str(&format!("  use {}.{{r}};\n  export conv: func(x: r);\n", dep.iface_ref("alt"))),
            _ => {}
        }
    }
    for e in exports {
        match *e {
            "out" => s.push_str(&format!("  export {};\n", dep.iface_ref("out"))),
            "run" => s.push_str(&format!("  export run: func(){};\n", ret(run_ret))),
            "bonus" => s.push_str("  export bonus: func();\n"),
            "inl" => s.push_str("  export inl: interface {\n    q: func();\n  }\n"),
            "inl-wide" => s.push_str("  export inl: interface {\n    q: func();\n    z: func();\n  }\n"),
            "inl-func" => s.push_str("  export inl: func();\n"),
            _ => {}
        }
    }
    s.push_str("}\n");
    s
}

fn build_component(dep_text: &str, world_text: &str) -> anyhow::Result<Vec<u8>> {
    let mut resolve = wit_parser::Resolve::default();
    resolve.push_str("dep.wit", dep_text)?;
    let pkg = resolve.push_str("c.wit", world_text)?;
    let world = resolve.select_world(&[pkg], None)?;
    let mut module =
        wit_component::dummy_module(&resolve, world, wit_parser::ManglingAndAbi::Legacy(wit_parser::LiftLowerAbi::Sync));
    wit_component::embed_component_metadata(&mut module, &resolve, world, wit_component::StringEncoding::default())?;
    let mut encoder = wit_component::ComponentEncoder::default().validate(true).module(&module)?;
    encoder.encode()
}

fn version(v: Option<&str>) -> Option<semver::Version> {
    v.map(|v| semver::Version::parse(v).unwrap())
}

fn resolve_verdict(source: &str, wit: &[u8], wver: &Option<semver::Version>, comp: &[u8]) -> (Vec<String>, Option<Vec<u8>>) {
    let doc = match Document::parse(source) {
        Ok(d) => d,
        Err(e) => return (vec!["other".into(), esc(&format!("parse: {e}"))], None),
    };
    let mut packages: IndexMap<BorrowedPackageKey, Vec<u8>> = IndexMap::new();
    packages.insert(BorrowedPackageKey::from_name_and_version("t:w", wver.as_ref()), wit.to_vec());
    packages.insert(BorrowedPackageKey::from_name_and_version("t:c", None), comp.to_vec());
    let resolved = match guarded(std::panic::AssertUnwindSafe(|| {
        doc.resolve(packages).map(|res| res.encode(EncodeOptions { define_components: true, validate: true, ..Default::default() }).ok())
    })) {
        Ok(r) => r,
        Err(p) => return (vec!["other".into(), esc(&format!("panic: {p}"))], None),
    };
    match resolved {
        Ok(bytes) => (vec!["ok".into()], bytes),
        Err(RErr::ImportNotInTarget { name, .. }) => (vec!["import".into(), esc(&name)], None),
        Err(RErr::MissingTargetExport { name, kind, .. }) => (vec!["missing".into(), esc(&name), esc(&kind)], None),
        Err(RErr::TargetMismatch { kind, name, source, .. }) => (
            vec![
                "mismatch".into(),
                match kind {
                    ExternKind::Import => "import".into(),
                    ExternKind::Export => "export".into(),
                },
                esc(&name),
                esc(&format!("{source:#}")),
            ],
            None,
        ),
        Err(e) => (vec!["other".into(), esc(&format!("{e}"))], None),
    }
}

#[allow(clippy::too_many_arguments)]
fn one_case(out: &mut Out, label: &str, target: &Spec, dep: &Spec, imports: &[&str], exports: &[&str], log_ty: &str, run_ret: &str, explicit_log: bool, inline: bool, decls: &[&str]) {
    let wit_text = target.package_text(true);
    let wit_bytes = match wit_bytes(&[("w", &wit_text)]) {
        Ok(b) => b,
        Err(e) => {
            out.count("gen:wit-rejected");
            if std::env::var("WACV_DEBUG").is_ok() {
                eprintln!("{e:#}\n{wit_text}");
            }
            return;
        }
    };
    let comp_text = component_world(dep, imports, exports, log_ty, run_ret);
    let comp = match build_component(&dep.package_text(false), &comp_text) {
        Ok(b) => b,
        Err(e) => {
            out.count("gen:component-rejected");
            if std::env::var("WACV_DEBUG").is_ok() {
                eprintln!("{e:#}\n{comp_text}");
            }
            return;
        }
    };
    let wver = version(target.version);
    let target_path = if inline {
        "x:y/w".to_string()
    } else {
        match target.version {
            Some(v) => format!("t:w/w@{v}"),
            None => "t:w/w".to_string(),
        }
    };
    // the target world written in the WAC document itself: `import t:w/api` is *not* expanded
    // with the interfaces it uses, and function / interface items are type items (`promote`)
    let inline_world = if inline {
        let vr = |n: &str| match target.version {
            Some(v) => format!("t:w/{n}@{v}"),
            None => format!("t:w/{n}"),
        };
        let mut w = "world w {\n".to_string();
        if let Some(i) = target.world_use {
            w.push_str(&format!("  use {}.{{r}};\n", vr(i)));
        }
        w.push_str(&format!("  import {};\n", vr("api")));
        if target.explicit_types {
            w.push_str(&format!("  import {};\n", vr("types")));
        }
        w.push_str(&format!("  import log: func(msg: {});\n", target.log_ty));
        w.push_str(&format!("  export {};\n", vr("out")));
        w.push_str(&format!("  export run: func(){};\n", ret(target.run_ret)));
        if target.inl {
            w.push_str("  export inl: interface {\n    q: func();\n  };\n");
        }
        w.push_str("}\n");
        w
    } else {
        String::new()
    };
    // declarations of the document itself: each is exported from the composition as a *type*
    // under its name (kind confusion with a world export / import of the same name), and an
    // import of a type where the world imports a function
    let mut decl_text = String::new();
    let mut import_text = String::new();
    for d in decls {
        match *d {
            "iface-inl" => decl_text.push_str("interface inl {\n  q: func();\n}\n"),
            "iface-inl-wide" => decl_text.push_str("interface inl {\n  q: func();\n  z: func();\n}\n"),
            "iface-inl-other" => decl_text.push_str("interface inl {\n  q: func(x: u32);\n}\n"),
            "type-run" => decl_text.push_str(&format!("type run = func(){};\n", ret(run_ret))),
            "type-inl-func" => decl_text.push_str("type inl = func();\n"),
            "iface-run" => decl_text.push_str("interface run {\n  q: func();\n}\n"),
            "record-log" => {
                decl_text.push_str("record logrec {\n  a: u8,\n}\n");
                import_text.push_str("import log: logrec;\n");
            }
            _ => {}
        }
    }
    let body = if explicit_log && imports.contains(&"log") && import_text.is_empty() {
        format!("{inline_world}{decl_text}import log: func(msg: {log_ty});\nlet c = new t:c {{ log, ... }};\nexport c...;\n")
    } else {
        format!("{inline_world}{decl_text}{import_text}let c = new t:c {{ ... }};\nexport c...;\n")
    };
    let with_targets = format!("package x:y targets {target_path};\n{body}");
    let without = format!("package x:y;\n{body}");

    let (rv, bytes_ok) = resolve_verdict(&with_targets, &wit_bytes, &wver, &comp);
    out.count(&format!("resolve:{}", rv[0]));

    // the composition graph of the same document without the clause
    let doc = match Document::parse(&without) {
        Ok(d) => d,
        Err(e) => {
            out.count("gen:doc-rejected");
            if std::env::var("WACV_DEBUG").is_ok() {
                eprintln!("doc rejected: {e}\n{without}");
            }
            return;
        }
    };
    let mut packages: IndexMap<BorrowedPackageKey, Vec<u8>> = IndexMap::new();
    packages.insert(BorrowedPackageKey::from_name_and_version("t:w", wver.as_ref()), wit_bytes.clone());
    packages.insert(BorrowedPackageKey::from_name_and_version("t:c", None), comp.clone());
    let res = match doc.resolve(packages) {
        Ok(r) => r,
        Err(e) => {
            out.count("gen:body-rejected");
            if std::env::var("WACV_DEBUG").is_ok() {
                eprintln!("{e}\n{without}\n{comp_text}");
            }
            return;
        }
    };
    let out_bytes = match bytes_ok {
        Some(b) => b,
        None => match res.encode(EncodeOptions { define_components: true, validate: true, ..Default::default() }) {
            Ok(b) => b,
            Err(e) => {
                out.count("gen:encode-failed");
                if std::env::var("WACV_DEBUG").is_ok() {
                    eprintln!("encode failed: {e:?}\n{without}");
                }
                return;
            }
        },
    };
    let mut graph = res.into_graph();
    let gimports: Vec<(String, ItemKind)> = graph.imports().map(|(n, k, _)| (n.to_string(), k)).collect();
    let mut gexports: Vec<(String, ItemKind)> = Vec::new();
    for node in graph.nodes() {
        if let Some(n) = node.export_name() {
            gexports.push((n.to_string(), node.item_kind()));
        }
    }
    let wid = if inline {
        let mut found = None;
        for node in graph.nodes() {
            if node.name() == Some("w") {
                if let ItemKind::Type(Type::World(id)) = node.item_kind() {
                    found = Some(id);
                }
            }
        }
        let Some(id) = found else {
            out.count("gen:no-inline-world");
            return;
        };
        id
    } else {
        let wpkg = match Package::from_bytes("t:w", wver.as_ref(), wit_bytes.clone(), graph.types_mut()) {
            Ok(p) => p,
            Err(_) => {
                out.count("gen:world-decode-failed");
                return;
            }
        };
        let Some(ItemKind::Type(Type::World(wid))) = wpkg.definitions().get("w").copied() else {
            out.count("gen:no-world");
            return;
        };
        wid
    };
    let mut fields = vec![esc(&ser_types(graph.types(), 1)), format!("{wid}"), gimports.len().to_string()];
    for (n, k) in &gimports {
        fields.push(esc(n));
        fields.push(esc(&ser_kind(*k)));
    }
    fields.push(gexports.len().to_string());
    for (n, k) in &gexports {
        fields.push(esc(n));
        fields.push(esc(&ser_kind(*k)));
    }
    fields.extend(rv.clone());

    // the stand-alone check on the encoded output (as `wac targets` does)
    // (for a world written in the document: the same check on the document's own world)
    let mut t2 = if inline { graph.types().clone() } else { Types::default() };
    let w2 = if inline {
        wid
    } else {
        let wit2 = Package::from_bytes("wit", None, wit_bytes.clone(), &mut t2).expect("wit decodes");
        let Some(ItemKind::Type(Type::World(w2))) = wit2.definitions().get("w").copied() else { return };
        w2
    };
    let comp2 = match Package::from_bytes("component", None, out_bytes, &mut t2) {
        Ok(p) => p,
        Err(_) => {
            out.count("gen:output-decode-failed");
            return;
        }
    };
    let report = guarded(std::panic::AssertUnwindSafe(|| wac_types::validate_target(&t2, w2, comp2.ty())));
    fields.push(esc(&ser_types(&t2, 2)));
    fields.push(format!("{w2}"));
    fields.push(format!("{}", comp2.ty()));
    match report {
        Ok(Ok(())) => {
            out.count("binary:ok");
            fields.push("ok".into());
        }
        Ok(Err(r)) => {
            out.count("binary:report");
            fields.push("report".into());
            let a: Vec<&str> = r.imports_not_in_target().collect();
            fields.push(a.len().to_string());
            fields.extend(a.iter().map(|s| esc(s)));
            let b: Vec<&str> = r.missing_exports().map(|(n, _)| n).collect();
            fields.push(b.len().to_string());
            fields.extend(b.iter().map(|s| esc(s)));
            let c: Vec<(&str, &ExternKind, &anyhow::Error)> = r.mismatched_types().collect();
            fields.push(c.len().to_string());
            for (n, k, e) in c {
                fields.push(esc(n));
                fields.push(match k {
                    ExternKind::Import => "import".into(),
                    ExternKind::Export => "export".into(),
                });
                fields.push(esc(&format!("{e:#}")));
            }
        }
        Err(p) => {
            let id = format!("tgt-{}", out.n + 1);
            out.fail(&id, "validate_target panicked", &p);
            fields.push("none".into());
        }
    }
    // oracle: component subtyping output <: world type, both re-encoded from the decoded types
    let oracle = match (kind_to_d(&t2, ItemKind::Component(comp2.ty())), kind_to_d(&t2, ItemKind::Component(w2))) {
        (Some(o), Some(w)) if !o.has_resource() && !w.has_resource() => match oracle_subtype(&o, &with_implicit_imports(&t2, w2, w)) {
            Ok(Some(v)) => {
                out.count(if v { "oracle:sub" } else { "oracle:not-sub" });
                if v { "1".to_string() } else { "0".to_string() }
            }
            Ok(None) => "-".into(),
            Err(e) => {
                out.count("oracle:encode-error");
                if std::env::var("WACV_DEBUG").is_ok() {
                    eprintln!("oracle: {e}");
                }
                "-".into()
            }
        },
        _ => {
            out.count("oracle:not-expressible");
            "-".into()
        }
    };
    fields.push(oracle);
    out.count(&format!("gen:{label}"));
    // kind confusion actually present in the observed composition: a world export of instance /
    // function kind that the composition exports as a type
    {
        let w = &graph.types()[wid];
        for (n, k) in &gexports {
            if let (ItemKind::Type(_), Some(wk)) = (k, w.exports.get(n)) {
                out.count(match wk.promote() {
                    ItemKind::Instance(_) => "confusion:type-for-instance-export",
                    ItemKind::Func(_) => "confusion:type-for-func-export",
                    _ => "confusion:type-for-other-export",
                });
            }
        }
        for (n, k) in &gimports {
            if let ItemKind::Type(_) = k {
                out.count(if w.imports.contains_key(n) { "type-import:in-world" } else { "type-import:not-in-world" });
            }
            if let (ItemKind::Type(_), Some(wk)) = (k, w.imports.get(n)) {
                out.count(match wk.promote() {
                    ItemKind::Instance(_) => "confusion:type-for-instance-import",
                    ItemKind::Func(_) => "confusion:type-for-func-import",
                    _ => "confusion:type-for-other-import",
                });
            }
        }
    }
    out.count(if inline { "world:inline" } else { "world:wit-package" });
    out.case(true, "tgt", &fields);
}

/// the world's component type with the interfaces reached through `use` added to its imports
fn with_implicit_imports(types: &Types, w: wac_types::WorldId, d: D) -> D {
    let D::Component(mut imports, exports) = d else { return d };
    for (name, kind) in types[w].implicit_imported_interfaces(types) {
        if !imports.iter().any(|(n, _)| n == name) {
            if let Some(k) = kind_to_d(types, kind) {
                imports.push((name.to_string(), k));
            }
        }
    }
    D::Component(imports, exports)
}

/// `wac_types::validate_target` called directly on hand-built collections (public API): worlds
/// whose items are *type* items (`promote`), versioned names on both sides, shadowed names
fn api_case(out: &mut Out, r: &mut Rng) {
    use wac_types::PrimitiveType as P;
    let f0 = func(false, &[], None);
    let f1 = func(false, &[("x", D::Prim(P::U8))], None);
    let i1 = D::Instance(named(&[("f", f0.clone())]));
    let i2 = D::Instance(named(&[("f", f0.clone()), ("g", f0.clone())]));
    let pick_item = |r: &mut Rng, as_type: bool| -> D {
        let d = match r.below(4) {
            0 => f0.clone(),
            1 => f1.clone(),
            2 => i1.clone(),
            _ => i2.clone(),
        };
        if as_type { D::Type(Box::new(d)) } else { d }
    };
    let names = ["a", "p:q/i@0.2.0", "p:q/i@0.2.1", "p:q/i@1.0.0", "b"];
    let mut wi = Vec::new();
    let mut we_ = Vec::new();
    let mut ci = Vec::new();
    let mut ce = Vec::new();
    for n in names {
        if r.chance(1, 2) {
            let ty = r.chance(1, 2);
            wi.push((n.to_string(), pick_item(r, ty)));
        }
        if r.chance(1, 3) {
            let ty = r.chance(1, 2);
            we_.push((n.to_string(), pick_item(r, ty)));
        }
        // the component's own items are now and then *type* items (kind confusion: a type where
        // the world has an instance / a function of that name is not promoted)
        if r.chance(1, 2) {
            let ty = r.chance(1, 6);
            ci.push((n.to_string(), pick_item(r, ty)));
        }
        if r.chance(1, 2) {
            let ty = r.chance(1, 6);
            ce.push((n.to_string(), pick_item(r, ty)));
        }
    }
    let mut t = Types::default();
    let (w, c) = {
        let mut b = Builder::new(&mut t, r.chance(1, 2));
        let w = b.kind(&D::Component(wi, we_));
        let c = b.kind(&D::Component(ci, ce));
        (w, c)
    };
    let (ItemKind::Component(w), ItemKind::Component(c)) = (w, c) else { return };
    let report = guarded(std::panic::AssertUnwindSafe(|| wac_types::validate_target(&t, w, c)));
    let mut fields = vec![esc(&ser_types(&t, 2)), format!("{w}"), format!("{c}")];
    match report {
        Ok(Ok(())) => {
            out.count("api:ok");
            fields.push("ok".into());
        }
        Ok(Err(rep)) => {
            out.count("api:report");
            fields.push("report".into());
            let a: Vec<&str> = rep.imports_not_in_target().collect();
            fields.push(a.len().to_string());
            fields.extend(a.iter().map(|s| esc(s)));
            let b: Vec<&str> = rep.missing_exports().map(|(n, _)| n).collect();
            fields.push(b.len().to_string());
            fields.extend(b.iter().map(|s| esc(s)));
            let m: Vec<(&str, &ExternKind, &anyhow::Error)> = rep.mismatched_types().collect();
            fields.push(m.len().to_string());
            for (n, k, e) in m {
                fields.push(esc(n));
                fields.push(match k {
                    ExternKind::Import => "import".into(),
                    ExternKind::Export => "export".into(),
                });
                fields.push(esc(&format!("{e:#}")));
            }
        }
        Err(p) => {
            let id = format!("bin-{}", out.n + 1);
            out.fail(&id, "validate_target panicked", &p);
            fields.push("none".into());
        }
    }
    out.case(true, "bin", &fields);
}

fn generate(args: &Args, seed: u64, thorough: bool, shard: usize, nshards: usize, path: &str) {
    let mut r = Rng::new(seed ^ ((shard as u64).wrapping_mul(0x9E37_79B9)) ^ 0xC11);
    let tier = if thorough { "t" } else { "q" };
    let mut out = Out::create(path, &format!("c11-{tier}{seed}-{shard}of{nshards}-"));
    let n = if thorough { 15_000 } else { args.num("n", 400) } / nshards;
    for _ in 0..(n * 2) {
        api_case(&mut out, &mut r);
    }
    for _ in 0..n {
        let versions = [None, Some("0.2.0"), Some("0.2.1"), Some("1.0.0"), Some("1.1.0")];
        let tv = *r.pick(&versions);
        let mut target = Spec {
            version: tv,
            resource: r.chance(1, 3),
            explicit_types: r.chance(1, 3),
            api_g: r.chance(1, 2),
            log_ty: "string",
            run_ret: if r.chance(1, 3) { "u32" } else { "" },
            api_f_param: "r",
            out_h_ret: "string",
            inl: r.chance(1, 4),
            world_use: match r.below(10) {
                0 | 1 => Some("types"),
                2 => Some("alt"),
                _ => None,
            },
        };
        let mut dep = target.clone();
        let mut imports = vec!["api", "log"];
        if r.chance(1, 3) {
            imports.insert(0, "types");
        }
        let mut exports = vec!["out", "run"];
        if target.inl {
            exports.push("inl");
        }
        let mut decls: Vec<&str> = Vec::new();
        let mut log_ty = "string";
        let mut run_ret = target.run_ret;
        let label = match r.below(19) {
            0 | 1 => "conforming",
            2 => {
                // imports fewer
                imports.retain(|i| *i != "log");
                "conforming-fewer-imports"
            }
            3 => {
                exports.push("bonus");
                "conforming-extra-export"
            }
            4 => {
                imports.push(if r.chance(1, 2) { "extra" } else { "other" });
                "extra-import"
            }
            5 => {
                let i = r.below(exports.len());
                exports.remove(i);
                if exports.is_empty() {
                    exports.push("bonus");
                }
                "missing-export"
            }
            6 => {
                log_ty = "u32";
                "import-type-change"
            }
            7 => {
                run_ret = if run_ret.is_empty() { "string" } else { "" };
                "export-type-change"
            }
            8 => {
                // the component was built against other contents of the same interface names
                if r.chance(1, 2) {
                    dep.api_f_param = "u8";
                    "import-interface-change"
                } else {
                    dep.out_h_ret = "u32";
                    "export-interface-change"
                }
            }
            12 | 13 => {
                // kind confusion: the world exports a function / an instance, the document only
                // declares a *type* of that name (and the component does not export the name)
                if r.chance(1, 2) {
                    exports.retain(|e| *e != "run");
                    decls.push(if r.chance(1, 5) { "iface-run" } else { "type-run" });
                    "type-for-func-export"
                } else {
                    target.inl = true;
                    dep.inl = true;
                    exports.retain(|e| *e != "inl");
                    decls.push(match r.below(6) {
                        0 => "iface-inl-wide",
                        1 => "iface-inl-other",
                        2 => "type-inl-func",
                        _ => "iface-inl",
                    });
                    "type-for-instance-export"
                }
            }
            14 => {
                // the world's instance export at another kind / width, or missing
                target.inl = true;
                dep.inl = true;
                exports.retain(|e| *e != "inl");
                match r.below(3) {
                    0 => {
                        exports.push("inl-wide");
                        "conforming-wider-instance-export"
                    }
                    1 => {
                        exports.push("inl-func");
                        "func-for-instance-export"
                    }
                    _ => "missing-instance-export",
                }
            }
            16 | 17 | 18 => {
                // a type import of the composition: the component has a world-level `use` (it
                // imports the interface and the type `r`); the world has the same use / none /
                // a type `r` of another interface
                let which = r.below(8);
                imports.insert(0, if which == 0 { "use-alt-r" } else { "use-r" });
                match r.below(5) {
                    0 | 1 => {
                        target.world_use = Some("types");
                        dep.world_use = Some("types");
                        if which == 0 { "world-use-type-differs" } else { "conforming-world-use" }
                    }
                    2 | 3 => {
                        target.world_use = None;
                        dep.world_use = None;
                        "world-use-type-not-in-target"
                    }
                    _ => {
                        target.world_use = Some("alt");
                        dep.world_use = Some("alt");
                        if which == 0 { "conforming-world-use-alt" } else { "world-use-type-differs" }
                    }
                }
            }
            15 => {
                // the document imports a (record) type under the name of a world import of function kind
                imports.retain(|i| *i != "log");
                decls.push("record-log");
                "type-for-func-import"
            }
            9 => {
                // the component needs less of `api` than the world offers / more than it offers
                dep.api_g = !target.api_g;
                if target.api_g { "conforming-narrower-interface" } else { "import-interface-wider" }
            }
            _ => {
                // version skew between the world and what the component was built against
                let other: Vec<Option<&'static str>> = versions.iter().copied().filter(|v| *v != tv).collect();
                dep.version = *r.pick(&other);
                if r.chance(1, 2) {
                    dep.api_g = false;
                }
                "version-skew"
            }
        };
        let explicit_log = r.chance(1, 4);
        let inline = r.chance(1, 2);
        // a declaration next to a conforming component (an extra type export, or a name clash)
        if decls.is_empty() && r.chance(1, 12) {
            decls.push(*r.pick(&["iface-inl", "type-run", "type-inl-func"]));
        }
        one_case(&mut out, label, &target, &dep, &imports, &exports, log_ty, run_ret, explicit_log, inline, &decls);
    }
    out.finish();
}

fn main() {
    quiet_panics();
    let args = Args::parse();
    if let Some(file) = args.replay.clone() {
        let text = std::fs::read_to_string(&file).expect("read replay file");
        let wanted: Vec<String> = text
            .lines()
            .filter_map(|l| l.strip_prefix("CASE\t").and_then(|r| r.split('\t').next()).map(|s| s.to_string()))
            .collect();
        let mut kept = String::new();
        let mut done: Vec<(bool, u64, usize, usize)> = Vec::new();
        for id in &wanted {
            let parts: Vec<&str> = id.split('-').collect();
            if parts.len() != 4 || parts[0] != "c11" {
                continue;
            }
            let thorough = parts[1].starts_with('t');
            let seed: u64 = parts[1][1..].parse().unwrap_or(0);
            let Some((s, n)) = parts[2].split_once("of") else { continue };
            let key = (thorough, seed, s.parse().unwrap_or(0), n.parse().unwrap_or(1));
            if done.contains(&key) {
                continue;
            }
            done.push(key);
            let tmp = format!("{}.regen", args.out);
            generate(&args, key.1, key.0, key.2, key.3, &tmp);
            for line in std::fs::read_to_string(&tmp).unwrap_or_default().lines() {
                let lid = if let Some(rest) = line.strip_prefix("!FAIL\t") { rest.split('\t').next() } else { line.split('\t').next() };
                if lid.map(|l| wanted.iter().any(|w| w == l)).unwrap_or(false) {
                    kept.push_str(line);
                    kept.push('\n');
                }
            }
            let _ = std::fs::remove_file(&tmp);
        }
        std::fs::write(&args.out, kept).expect("write replay output");
        return;
    }
    let shard = args.num("shard", 0);
    let nshards = args.num("nshards", 1).max(1);
    generate(&args, args.seed, args.thorough(), shard, nshards, &args.out);
}
