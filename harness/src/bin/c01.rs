//! C01: every encoded composition is a valid component; no late validation failures.
//!
//! Compositions come from (a) accepted sequences of graph operations, removals included, over
//! WAT/WIT libraries and (b) resolvable WAC documents over the same libraries.  Each is encoded
//! by the real code in all four option combinations (dependencies embedded|imported x validate
//! on|off) and every output goes through `wasmparser::Validator::validate_all` with all features.
//! Failures decided here (`!FAIL`): the validator rejecting an output, `EncodeError::ValidationFailure`
//! for a composition whose every operation was accepted, a panic in `encode`, different bytes
//! with validation on and off.  Cases for the Lean driver (graph-op compositions only):
//!   enc <gen> <define> <graph dump> <real toposort> <result>       (as for C02)
#[path = "../enc_gen.rs"]
mod enc_gen;
#[path = "../enc_util.rs"]
mod enc_util;

use enc_gen::*;
use enc_util::*;
use indexmap::IndexMap;
use std::panic::AssertUnwindSafe;
use wac_graph::types::BorrowedPackageKey;
use wac_graph::{CompositionGraph, EncodeError, EncodeOptions};
use wacv::{esc, guarded, quiet_panics, Args, Out, Rng};

fn first_line(s: &str) -> String {
    s.lines().next().unwrap_or("").to_string()
}

/// strip offsets and indices so that one defect has one signature
fn normalise(msg: &str) -> String {
    let mut out = String::new();
    let mut chars = msg.chars().peekable();
    while let Some(c) = chars.next() {
        if c.is_ascii_digit() {
            while chars.peek().map(|d| d.is_ascii_hexdigit() || *d == 'x').unwrap_or(false) {
                chars.next();
            }
            out.push('N');
        } else {
            out.push(c);
        }
    }
    out
}

/// shapes of a composition that are known to defeat the type encoder (named types out of scope)
fn shape_tags(g: &CompositionGraph) -> Vec<&'static str> {
    use wac_graph::types::{ItemKind, ValueType};
    use wac_graph::NodeKind;
    let mut tags = Vec::new();
    let types = g.types();
    let mentions_named = |id: wac_graph::types::FuncTypeId| {
        let f = &types[id];
        f.params.values().any(|v| matches!(v, ValueType::Defined(_) | ValueType::Own(_) | ValueType::Borrow(_)))
            || matches!(f.result, Some(ValueType::Defined(_)) | Some(ValueType::Own(_)) | Some(ValueType::Borrow(_)))
    };
    for id in g.node_ids() {
        let n = &g[id];
        match (n.kind(), n.item_kind()) {
            (NodeKind::Import(_), ItemKind::Func(f)) if mentions_named(f) => {
                if !tags.contains(&"explicit-function-import-with-named-types") {
                    tags.push("explicit-function-import-with-named-types");
                }
            }
            (NodeKind::Alias, ItemKind::Func(f)) if n.export_name().is_some() && mentions_named(f) => {
                if !tags.contains(&"exported-function-with-named-types") {
                    tags.push("exported-function-with-named-types");
                }
            }
            _ => {}
        }
        if let (NodeKind::Definition, ItemKind::Type(wac_graph::types::Type::Value(ValueType::Defined(d)))) = (n.kind(), n.item_kind()) {
            use wac_graph::types::{DefinedType, Type};
            let children: Vec<ValueType> = match &types[d] {
                DefinedType::Record(r) => r.fields.values().copied().collect(),
                DefinedType::List(t) | DefinedType::Option(t) | DefinedType::Alias(t) => vec![*t],
                DefinedType::Tuple(ts) => ts.clone(),
                _ => vec![],
            };
            for c in children {
                if let ValueType::Defined(cid) = c {
                    let compound = matches!(&types[cid], DefinedType::Record(_) | DefinedType::Variant(_) | DefinedType::Enum(_) | DefinedType::Flags(_));
                    let defined = g.node_ids().any(|m| {
                        matches!(g[m].kind(), NodeKind::Definition) && g[m].item_kind() == ItemKind::Type(Type::Value(c))
                    });
                    if compound && !defined && !tags.contains(&"definition-over-undefined-type") {
                        tags.push("definition-over-undefined-type");
                    }
                }
            }
        }
        for (_, src) in g.get_instantiation_arguments(id) {
            if matches!(g[src].item_kind(), ItemKind::Type(_)) && !tags.contains(&"type-argument-satisfied") {
                tags.push("type-argument-satisfied");
            }
        }
    }
    tags
}

struct Outcome {
    toks: Toks,
    bytes: Option<Vec<u8>>,
    fail: Option<String>,
    nontrivial: bool,
}

fn encode_and_judge(out: &mut Out, g: &CompositionGraph, classes: &[Vec<u8>], define: bool, validate: bool) -> Outcome {
    let res = guarded(AssertUnwindSafe(|| {
        g.encode(EncodeOptions { define_components: define, validate, processor: None })
    }));
    let mut r = Toks::default();
    let mut fail = None;
    let mut bytes_out = None;
    let mut nontrivial = false;
    match res {
        Err(p) => {
            r.s("panic");
            out.count("result:panic");
            fail = Some(format!("encode panicked: {}", normalise(&first_line(&p))));
        }
        Ok(Err(e)) => {
            r.s("err");
            match e {
                EncodeError::GraphContainsCycle { node } => {
                    out.count("result:cycle");
                    r.s("cycle").n(node_index(node));
                }
                EncodeError::ImplicitImportConflict { import, instantiation, name, .. } => {
                    out.count("result:implicit-conflict");
                    r.s("implicit").s(&name).n(node_index(instantiation)).n(node_index(import));
                }
                EncodeError::ImportTypeMergeConflict { import, first, second, .. } => {
                    out.count("result:merge-conflict");
                    r.s("merge").s(&import).n(node_index(first)).n(node_index(second));
                }
                EncodeError::ValidationFailure { source } => {
                    out.count("result:validation-failure");
                    r.s("validation");
                    let msg = normalise(&first_line(&source.to_string()));
                    let tags = shape_tags(g);
                    fail = Some(if msg.contains("not valid to be used as") && !tags.is_empty() {
                        format!("post-hoc ValidationFailure: {} [named type out of scope: {}]", msg, tags.join(","))
                    } else {
                        format!("post-hoc ValidationFailure: {}", msg)
                    });
                }
            }
        }
        Ok(Ok(bytes)) => {
            out.count("result:ok");
            match read_wiring(&bytes) {
                Ok(w) => {
                    r.s("ok");
                    r.0.extend(w.toks(classes).0);
                    nontrivial = !w.insts.is_empty();
                }
                Err(e) => {
                    r.s("unreadable");
                    fail = Some(format!("output unreadable: {}", normalise(&e.to_string())));
                }
            }
            if let Err(e) = validate_all(&bytes) {
                out.count("oracle:validator-rejects");
                let msg = normalise(&first_line(&e));
                let tags = shape_tags(g);
                fail = Some(if msg.contains("not valid to be used as") && !tags.is_empty() {
                    format!("validator rejects the output: {} [named type out of scope: {}]", msg, tags.join(","))
                } else {
                    format!("validator rejects the output: {}", msg)
                });
            }
            bytes_out = Some(bytes);
        }
    }
    Outcome { toks: r, bytes: bytes_out, fail, nontrivial }
}

fn run_ops_case(out: &mut Out, seed: u64, shard: u64, i: u64, per_lib: u64) {
    let l = i / per_lib;
    let mut lrng = Rng::new(seed.wrapping_mul(41).wrapping_add(shard.wrapping_mul(1_000_037)).wrapping_add(l).wrapping_add(0xC01));
    let pool = if l % 2 == 0 { name_pool() } else { name_pool_c01() };
    let lib = build_library_from(&mut lrng, 5, true, pool);
    let mut rng = Rng::new(seed.wrapping_mul(1_000_003).wrapping_add(shard.wrapping_mul(7877)).wrapping_add(i.wrapping_mul(104_717)));
    let cfg = GenCfg {
        steps: 6 + rng.below(18),
        removal: rng.chance(1, 2),
        definitions: rng.chance(1, 2),
        loose_imports: rng.chance(1, 3),
        typed_items: rng.chance(1, 3),
    };
    // a panic inside a graph operation is C06's; the composition is then not "accepted"
    let built = match guarded(AssertUnwindSafe(|| {
        let mut r2 = rng.clone();
        build_graph(&mut r2, &lib, &cfg)
    })) {
        Ok(b) => b,
        Err(_) => {
            out.count("ops:operation-panicked");
            return;
        }
    };
    count_ops(&built.ops, &mut out.stats);
    out.count(&format!("cfg:removal={} loose={} typed={}", cfg.removal, cfg.loose_imports, cfg.typed_items));
    let g = &built.graph;
    let ids: Vec<_> = built.pkgs.iter().map(|(_, id)| *id).collect();
    let dumped = guarded(AssertUnwindSafe(|| {
        let mut d = dump_graph(g, &ids);
        push_exports(&mut d, g);
        d
    }));
    let dump = match dumped {
        Ok(d) => d,
        Err(e) => {
            // the public queries themselves disagree / panic on this graph: C06's, but say so
            out.count("ops:graph-dump-failed");
            let id = out.case(false, "skip", &[esc(&format!("{}.{}.{}", seed, shard, i))]);
            out.fail(&id, &format!("graph queries inconsistent: {}", normalise(&first_line(&e))), &ops_text(&built.ops));
            return;
        }
    };
    let topo = {
        let mut t = Toks::default();
        match g.verif_encode_toposort() {
            Ok(v) => {
                t.s("ok").n(v.len());
                for n in v {
                    t.n(n);
                }
            }
            Err(n) => {
                t.s("err").n(n);
            }
        }
        t
    };
    for define in [true, false] {
        let off = encode_and_judge(out, g, &dump.classes, define, false);
        let on = encode_and_judge(out, g, &dump.classes, define, true);
        let gen = format!("{}.{}.{}.{}", seed, shard, i, define as u8);
        let id = out.case(
            off.nontrivial,
            "enc",
            &[esc(&gen), (define as u8).to_string(), dump.toks.field(), topo.field(), off.toks.field()],
        );
        if let Some(sig) = &off.fail {
            out.fail(&id, sig, &ops_text(&built.ops));
        }
        if let Some(sig) = &on.fail {
            if off.fail.is_none() || !sig.starts_with("post-hoc") {
                out.fail(&id, sig, &ops_text(&built.ops));
            }
        }
        if let (Some(a), Some(b)) = (&off.bytes, &on.bytes) {
            if a != b {
                out.fail(&id, "validate on/off changes the encoded bytes", &ops_text(&built.ops));
            }
        }
    }
}

// ---------------------------------------------------------------------------------------------
// WAC documents

fn gen_document(rng: &mut Rng, lib: &[LibPkg]) -> (String, Vec<usize>) {
    let wat: Vec<usize> = (0..lib.len()).filter(|k| lib[*k].shapes.is_some()).collect();
    let n = 2 + rng.below(3);
    let mut src = String::from("package t:doc;\n\n");
    let mut used: Vec<usize> = Vec::new();
    let mut insts: Vec<usize> = Vec::new();
    for i in 0..n {
        let k = *rng.pick(&wat);
        if !used.contains(&k) {
            used.push(k);
        }
        let (imports, _) = lib[k].shapes.as_ref().unwrap();
        let mut args: Vec<String> = Vec::new();
        for (name, want) in imports {
            if !rng.chance(1, 2) {
                continue;
            }
            // an export of an earlier instance that fits
            let mut found = None;
            for (j, kj) in insts.iter().enumerate() {
                let (_, exports) = lib[*kj].shapes.as_ref().unwrap();
                for (en, have) in exports {
                    if have.sub(want) && rng.chance(1, 2) {
                        found = Some(format!("i{}[\"{}\"]", j, en));
                    }
                }
            }
            if let Some(e) = found {
                args.push(format!("\"{}\": {}", name, e));
            }
        }
        args.push("...".to_string());
        let pkg = match &lib[k].version {
            Some(v) => format!("{}@{}", lib[k].name, v),
            None => lib[k].name.clone(),
        };
        src.push_str(&format!("let i{} = new {} {{ {} }};\n", i, pkg, args.join(", ")));
        insts.push(k);
    }
    // exports
    let mut n_e = 0;
    for (j, kj) in insts.iter().enumerate() {
        let (_, exports) = lib[*kj].shapes.as_ref().unwrap();
        for (en, _) in exports {
            if rng.chance(1, 3) {
                n_e += 1;
                src.push_str(&format!("export i{}[\"{}\"] as x{};\n", j, en, n_e));
            }
        }
    }
    if n_e == 0 {
        src.push_str("export i0 as whole;\n");
    }
    (src, used)
}

fn run_doc_case(out: &mut Out, seed: u64, shard: u64, i: u64, per_lib: u64) {
    let l = i / per_lib;
    let mut lrng = Rng::new(seed.wrapping_mul(43).wrapping_add(shard.wrapping_mul(1_000_039)).wrapping_add(l).wrapping_add(0xD0C));
    let lib = build_library_from(&mut lrng, 5, false, if l % 2 == 0 { name_pool() } else { name_pool_c01() });
    let mut rng = Rng::new(seed.wrapping_mul(999_983).wrapping_add(shard.wrapping_mul(7867)).wrapping_add(i.wrapping_mul(104_711)));
    let (src, _used) = gen_document(&mut rng, &lib);
    let gen = format!("doc.{}.{}.{}", seed, shard, i);
    let doc = match wac_parser::Document::parse(&src) {
        Ok(d) => d,
        Err(_) => {
            out.count("doc:parse-rejected");
            return;
        }
    };
    let versions: Vec<Option<semver::Version>> =
        lib.iter().map(|p| p.version.as_ref().map(|v| semver::Version::parse(v).unwrap())).collect();
    let mut packages: IndexMap<BorrowedPackageKey<'_>, Vec<u8>> = IndexMap::new();
    for (k, p) in lib.iter().enumerate() {
        packages.insert(BorrowedPackageKey::from_name_and_version(&p.name, versions[k].as_ref()), p.bytes.clone());
    }
    let resolution = match guarded(AssertUnwindSafe(|| doc.resolve(packages))) {
        Ok(Ok(r)) => r,
        Ok(Err(_)) => {
            out.count("doc:resolve-rejected");
            return;
        }
        Err(_) => {
            out.count("doc:resolve-panicked");
            return;
        }
    };
    out.count("doc:resolved");
    for define in [true, false] {
        for validate in [false, true] {
            let res = guarded(AssertUnwindSafe(|| {
                resolution.encode(EncodeOptions { define_components: define, validate, processor: None })
            }));
            let mut fail = None;
            match res {
                Err(p) => fail = Some(format!("encode panicked: {}", normalise(&first_line(&p)))),
                Ok(Err(wac_parser::resolution::Error::ValidationFailure { source })) => {
                    fail = Some(format!("post-hoc ValidationFailure: {}", normalise(&first_line(&source.to_string()))))
                }
                Ok(Err(_)) => out.count("doc:encode-error"),
                Ok(Ok(bytes)) => {
                    out.count("doc:encoded");
                    if let Err(e) = validate_all(&bytes) {
                        fail = Some(format!("validator rejects the output: {}", normalise(&first_line(&e))));
                    }
                }
            }
            let id = out.case(true, "doc", &[esc(&format!("{}.{}.{}", gen, define as u8, validate as u8))]);
            if let Some(sig) = fail {
                out.fail(&id, &sig, &src);
            }
        }
    }
}

fn main() {
    let args = Args::parse();
    quiet_panics();
    let shard = args.num("shard", 0) as u64;
    let mut out = Out::create(&args.out, &format!("s{}-", shard));
    if let Some(path) = &args.replay {
        let text = std::fs::read_to_string(path).unwrap_or_default();
        let mut seen = std::collections::BTreeSet::new();
        for line in text.lines() {
            let parts: Vec<&str> = line.split('\t').collect();
            if let Some(pos) = parts.iter().position(|p| *p == "enc") {
                if let Some(gen) = parts.get(pos + 1) {
                    let nums: Vec<u64> = gen.split('.').filter_map(|x| x.parse().ok()).collect();
                    if nums.len() == 4 && seen.insert((0, nums[0], nums[1], nums[2])) {
                        run_ops_case(&mut out, nums[0], nums[1], nums[2], 25);
                    }
                }
            } else if let Some(pos) = parts.iter().position(|p| *p == "doc") {
                if let Some(gen) = parts.get(pos + 1) {
                    let nums: Vec<u64> = gen.split('.').filter_map(|x| x.parse().ok()).collect();
                    if nums.len() == 5 && seen.insert((1, nums[0], nums[1], nums[2])) {
                        run_doc_case(&mut out, nums[0], nums[1], nums[2], 25);
                    }
                }
            }
        }
        out.finish();
        return;
    }
    let n = args.num("cases", if args.thorough() { 3000 } else { 300 }) as u64;
    let nd = args.num("docs", if args.thorough() { 1000 } else { 100 }) as u64;
    let only = args.extra.get("only").and_then(|s| s.parse::<u64>().ok());
    for i in 0..n {
        if only.is_some() && only != Some(i) {
            continue;
        }
        run_ops_case(&mut out, args.seed, shard, i, 25);
    }
    for i in 0..nd {
        if only.is_some() {
            continue;
        }
        run_doc_case(&mut out, args.seed, shard, i, 25);
    }
    out.finish();
}
