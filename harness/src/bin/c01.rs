//! C01: every encoded composition is a valid component; no late validation failures.
//!
//! Compositions come from (a) accepted sequences of graph operations, removals included, over
//! WAT/WIT libraries and (b) resolvable WAC documents over the same libraries.  Each is encoded
//! by the real code in all four option combinations (dependencies embedded|imported x validate
//! on|off) and every output goes through `wasmparser::Validator::validate_all` with all features.
//! Failures decided here (`!FAIL`): the validator rejecting an output, `EncodeError::ValidationFailure`
//! for a composition whose every operation was accepted, a panic in `encode`, different bytes
//! with validation on and off.  Cases for the Lean driver (graph-op compositions only):
//!   enc <gen> <define> <graph dump> <real toposort> <result>       (as for C02)
#[path = "../enc_gen.rs"]
mod enc_gen;
#[path = "../enc_util.rs"]
mod enc_util;

use enc_gen::*;
use enc_util::*;
use indexmap::IndexMap;
use std::panic::AssertUnwindSafe;
use wac_graph::types::BorrowedPackageKey;
use wac_graph::{CompositionGraph, EncodeError, EncodeOptions};
use wacv::{esc, guarded, quiet_panics, Args, Out, Rng};

fn first_line(s: &str) -> String {
    s.lines().next().unwrap_or("").to_string()
}

/// strip offsets and indices so that one defect has one signature
fn normalise(msg: &str) -> String {
    let mut out = String::new();
    let mut chars = msg.chars().peekable();
    while let Some(c) = chars.next() {
        if c.is_ascii_digit() {
            while chars.peek().map(|d| d.is_ascii_hexdigit() || *d == 'x').unwrap_or(false) {
                chars.next();
            }
            out.push('N');
        } else {
            out.push(c);
        }
    }
    out
}

/// shapes of a composition that are known to defeat the type encoder (named types out of scope)
fn shape_tags(g: &CompositionGraph) -> Vec<&'static str> {
    use wac_graph::types::{ItemKind, ValueType};
    use wac_graph::NodeKind;
    let mut tags = Vec::new();
    let types = g.types();
    let mentions_named = |id: wac_graph::types::FuncTypeId| {
        let f = &types[id];
        f.params.values().any(|v| matches!(v, ValueType::Defined(_) | ValueType::Own(_) | ValueType::Borrow(_)))
            || matches!(f.result, Some(ValueType::Defined(_)) | Some(ValueType::Own(_)) | Some(ValueType::Borrow(_)))
    };
    for id in g.node_ids() {
        let n = &g[id];
        match (n.kind(), n.item_kind()) {
            (NodeKind::Import(_), ItemKind::Func(f)) if mentions_named(f) => {
                if !tags.contains(&"explicit-function-import-with-named-types") {
                    tags.push("explicit-function-import-with-named-types");
                }
            }
            (NodeKind::Alias, ItemKind::Func(f)) if n.export_name().is_some() && mentions_named(f) => {
                if !tags.contains(&"exported-function-with-named-types") {
                    tags.push("exported-function-with-named-types");
                }
            }
            _ => {}
        }
        if let (NodeKind::Definition, ItemKind::Type(wac_graph::types::Type::Value(ValueType::Defined(d)))) = (n.kind(), n.item_kind()) {
            use wac_graph::types::{DefinedType, Type};
            let children: Vec<ValueType> = match &types[d] {
                DefinedType::Record(r) => r.fields.values().copied().collect(),
                DefinedType::List(t) | DefinedType::Option(t) | DefinedType::Alias(t) => vec![*t],
                DefinedType::Tuple(ts) => ts.clone(),
                _ => vec![],
            };
            // an alias of a defined type gets no dependency edge from its target (`visit_defined_types`
            // stops at an alias): when the alias has the lower node index (a reused slot) it is
            // emitted first, with an anonymous copy of the target
            if let DefinedType::Alias(t @ ValueType::Defined(_)) = &types[d] {
                // the target and everything it mentions
                let mut todo = vec![*t];
                let mut later = false;
                while let Some(v) = todo.pop() {
                    let ValueType::Defined(vid) = v else { continue };
                    if g.node_ids().any(|m| matches!(g[m].kind(), NodeKind::Definition) && g[m].item_kind() == ItemKind::Type(Type::Value(v)) && node_index(m) > node_index(id)) {
                        later = true;
                    }
                    match &types[vid] {
                        DefinedType::Record(r) => todo.extend(r.fields.values().copied()),
                        DefinedType::List(t) | DefinedType::Option(t) | DefinedType::Alias(t) => todo.push(*t),
                        DefinedType::Tuple(ts) => todo.extend(ts.iter().copied()),
                        _ => {}
                    }
                }
                if later && !tags.contains(&"definition-alias-before-its-target") {
                    tags.push("definition-alias-before-its-target");
                }
            }
            for c in children {
                if let ValueType::Defined(cid) = c {
                    let compound = matches!(&types[cid], DefinedType::Record(_) | DefinedType::Variant(_) | DefinedType::Enum(_) | DefinedType::Flags(_));
                    let defined = g.node_ids().any(|m| {
                        matches!(g[m].kind(), NodeKind::Definition) && g[m].item_kind() == ItemKind::Type(Type::Value(c))
                    });
                    if compound && !defined && !tags.contains(&"definition-over-undefined-type") {
                        tags.push("definition-over-undefined-type");
                    }
                }
            }
        }
        for (_, src) in g.get_instantiation_arguments(id) {
            if matches!(g[src].item_kind(), ItemKind::Type(_)) && !tags.contains(&"type-argument-satisfied") {
                tags.push("type-argument-satisfied");
            }
        }
    }
    tags
}

/// An instantiation that takes an interface `b` and the interface `a` whose types `b` uses from
/// different sources (one from an instance, the other from the top-level imports or from another
/// instance): every operation is accepted, but when the used type is a resource the two arguments
/// cannot agree on it.
fn split_tags(g: &CompositionGraph) -> Vec<String> {
    use wac_graph::types::ItemKind;
    use wac_graph::NodeKind;
    let types = g.types();
    let mut tags: Vec<String> = Vec::new();
    for n in g.node_ids() {
        let Some(pid) = g[n].package() else { continue };
        if !matches!(g[n].kind(), NodeKind::Instantiation(_)) {
            continue;
        }
        let world = &types[g[pid].ty()];
        let args: Vec<(String, wac_graph::NodeId)> = g.get_instantiation_arguments(n).map(|(a, s)| (a.to_string(), s)).collect();
        // where an argument comes from: the instance it is aliased from / the node itself; none = top level
        let origin = |name: &str| -> Option<usize> {
            let (_, s) = args.iter().find(|(a, _)| a == name)?;
            match g[*s].kind() {
                // an import under the argument's own name is the top-level import of the interface;
                // an import under another name is a source of its own
                NodeKind::Import(n) if n == name => None,
                NodeKind::Import(_) => Some(node_index(*s)),
                NodeKind::Alias => g.get_alias_source(*s).map(|(r, _)| node_index(r)),
                _ => Some(node_index(*s)),
            }
        };
        for (bname, bk) in &world.imports {
            let ItemKind::Instance(bid) = bk else { continue };
            for u in types[*bid].uses.values() {
                let Some(aid) = types[u.interface].id.clone() else { continue };
                let Some((aname, _)) = world.imports.iter().find(|(_, k)| matches!(k, ItemKind::Instance(x) if types[*x].id.as_deref() == Some(aid.as_str()))) else { continue };
                if origin(aname) != origin(bname) {
                    let t = "used-interface-from-another-source".to_string();
                    if !tags.contains(&t) {
                        tags.push(t);
                    }
                }
            }
        }
    }
    tags
}

fn tagged(g: &CompositionGraph, what: &str, msg: &str) -> String {
    let tags = shape_tags(g);
    if msg.contains("not valid to be used as") && !tags.is_empty() {
        return format!("{what}: {msg} [named type out of scope: {}]", tags.join(","));
    }
    if msg.contains("type mismatch for import") {
        let st = split_tags(g);
        if !st.is_empty() {
            return format!("{what}: {msg} [resource split: {}]", st.join(","));
        }
    }
    format!("{what}: {msg}")
}

struct Outcome {
    toks: Toks,
    bytes: Option<Vec<u8>>,
    fail: Option<String>,
    nontrivial: bool,
}

fn encode_and_judge(out: &mut Out, g: &CompositionGraph, classes: &[Vec<u8>], define: bool, validate: bool) -> Outcome {
    let res = guarded(AssertUnwindSafe(|| {
        g.encode(EncodeOptions { define_components: define, validate, processor: None })
    }));
    let mut r = Toks::default();
    let mut fail = None;
    let mut bytes_out = None;
    let mut nontrivial = false;
    match res {
        Err(p) => {
            r.s("panic");
            out.count("result:panic");
            fail = Some(format!("encode panicked: {}", normalise(&first_line(&p))));
        }
        Ok(Err(e)) => {
            r.s("err");
            match e {
                EncodeError::GraphContainsCycle { node } => {
                    out.count("result:cycle");
                    r.s("cycle").n(node_index(node));
                }
                EncodeError::ImplicitImportConflict { import, instantiation, name, .. } => {
                    out.count("result:implicit-conflict");
                    r.s("implicit").s(&name).n(node_index(instantiation)).n(node_index(import));
                }
                EncodeError::ImportTypeMergeConflict { import, first, second, .. } => {
                    out.count("result:merge-conflict");
                    r.s("merge").s(&import).n(node_index(first)).n(node_index(second));
                }
                EncodeError::ValidationFailure { source } => {
                    out.count("result:validation-failure");
                    r.s("validation");
                    let msg = normalise(&first_line(&source.to_string()));
                    fail = Some(tagged(g, "post-hoc ValidationFailure", &msg));
                }
            }
        }
        Ok(Ok(bytes)) => {
            out.count("result:ok");
            match read_wiring(&bytes) {
                Ok(w) => {
                    r.s("ok");
                    r.0.extend(w.toks(classes).0);
                    nontrivial = !w.insts.is_empty();
                }
                Err(e) => {
                    r.s("unreadable");
                    fail = Some(format!("output unreadable: {}", normalise(&e.to_string())));
                }
            }
            if let Err(e) = validate_all(&bytes) {
                out.count("oracle:validator-rejects");
                let msg = normalise(&first_line(&e));
                fail = Some(tagged(g, "validator rejects the output", &msg));
            }
            bytes_out = Some(bytes);
        }
    }
    Outcome { toks: r, bytes: bytes_out, fail, nontrivial }
}

fn run_ops_case(out: &mut Out, seed: u64, shard: u64, i: u64, per_lib: u64) {
    let l = i / per_lib;
    let mut lrng = Rng::new(seed.wrapping_mul(41).wrapping_add(shard.wrapping_mul(1_000_037)).wrapping_add(l).wrapping_add(0xC01));
    let pool = if l % 2 == 0 { name_pool() } else { name_pool_c01() };
    let lib = build_library_sel(&mut lrng, 5, LibSel { wit: true, res: true, ver: true, twins: true }, pool);
    let mut rng = Rng::new(seed.wrapping_mul(1_000_003).wrapping_add(shard.wrapping_mul(7877)).wrapping_add(i.wrapping_mul(104_717)));
    let cfg = GenCfg {
        steps: 6 + rng.below(18),
        removal: rng.chance(1, 2),
        definitions: rng.chance(1, 2),
        loose_imports: rng.chance(1, 3),
        typed_items: rng.chance(1, 3),
        wire: rng.chance(1, 2),
    };
    // a panic inside a graph operation is C06's; the composition is then not "accepted"
    let built = match guarded(AssertUnwindSafe(|| {
        let mut r2 = rng.clone();
        build_graph(&mut r2, &lib, &cfg)
    })) {
        Ok(b) => b,
        Err(_) => {
            out.count("ops:operation-panicked");
            return;
        }
    };
    count_ops(&built.ops, &mut out.stats);
    out.count(&format!("cfg:removal={} loose={} typed={}", cfg.removal, cfg.loose_imports, cfg.typed_items));
    out.count(&format!("cfg:wire={}", cfg.wire));
    let g = &built.graph;
    let ids: Vec<_> = built.pkgs.iter().map(|(_, id)| *id).collect();
    let dumped = guarded(AssertUnwindSafe(|| {
        let mut d = dump_graph(g, &ids);
        push_exports(&mut d, g);
        d
    }));
    let dump = match dumped {
        Ok(d) => d,
        Err(e) => {
            // the public queries themselves disagree / panic on this graph: C06's, but say so
            out.count("ops:graph-dump-failed");
            let id = out.case(false, "skip", &[esc(&format!("{}.{}.{}", seed, shard, i))]);
            out.fail(&id, &format!("graph queries inconsistent: {}", normalise(&first_line(&e))), &ops_text(&built.ops));
            return;
        }
    };
    let topo = {
        let mut t = Toks::default();
        match g.verif_encode_toposort() {
            Ok(v) => {
                t.s("ok").n(v.len());
                for n in v {
                    t.n(n);
                }
            }
            Err(n) => {
                t.s("err").n(n);
            }
        }
        t
    };
    if dump.multi_version_names > 0 {
        out.count("shape:one-package-name-instantiated-at-several-versions");
    }
    if dump.multi_arg_pairs > 0 {
        out.count("shape:several-exports-of-one-instance-passed-to-one-instantiation");
    }
    if std::env::var_os("WACV_DEBUG").is_some() {
        eprintln!("OPS {}", ops_text(&built.ops));
        eprintln!("{:?}", g);
        if let Ok(b) = g.encode(EncodeOptions { define_components: false, validate: false, processor: None }) {
            eprintln!("valid={:?}\n{}", validate_all(&b), wasmprinter::print_bytes(&b).unwrap_or_default());
        }
    }
    for define in [true, false] {
        let off = encode_and_judge(out, g, &dump.classes, define, false);
        let on = encode_and_judge(out, g, &dump.classes, define, true);
        let gen = format!("{}.{}.{}.{}", seed, shard, i, define as u8);
        let id = out.case(
            off.nontrivial,
            "enc",
            &[esc(&gen), (define as u8).to_string(), dump.toks.field(), topo.field(), off.toks.field()],
        );
        if let Some(sig) = &off.fail {
            out.fail(&id, sig, &ops_text(&built.ops));
        }
        if let Some(sig) = &on.fail {
            if off.fail.is_none() || !sig.starts_with("post-hoc") {
                out.fail(&id, sig, &ops_text(&built.ops));
            }
        }
        if let (Some(a), Some(b)) = (&off.bytes, &on.bytes) {
            if a != b {
                out.fail(&id, "validate on/off changes the encoded bytes", &ops_text(&built.ops));
            }
        }
    }
}

// ---------------------------------------------------------------------------------------------
// WAC documents

fn gen_document(rng: &mut Rng, lib: &[LibPkg]) -> (String, Vec<usize>) {
    let wat: Vec<usize> = (0..lib.len()).filter(|k| lib[*k].shapes.is_some()).collect();
    let n = 2 + rng.below(3);
    let mut src = String::from("package t:doc;\n\n");
    let mut used: Vec<usize> = Vec::new();
    let mut insts: Vec<usize> = Vec::new();
    for i in 0..n {
        let k = *rng.pick(&wat);
        if !used.contains(&k) {
            used.push(k);
        }
        let (imports, _) = lib[k].shapes.as_ref().unwrap();
        let mut args: Vec<String> = Vec::new();
        for (name, want) in imports {
            if !rng.chance(1, 2) {
                continue;
            }
            // an export of an earlier instance that fits
            let mut found = None;
            for (j, kj) in insts.iter().enumerate() {
                let (_, exports) = lib[*kj].shapes.as_ref().unwrap();
                for (en, have) in exports {
                    if have.sub(want) && rng.chance(1, 2) {
                        found = Some(format!("i{}[\"{}\"]", j, en));
                    }
                }
            }
            if let Some(e) = found {
                args.push(format!("\"{}\": {}", name, e));
            }
        }
        args.push("...".to_string());
        let pkg = match &lib[k].version {
            Some(v) => format!("{}@{}", lib[k].name, v),
            None => lib[k].name.clone(),
        };
        src.push_str(&format!("let i{} = new {} {{ {} }};\n", i, pkg, args.join(", ")));
        insts.push(k);
    }
    // exports
    let mut n_e = 0;
    for (j, kj) in insts.iter().enumerate() {
        let (_, exports) = lib[*kj].shapes.as_ref().unwrap();
        for (en, _) in exports {
            if rng.chance(1, 3) {
                n_e += 1;
                src.push_str(&format!("export i{}[\"{}\"] as x{};\n", j, en, n_e));
            }
        }
    }
    if n_e == 0 {
        src.push_str("export i0 as whole;\n");
    }
    (src, used)
}

fn run_doc_case(out: &mut Out, seed: u64, shard: u64, i: u64, per_lib: u64) {
    let l = i / per_lib;
    let mut lrng = Rng::new(seed.wrapping_mul(43).wrapping_add(shard.wrapping_mul(1_000_039)).wrapping_add(l).wrapping_add(0xD0C));
    let lib = build_library_from(&mut lrng, 5, false, if l % 2 == 0 { name_pool() } else { name_pool_c01() });
    let mut rng = Rng::new(seed.wrapping_mul(999_983).wrapping_add(shard.wrapping_mul(7867)).wrapping_add(i.wrapping_mul(104_711)));
    let (src, _used) = gen_document(&mut rng, &lib);
    let gen = format!("doc.{}.{}.{}", seed, shard, i);
    let doc = match wac_parser::Document::parse(&src) {
        Ok(d) => d,
        Err(_) => {
            out.count("doc:parse-rejected");
            return;
        }
    };
    let versions: Vec<Option<semver::Version>> =
        lib.iter().map(|p| p.version.as_ref().map(|v| semver::Version::parse(v).unwrap())).collect();
    let mut packages: IndexMap<BorrowedPackageKey<'_>, Vec<u8>> = IndexMap::new();
    for (k, p) in lib.iter().enumerate() {
        packages.insert(BorrowedPackageKey::from_name_and_version(&p.name, versions[k].as_ref()), p.bytes.clone());
    }
    let resolution = match guarded(AssertUnwindSafe(|| doc.resolve(packages))) {
        Ok(Ok(r)) => r,
        Ok(Err(_)) => {
            out.count("doc:resolve-rejected");
            return;
        }
        Err(_) => {
            out.count("doc:resolve-panicked");
            return;
        }
    };
    out.count("doc:resolved");
    for define in [true, false] {
        for validate in [false, true] {
            let res = guarded(AssertUnwindSafe(|| {
                resolution.encode(EncodeOptions { define_components: define, validate, processor: None })
            }));
            let mut fail = None;
            match res {
                Err(p) => fail = Some(format!("encode panicked: {}", normalise(&first_line(&p)))),
                Ok(Err(wac_parser::resolution::Error::ValidationFailure { source })) => {
                    fail = Some(format!("post-hoc ValidationFailure: {}", normalise(&first_line(&source.to_string()))))
                }
                Ok(Err(_)) => out.count("doc:encode-error"),
                Ok(Ok(bytes)) => {
                    out.count("doc:encoded");
                    if let Err(e) = validate_all(&bytes) {
                        fail = Some(format!("validator rejects the output: {}", normalise(&first_line(&e))));
                    }
                }
            }
            let id = out.case(true, "doc", &[esc(&format!("{}.{}.{}", gen, define as u8, validate as u8))]);
            if let Some(sig) = fail {
                out.fail(&id, &sig, &src);
            }
        }
    }
}

fn main() {
    let args = Args::parse();
    quiet_panics();
    let shard = args.num("shard", 0) as u64;
    let mut out = Out::create(&args.out, &format!("s{}-", shard));
    if let Some(path) = &args.replay {
        let text = std::fs::read_to_string(path).unwrap_or_default();
        let mut seen = std::collections::BTreeSet::new();
        for line in text.lines() {
            let parts: Vec<&str> = line.split('\t').collect();
            if let Some(pos) = parts.iter().position(|p| *p == "enc") {
                if let Some(gen) = parts.get(pos + 1) {
                    let nums: Vec<u64> = gen.split('.').filter_map(|x| x.parse().ok()).collect();
                    if nums.len() == 4 && seen.insert((0, nums[0], nums[1], nums[2])) {
                        run_ops_case(&mut out, nums[0], nums[1], nums[2], 25);
                    }
                }
            } else if let Some(pos) = parts.iter().position(|p| *p == "doc") {
                if let Some(gen) = parts.get(pos + 1) {
                    let nums: Vec<u64> = gen.split('.').filter_map(|x| x.parse().ok()).collect();
                    if nums.len() == 5 && seen.insert((1, nums[0], nums[1], nums[2])) {
                        run_doc_case(&mut out, nums[0], nums[1], nums[2], 25);
                    }
                }
            }
        }
        out.finish();
        return;
    }
    let n = args.num("cases", if args.thorough() { 3000 } else { 300 }) as u64;
    let nd = args.num("docs", if args.thorough() { 1000 } else { 100 }) as u64;
    let only = args.extra.get("only").and_then(|s| s.parse::<u64>().ok());
    for i in 0..n {
        if only.is_some() && only != Some(i) {
            continue;
        }
        run_ops_case(&mut out, args.seed, shard, i, 25);
    }
    for i in 0..nd {
        if only.is_some() {
            continue;
        }
        run_doc_case(&mut out, args.seed, shard, i, 25);
    }
    out.finish();
}
