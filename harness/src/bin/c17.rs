//! C17: package discovery (`wac_resolver::packages`) vs the packages resolution asks for.
//! Generated documents reference packages from every syntactic position.  Per document:
//!   * `packages(doc)` keys (or CannotInstantiateSelf)                       -> driver (MODEL: `discover`)
//!   * keys `AstResolver::resolve_package` was called with while resolving with *all* library
//!     packages (the `#[cfg(wac_verif)]` hook)                               -> driver (SPEC: ⊆ discovered; MODEL: ⊆ `requests`)
//!   * `resolve(all packages)` vs `resolve(discovered only)`: same outcome   -> decided here (SPEC)
//! The AST sent to the driver is written from the *real* parsed `wac_parser::Document`.
#[path = "../lang_util.rs"]
mod lang_util;
use lang_util::{package_wat, Kind, Package};
use wacv::*;

use indexmap::IndexMap;
use std::fmt::Write as _;
use wac_parser::{Document, Expr, ExternType, ImportType, InstantiationArgument, InterfaceItem, PackagePath, PrimaryExpr, Statement, TypeStatement, Use, UsePath, WorldItem, WorldItemPath, WorldRef};
use wac_types::BorrowedPackageKey;

const SELF: &str = "test:comp";

// ------------------------------------------------------------------------------------------
// library

struct LibPkg {
    name: String,
    version: Option<semver::Version>,
    bytes: Vec<u8>,
}

fn wit_pkg(name: &str, version: Option<&str>, body: &str) -> LibPkg {
    let header = match version {
        Some(v) => format!("package {name}@{v};\n"),
        None => format!("package {name};\n"),
    };
    let mut resolve = wit_parser::Resolve::new();
    let id = resolve.push_str("lib.wit", &format!("{header}{body}")).expect("wit");
    let bytes = wit_component::encode(&resolve, id).expect("encode wit");
    LibPkg { name: name.into(), version: version.map(|v| semver::Version::parse(v).unwrap()), bytes }
}

fn comp_pkg(name: &str, version: Option<&str>, imports: Vec<(&str, Kind)>, exports: Vec<(&str, Kind)>, uniq: usize) -> LibPkg {
    let p = Package {
        name: name.into(),
        version: version.map(|s| s.to_string()),
        imports: imports.into_iter().map(|(n, k)| (n.to_string(), k)).collect(),
        exports: exports.into_iter().map(|(n, k)| (n.to_string(), k)).collect(),
    };
    let bytes = wat::parse_str(package_wat(&p, uniq)).expect("wat");
    LibPkg { name: name.into(), version: version.map(|v| semver::Version::parse(v).unwrap()), bytes }
}

fn library() -> Vec<LibPkg> {
    let f = |n: &str, s: usize| (n.to_string(), Kind::Func(s));
    let foo = "interface types { type t = u32; enum e { a, b } }\n\
               interface api { use types.{t}; f: func(x: t) -> t; }\n\
               interface plain { type t = u8; g: func(); }\n\
               world w { import plain; }\n\
               world empty { }\n";
    let foo2 = "interface types { type t = u64; }\n\
                interface plain { type t = u8; g: func(); }\n\
                world w { import plain; }\n";
    vec![
        wit_pkg("foo:bar", None, foo),
        wit_pkg("foo:bar", Some("1.0.0"), foo),
        wit_pkg("foo:bar", Some("2.0.0"), foo2),
        wit_pkg("wasi:io", Some("0.2.0"), "interface streams { type t = u64; h: func(); }\nworld imports { import streams; }\n"),
        wit_pkg("x:y", None, "interface handler { type t = string; handle: func(); }\n"),
        comp_pkg("my:stream", None, vec![], vec![("s", Kind::Func(0)), ("inner", Kind::Inst(None, vec![f("g", 0)]))], 1),
        comp_pkg("test:p0", None, vec![("plain", Kind::Inst(None, vec![f("g", 0)])), ("dep", Kind::Inst(None, vec![f("s", 0)]))], vec![("run", Kind::Func(0))], 2),
        comp_pkg("test:p1", Some("1.2.0"), vec![("sub", Kind::Inst(None, vec![f("run", 0)]))], vec![("out", Kind::Func(0))], 3),
        comp_pkg("test:p1", Some("2.0.0"), vec![], vec![("out", Kind::Func(1))], 4),
    ]
}

// ------------------------------------------------------------------------------------------
// document generator (text)

struct Gen<'a> {
    r: &'a mut Rng,
    n: usize,
    local_ifaces: Vec<String>,
    local_worlds: Vec<String>,
    plain_imports: Vec<String>,
    self_new: bool,
}

const IFACE_PATHS: &[&str] = &[
    "foo:bar/types",
    "foo:bar/api",
    "foo:bar/plain",
    "foo:bar/types@1.0.0",
    "foo:bar/api@1.0.0",
    "foo:bar/plain@1.0.0",
    "foo:bar/types@2.0.0",
    "foo:bar/plain@2.0.0",
    "wasi:io/streams@0.2.0",
    "x:y/handler",
];
const WORLD_PATHS: &[&str] = &["foo:bar/w", "foo:bar/empty", "foo:bar/w@1.0.0", "foo:bar/empty@1.0.0", "foo:bar/w@2.0.0", "wasi:io/imports@0.2.0"];
const BAD_PATHS: &[&str] = &["no:such/thing", "foo:bar/plain@9.9.9", "wasi:io/streams", "foo:bar/missing", "x:y/handler@1.0.0"];

impl<'a> Gen<'a> {
    fn fresh(&mut self, p: &str) -> String {
        self.n += 1;
        format!("{p}{}", self.n)
    }
    fn iface_path(&mut self) -> String {
        if self.r.chance(1, 40) {
            return (*self.r.pick(BAD_PATHS)).to_string();
        }
        if !self.local_ifaces.is_empty() && self.r.chance(1, 8) {
            // a path into the package being defined
            let l = self.local_ifaces[self.r.below(self.local_ifaces.len())].clone();
            // (the version of a path into the own package is ignored by discovery and resolution alike)
            let v = ["", "", "@0.1.0", "@7.0.0"][self.r.below(4)];
            return format!("{SELF}/{l}{v}");
        }
        (*self.r.pick(IFACE_PATHS)).to_string()
    }
    fn use_clause(&mut self) -> String {
        let alias = self.fresh("al");
        if !self.local_ifaces.is_empty() && self.r.chance(1, 4) {
            let l = self.local_ifaces[self.r.below(self.local_ifaces.len())].clone();
            return format!("use {l}.{{t as {alias}}};");
        }
        let p = self.iface_path();
        format!("use {p}.{{t as {alias}}};")
    }
    fn inline_iface(&mut self) -> String {
        // items in random order: a `use` may follow type and function items
        let mut items: Vec<String> = Vec::new();
        for _ in 0..self.r.below(3) {
            items.push(self.use_clause());
        }
        if self.r.chance(1, 2) {
            items.push(format!("type {} = u32;", self.fresh("ty")));
        }
        items.push(format!("{}: func();", self.fresh("fn")));
        self.r.shuffle(&mut items);
        format!("interface {{ {} }}", items.join(" "))
    }
    fn new_p0(&mut self, depth: usize) -> String {
        let mut args: Vec<String> = Vec::new();
        if depth < 3 && self.r.chance(2, 3) {
            let inner = if self.r.chance(9, 10) { self.new_of("my:stream", depth + 1) } else { self.new_expr(depth + 1) };
            args.push(format!("dep: {inner}"));
        }
        if self.r.chance(1, 3) {
            let inner = self.new_of("my:stream", depth + 1);
            args.push(if self.r.chance(1, 2) { format!("\"plain\": ({inner}).inner") } else { format!("plain: {inner}[\"inner\"]") });
        }
        args.push("...".into());
        format!("new test:p0 {{ {} }}", args.join(", "))
    }
    fn new_expr(&mut self, depth: usize) -> String {
        let roll = self.r.below(40);
        let e = match roll {
            0 => {
                self.self_new = true;
                format!("new {SELF} {{ ... }}")
            }
            1 => format!("new {} {{ ... }}", ["no:pkg", "test:p1", "test:p0@3.0.0", "foo:bar@1.0.0", "x:y"][self.r.below(5)]),
            2..=11 => format!("new my:stream {{{}}}", if self.r.chance(1, 3) { " ... " } else { "" }),
            12..=25 => self.new_p0(depth),
            26..=35 => {
                let mut args: Vec<String> = Vec::new();
                if depth < 3 && self.r.chance(3, 4) {
                    let inner = if self.r.chance(9, 10) { self.new_p0(depth + 1) } else { self.new_expr(depth + 1) };
                    let inner = if self.r.chance(1, 4) { format!("({inner})") } else { inner };
                    args.push(format!("sub: {inner}"));
                }
                args.push("...".into());
                format!("new test:p1@1.2.0 {{ {} }}", args.join(", "))
            }
            _ => "new test:p1@2.0.0 { }".to_string(),
        };
        if self.r.chance(1, 5) {
            format!("({e})")
        } else {
            e
        }
    }
    fn new_of(&mut self, pkg: &str, _depth: usize) -> String {
        let e = format!("new {pkg} {{ }}");
        if self.r.chance(1, 4) {
            format!("({e})")
        } else {
            e
        }
    }
    fn statement(&mut self, out: &mut String) {
        match self.r.below(16) {
            0 | 1 => {
                let id = self.fresh("i");
                let p = self.iface_path();
                let as_ = if self.r.chance(1, 2) { format!(" as {}", self.fresh("n")) } else { String::new() };
                if p.starts_with("foo:bar/plain") {
                    self.plain_imports.push(id.clone());
                }
                writeln!(out, "import {id}{as_}: {p};").unwrap();
            }
            2 => {
                let id = self.fresh("i");
                let body = self.inline_iface();
                writeln!(out, "import {id}: {body};").unwrap();
            }
            3 => {
                let id = self.fresh("i");
                writeln!(out, "import {id}: func(a: u32);").unwrap();
            }
            4 | 5 => {
                let id = self.fresh("l");
                let mut items: Vec<String> = Vec::new();
                for _ in 0..(1 + self.r.below(2)) {
                    items.push(self.use_clause());
                }
                items.push("type t = u32;".to_string());
                items.push(format!("{}: func();", self.fresh("fn")));
                self.r.shuffle(&mut items);
                writeln!(out, "interface {id} {{ {} }}", items.join(" ")).unwrap();
                self.local_ifaces.push(id);
            }
            6 | 7 | 8 => {
                let id = self.fresh("w");
                let mut s = format!("world {id} {{");
                let n = 1 + self.r.below(5);
                let mut used_paths: Vec<String> = Vec::new();
                for _ in 0..n {
                    match self.r.below(10) {
                        9 => write!(s, " type {} = u32;", self.fresh("wt")).unwrap(),
                        0 => write!(s, " {}", self.use_clause()).unwrap(),
                        1 | 2 => {
                            let p = self.iface_path();
                            let dir = if self.r.chance(1, 2) { "import" } else { "export" };
                            let key = format!("{dir} {p}");
                            if !used_paths.contains(&key) || self.r.chance(1, 10) {
                                write!(s, " {key};").unwrap();
                                used_paths.push(key);
                            }
                        }
                        3 | 4 => {
                            let dir = if self.r.chance(1, 2) { "import" } else { "export" };
                            let name = self.fresh("m");
                            let body = self.inline_iface();
                            write!(s, " {dir} {name}: {body};").unwrap();
                        }
                        5 => {
                            let dir = if self.r.chance(1, 2) { "import" } else { "export" };
                            write!(s, " {dir} {}: func();", self.fresh("m")).unwrap();
                        }
                        6 => {
                            let p = if self.r.chance(1, 20) { (*self.r.pick(BAD_PATHS)).to_string() } else { (*self.r.pick(WORLD_PATHS)).to_string() };
                            write!(s, " include {p};").unwrap();
                        }
                        7 => {
                            if !self.local_worlds.is_empty() {
                                let w = self.local_worlds[self.r.below(self.local_worlds.len())].clone();
                                write!(s, " include {w};").unwrap();
                            }
                        }
                        _ => {
                            if !self.local_ifaces.is_empty() {
                                let l = self.local_ifaces[self.r.below(self.local_ifaces.len())].clone();
                                let dir = if self.r.chance(1, 2) { "import" } else { "export" };
                                let key = format!("{dir} {l}");
                                if !used_paths.contains(&key) {
                                    write!(s, " {key};").unwrap();
                                    used_paths.push(key);
                                }
                            }
                        }
                    }
                }
                s.push_str(" }");
                writeln!(out, "{s}").unwrap();
                self.local_worlds.push(id);
            }
            9 => writeln!(out, "type {} = u32;", self.fresh("t")).unwrap(),
            10..=12 => {
                let id = self.fresh("v");
                let e = self.new_expr(0);
                let post = if self.r.chance(1, 6) { [".run", ".out", "[\"s\"]"][self.r.below(3)] } else { "" };
                writeln!(out, "let {id} = {e}{post};").unwrap();
            }
            _ => {
                let e = self.new_expr(0);
                let name = self.fresh("out");
                writeln!(out, "export {e} as {name};").unwrap();
            }
        }
    }
    fn document(&mut self) -> String {
        let mut s = format!("package {SELF}");
        if self.r.chance(1, 4) {
            s.push_str("@0.1.0");
        }
        if self.r.chance(1, 6) {
            let p = if self.r.chance(1, 12) { (*self.r.pick(BAD_PATHS)).to_string() } else { (*self.r.pick(WORLD_PATHS)).to_string() };
            write!(s, " targets {p}").unwrap();
        }
        s.push_str(";\n");
        let n = 1 + self.r.below(8);
        for _ in 0..n {
            self.statement(&mut s);
        }
        s
    }
}

// ------------------------------------------------------------------------------------------
// the real AST -> protocol tokens

fn ver(v: &Option<semver::Version>) -> String {
    v.as_ref().map(|v| v.to_string()).unwrap_or_default()
}

thread_local! {
    static POSITIONS: std::cell::RefCell<Vec<String>> = const { std::cell::RefCell::new(Vec::new()) };
    static CTX: std::cell::RefCell<Vec<&'static str>> = const { std::cell::RefCell::new(Vec::new()) };
}

fn with_ctx<T>(c: &'static str, f: impl FnOnce() -> T) -> T {
    CTX.with(|x| x.borrow_mut().push(c));
    let r = f();
    CTX.with(|x| x.borrow_mut().pop());
    r
}

fn position(what: &str, versioned: bool) {
    // nesting is summarised: the statement kind, then whether inside a named argument / parentheses
    let ctx = CTX.with(|x| {
        let x = x.borrow();
        let mut parts: Vec<&str> = x.iter().filter(|c| **c != "named-arg" && **c != "paren").cloned().collect();
        if x.contains(&"named-arg") {
            parts.push("in-named-arg");
        }
        if x.contains(&"paren") {
            parts.push("in-paren");
        }
        parts.join("/")
    });
    POSITIONS.with(|p| p.borrow_mut().push(format!("pos:{ctx}/{what}{}", if versioned { "@v" } else { "" })));
}

fn t_path(p: &PackagePath, out: &mut Vec<String>) {
    position("path", p.version.is_some());
    out.push(p.name.to_string());
    out.push(ver(&p.version));
    out.push(p.segments.to_string());
}

fn t_use(u: &Use, out: &mut Vec<String>) {
    out.push("U".into());
    match &u.path {
        UsePath::Package(p) => {
            out.push("P".into());
            with_ctx("use", || t_path(p, out));
        }
        UsePath::Ident(id) => {
            out.push("X".into());
            out.push(id.string.to_string());
        }
    }
}

fn t_iitems(items: &[InterfaceItem], out: &mut Vec<String>) {
    out.push(items.len().to_string());
    for i in items {
        match i {
            InterfaceItem::Use(u) => t_use(u, out),
            InterfaceItem::Type(_) => out.push("T".into()),
            InterfaceItem::Export(_) => out.push("E".into()),
        }
    }
}

fn t_wpath(p: &WorldItemPath, out: &mut Vec<String>) {
    match p {
        WorldItemPath::Named(n) => {
            out.push("M".into());
            out.push(n.id.string.to_string());
            match &n.ty {
                ExternType::Ident(_) => out.push("X".into()),
                ExternType::Func(_) => out.push("F".into()),
                ExternType::Interface(i) => {
                    out.push("N".into());
                    with_ctx("inline", || t_iitems(&i.items, out));
                }
            }
        }
        WorldItemPath::Package(p) => {
            out.push("P".into());
            t_path(p, out);
        }
        WorldItemPath::Ident(id) => {
            out.push("X".into());
            out.push(id.string.to_string());
        }
    }
}

fn t_expr(e: &Expr, out: &mut Vec<String>) {
    match &e.primary {
        PrimaryExpr::New(n) => {
            position("new", n.package.version.is_some());
            out.push("N".into());
            out.push(n.package.name.to_string());
            out.push(ver(&n.package.version));
            out.push(n.arguments.len().to_string());
            for a in &n.arguments {
                match a {
                    InstantiationArgument::Inferred(id) => {
                        out.push("I".into());
                        out.push(id.string.to_string());
                    }
                    InstantiationArgument::Spread(id) => {
                        out.push("S".into());
                        out.push(id.string.to_string());
                    }
                    InstantiationArgument::Named(n) => {
                        out.push("M".into());
                        with_ctx("named-arg", || t_expr(&n.expr, out));
                    }
                    InstantiationArgument::Fill(_) => out.push("F".into()),
                }
            }
        }
        PrimaryExpr::Nested(n) => {
            out.push("P".into());
            with_ctx("paren", || t_expr(&n.inner, out));
        }
        PrimaryExpr::Ident(id) => {
            out.push("X".into());
            out.push(id.string.to_string());
        }
    }
    out.push(e.postfix.len().to_string());
}

fn t_doc(d: &Document, out: &mut Vec<String>) {
    out.push(d.directive.package.name.to_string());
    out.push(ver(&d.directive.package.version));
    match &d.directive.targets {
        None => out.push("0".into()),
        Some(p) => {
            out.push("1".into());
            with_ctx("targets", || t_path(p, out));
        }
    }
    out.push(d.statements.len().to_string());
    for s in &d.statements {
        match s {
            Statement::Import(i) => {
                out.push("SI".into());
                out.push(i.id.string.to_string());
                match &i.ty {
                    ImportType::Package(p) => {
                        out.push("P".into());
                        with_ctx("import", || t_path(p, out));
                    }
                    ImportType::Func(_) => out.push("F".into()),
                    ImportType::Interface(i) => {
                        out.push("N".into());
                        with_ctx("import/inline", || t_iitems(&i.items, out));
                    }
                    ImportType::Ident(id) => {
                        out.push("X".into());
                        out.push(id.string.to_string());
                    }
                }
            }
            Statement::Type(t) => {
                out.push("ST".into());
                match t {
                    TypeStatement::Interface(i) => {
                        out.push("N".into());
                        out.push(i.id.string.to_string());
                        with_ctx("interface", || t_iitems(&i.items, out));
                    }
                    TypeStatement::World(w) => {
                        out.push("W".into());
                        out.push(w.id.string.to_string());
                        out.push(w.items.len().to_string());
                        for it in &w.items {
                            match it {
                                WorldItem::Use(u) => with_ctx("world", || t_use(u, out)),
                                WorldItem::Type(_) => out.push("T".into()),
                                WorldItem::Import(i) => {
                                    out.push("I".into());
                                    with_ctx("world/import", || t_wpath(&i.path, out));
                                }
                                WorldItem::Export(e) => {
                                    out.push("E".into());
                                    with_ctx("world/export", || t_wpath(&e.path, out));
                                }
                                WorldItem::Include(i) => {
                                    out.push("C".into());
                                    match &i.world {
                                        WorldRef::Package(p) => {
                                            out.push("P".into());
                                            with_ctx("world/include", || t_path(p, out));
                                        }
                                        WorldRef::Ident(id) => {
                                            out.push("X".into());
                                            out.push(id.string.to_string());
                                        }
                                    }
                                }
                            }
                        }
                    }
                    TypeStatement::Type(_) => out.push("T".into()),
                }
            }
            Statement::Let(l) => {
                out.push("SL".into());
                out.push(l.id.string.to_string());
                with_ctx("let", || t_expr(&l.expr, out));
            }
            Statement::Export(e) => {
                out.push("SE".into());
                with_ctx("export", || t_expr(&e.expr, out));
            }
        }
    }
}

// ------------------------------------------------------------------------------------------
// observation

fn key_str(name: &str, version: Option<&semver::Version>) -> String {
    match version {
        Some(v) => format!("{name}@{v}"),
        None => name.to_string(),
    }
}

/// outcome of a resolution, canonical: error variant + rendered message (messages carry only
/// names of the document), or the names and sorts of the imports/exports of the encoded output
fn outcome(doc: &Document, packages: IndexMap<BorrowedPackageKey, Vec<u8>>) -> String {
    match doc.resolve(packages) {
        Err(e) => {
            let dbg = format!("{e:?}");
            format!("err {} {}", dbg.split([' ', '{', '(']).next().unwrap_or(""), e)
        }
        Ok(res) => match res.encode(wac_graph::EncodeOptions { define_components: true, validate: false, processor: None }) {
            Err(e) => format!("encode-err {e}"),
            Ok(bytes) => {
                let mut v = wasmparser::Validator::new_with_features(wasmparser::WasmFeatures::all());
                match v.validate_all(&bytes) {
                    Err(e) => format!("ok invalid-output {e}"),
                    Ok(_) => {
                        let mut names: Vec<String> = Vec::new();
                        let mut depth = 0;
                        for p in wasmparser::Parser::new(0).parse_all(&bytes) {
                            match p {
                                Ok(wasmparser::Payload::ComponentSection { .. }) | Ok(wasmparser::Payload::ModuleSection { .. }) => depth += 1,
                                Ok(wasmparser::Payload::End(_)) => {
                                    if depth > 0 {
                                        depth -= 1
                                    }
                                }
                                Ok(wasmparser::Payload::ComponentImportSection(s)) if depth == 0 => {
                                    for i in s.into_iter().flatten() {
                                        names.push(format!("import {}", i.name.0));
                                    }
                                }
                                Ok(wasmparser::Payload::ComponentExportSection(s)) if depth == 0 => {
                                    for e in s.into_iter().flatten() {
                                        names.push(format!("export {} {:?}", e.name.0, e.kind));
                                    }
                                }
                                _ => {}
                            }
                        }
                        names.sort();
                        format!("ok {}", names.join(","))
                    }
                }
            }
        },
    }
}

fn run_case(out: &mut Out, lib: &[LibPkg], text: &str, self_new: bool) {
    let doc = match Document::parse(text) {
        Ok(d) => d,
        Err(e) => {
            let id = out.case(false, "doc-failed", &[]);
            out.fail(&id, "generated document does not parse (harness bug)", &format!("{e:?}\n{text}"));
            return;
        }
    };
    let mut fields = vec![esc(text)];
    let mut toks = Vec::new();
    t_doc(&doc, &mut toks);
    for p in POSITIONS.with(|p| std::mem::take(&mut *p.borrow_mut())) {
        out.count(&p);
    }
    fields.extend(toks.iter().map(|t| esc(t)));

    let all = || -> IndexMap<BorrowedPackageKey, Vec<u8>> {
        lib.iter().map(|p| (BorrowedPackageKey::from_name_and_version(&p.name, p.version.as_ref()), p.bytes.clone())).collect()
    };
    let mut fail: Option<(String, String)> = None;
    let obs = guarded(std::panic::AssertUnwindSafe(|| {
        match wac_resolver::packages(&doc) {
            Err(_) => {
                out.count("discovery:err");
                (vec!["err".to_string(), "0".to_string(), "0".to_string()], None)
            }
            Ok(keys) => {
                out.count("discovery:ok");
                let found: Vec<String> = keys.keys().map(|k| key_str(k.name, k.version)).collect();
                // resolve with everything, logging what is asked for
                let _ = wac_parser::resolution::verif::take_requested_packages();
                let o_all = outcome(&doc, all());
                let hook: Vec<String> = wac_parser::resolution::verif::take_requested_packages().into_iter().map(|(n, v)| key_str(&n, v.as_ref())).collect();
                // resolve with exactly the discovered packages
                let only: IndexMap<BorrowedPackageKey, Vec<u8>> = lib
                    .iter()
                    .filter(|p| keys.contains_key(&BorrowedPackageKey::from_name_and_version(&p.name, p.version.as_ref())))
                    .map(|p| (BorrowedPackageKey::from_name_and_version(&p.name, p.version.as_ref()), p.bytes.clone()))
                    .collect();
                let o_disc = outcome(&doc, only);
                let _ = wac_parser::resolution::verif::take_requested_packages();
                let mut f = vec!["ok".to_string(), found.len().to_string()];
                f.extend(found);
                f.push(hook.len().to_string());
                f.extend(hook.iter().cloned());
                (f, Some((o_all, o_disc, hook.len())))
            }
        }
    }));
    match obs {
        Err(msg) => {
            let id = out.case(true, "doc-failed", &[]);
            out.fail(&id, "panic in packages/resolve/encode", &format!("{msg}\n{text}"));
        }
        Ok((f, outcomes)) => {
            fields.extend(f.iter().map(|t| esc(t)));
            let mut nontrivial = self_new;
            if let Some((a, d, nhook)) = &outcomes {
                nontrivial = *nhook > 0;
                out.count(&format!("outcome:{}", a.split(' ').take(2).collect::<Vec<_>>().join(" ")));
                out.add("requested-keys", *nhook as u64);
                if std::env::var_os("WACV_DEBUG").is_some() && a.contains("invalid-output") {
                    eprintln!("{a}\n{text}\n");
                }
                if a != d {
                    fail = Some(("resolution with exactly the discovered packages differs from resolution with all packages".into(), format!("all: {a}\ndiscovered only: {d}\n{text}")));
                }
            }
            let id = out.case(nontrivial, "doc", &fields);
            if let Some((sig, detail)) = fail {
                out.fail(&id, &sig, &detail);
            }
        }
    }
}

fn unesc(s: &str) -> String {
    let mut out = String::new();
    let mut cs = s.chars();
    while let Some(c) = cs.next() {
        if c == '\\' {
            let hex: String = cs.by_ref().take_while(|c| *c != ';').collect();
            if hex != "e" {
                if let Some(ch) = u32::from_str_radix(&hex, 16).ok().and_then(char::from_u32) {
                    out.push(ch);
                }
            }
        } else {
            out.push(c);
        }
    }
    out
}

fn main() {
    let args = Args::parse();
    quiet_panics();
    let shard = args.num("shard", 0);
    let nshards = args.num("nshards", 1).max(1);
    let mut out = Out::create(&args.out, &format!("c17-{shard}-"));
    let lib = library();
    if let Some(path) = &args.replay {
        let text = std::fs::read_to_string(path).expect("read replay file");
        for line in text.lines() {
            let Some(rest) = line.strip_prefix("CASE\t") else { continue };
            let parts: Vec<&str> = rest.split('\t').collect();
            if parts.len() > 3 && parts[2] == "doc" {
                run_case(&mut out, &lib, &unesc(parts[3]), false);
            }
        }
        out.finish();
        return;
    }
    let mut r = Rng::new(args.seed.wrapping_mul(1000).wrapping_add(shard as u64 + 17));
    let total = args.num("documents", if args.thorough() { 50_000 } else { 1_000 });
    for _ in 0..(total / nshards) {
        let mut g = Gen { r: &mut r, n: 0, local_ifaces: vec![], local_worlds: vec![], plain_imports: vec![], self_new: false };
        let text = g.document();
        let self_new = g.self_new;
        run_case(&mut out, &lib, &text, self_new);
    }
    out.finish();
}
