//! C15: `are_semver_compatible`, `NameMap::{insert,get}` and (to validate the semver model)
//! `semver::Version::{parse, cmp}` on a small universe exhaustively plus random larger inputs.
use wac_types::{are_semver_compatible, NameMap, NameMapNoIntern};
use wacv::*;

fn universe() -> Vec<String> {
    let mut v = Vec::new();
    for base in ["a:b/c", "x"] {
        v.push(base.to_string());
        for ma in 0..=3 {
            for mi in 0..=3 {
                for pa in 0..=3 {
                    for pre in ["", "-rc"] {
                        for build in ["", "+meta", "+m.2"] {
                            v.push(format!("{base}@{ma}.{mi}.{pa}{pre}{build}"));
                        }
                    }
                }
            }
        }
        for bad in ["@", "@1", "@1.0", "@1.0.0.0", "@01.0.0", "@1.00.0", "@1.0.0-", "@1.0.0+", "@1.0.0-01", "@1.0.0-a..b",
                    "@v1.0.0", "@1.0.0 ", "@1.0.0@2.0.0", "@1.2.3-0", "@1.2.3-00", "@1.2.3+00", "@1.2.3+a.b-c.0",
                    "@18446744073709551615.0.0", "@18446744073709551616.0.0", "@0.18446744073709551615.1",
                    "@1.0.0-rc.1", "@1.0.0-rc+b", "@2.0.0+1", "@2.0.0+01", "@2.0.0+1.a", "@2.0.0+a.1", "@0.1.0+z", "@0.1.0+a-"] {
            v.push(format!("{base}{bad}"));
        }
    }
    v
}

fn rand_version(r: &mut Rng) -> String {
    let num = |r: &mut Rng| -> String {
        match r.below(10) {
            0 | 8 | 9 => "0".into(),
            1 => "18446744073709551615".into(),
            2 => "18446744073709551616".into(),
            3 => format!("0{}", r.below(10)),
            4 => format!("{}", r.next()),
            _ => format!("{}", r.below(12)),
        }
    };
    let ident = |r: &mut Rng| -> String {
        let n = 1 + r.below(3);
        let mut segs = Vec::new();
        for _ in 0..n {
            let s = match r.below(7) {
                0 => "".to_string(),
                1 => format!("0{}", r.below(10)),
                2 => format!("{}", r.below(30)),
                3 => "rc".into(),
                4 => "a-b".into(),
                5 => "-".into(),
                _ => ["alpha", "B", "x1", "1x", "00a"][r.below(5)].to_string(),
            };
            segs.push(s);
        }
        segs.join(".")
    };
    let mut s = format!("{}.{}.{}", num(r), num(r), num(r));
    if r.chance(1, 3) {
        s.push('-');
        s.push_str(&ident(r));
    }
    if r.chance(1, 3) {
        s.push('+');
        s.push_str(&ident(r));
    }
    if r.chance(1, 12) {
        s.push_str(["", " ", ".", "@1.0.0", "é", "+", "-"][r.below(7)]);
    }
    if r.chance(1, 20) {
        s = s.replacen('.', ["", "..", ",", "@"][r.below(4)], 1);
    }
    s
}

fn rand_name(r: &mut Rng) -> String {
    let base = ["a:b/c", "x", "é:ü/ß", "", "a.b", "long:namespace/interface-name", "a:b/c@", "p+q", "a-b"][r.below(9)];
    match r.below(10) {
        0 => base.to_string(),
        _ => format!("{}@{}", base, rand_version(r)),
    }
}

fn show_ver(s: &str) -> String {
    match semver::Version::parse(s) {
        Ok(v) => format!("{}.{}.{}|{}|{}", v.major, v.minor, v.patch, v.pre.as_str(), v.build.as_str()),
        Err(_) => "ERR".into(),
    }
}

fn map_case(out: &mut Out, names: &[(String, bool)], queries: &[String]) {
    let mut map: NameMap<String, usize> = NameMap::default();
    let mut intern = NameMapNoIntern;
    let mut f = vec![names.len().to_string()];
    for (i, (n, sh)) in names.iter().enumerate() {
        let ok = map.insert(n, &mut intern, *sh, i).is_ok();
        f.push(esc(n));
        f.push(if *sh { "1" } else { "0" }.into());
        f.push(if ok { "1" } else { "0" }.into());
    }
    f.push(queries.len().to_string());
    let mut hit_alt = false;
    for q in queries {
        let r = map.get(q, &intern).copied();
        if r.is_some() && !names.iter().any(|(n, _)| n == q) {
            hit_alt = true;
        }
        f.push(esc(q));
        f.push(match r {
            Some(i) => i.to_string(),
            None => "none".into(),
        });
    }
    if hit_alt {
        out.count("map:semver-fallback-hit");
    }
    out.case(hit_alt || names.len() > 1, "map", &f);
}

fn permutations<T: Clone>(xs: &[T]) -> Vec<Vec<T>> {
    if xs.len() <= 1 {
        return vec![xs.to_vec()];
    }
    let mut out = Vec::new();
    for i in 0..xs.len() {
        let mut rest = xs.to_vec();
        let x = rest.remove(i);
        for mut p in permutations(&rest) {
            p.insert(0, x.clone());
            out.push(p);
        }
    }
    out
}

fn main() {
    let args = Args::parse();
    // shards of one run use different random streams (and different strides of the universe)
    let shard = args.num("shard", 0) as u64;
    let mut r = Rng::new(args.seed.wrapping_mul(1_000_003).wrapping_add(shard));
    let mut out = Out::create(&args.out, &format!("c15-{shard}-"));
    let uni = universe();
    let thorough = args.thorough();

    if let Some(path) = &args.replay {
        // re-run the *inputs* of recorded cases against the current implementation
        for (kind, f) in replay_cases(path) {
            match kind.as_str() {
                "compat" if f.len() >= 2 => {
                    let c = are_semver_compatible(&f[0], &f[1]);
                    out.case(true, "compat", &[esc(&f[0]), esc(&f[1]), if c { "1" } else { "0" }.into()]);
                }
                "ver" if !f.is_empty() => {
                    out.case(true, "ver", &[esc(&f[0]), esc(&show_ver(&f[0]))]);
                }
                "vlt" if f.len() >= 2 => {
                    if let (Ok(a), Ok(b)) = (semver::Version::parse(&f[0]), semver::Version::parse(&f[1])) {
                        out.case(true, "vlt", &[esc(&f[0]), esc(&f[1]), if a < b { "1" } else { "0" }.into()]);
                    }
                }
                "map" if !f.is_empty() => {
                    let n: usize = f[0].parse().unwrap_or(0);
                    let mut ins = Vec::new();
                    for i in 0..n {
                        if let (Some(name), Some(sh)) = (f.get(1 + 3 * i), f.get(2 + 3 * i)) {
                            ins.push((name.clone(), sh == "1"));
                        }
                    }
                    let qstart = 1 + 3 * n;
                    let nq: usize = f.get(qstart).and_then(|s| s.parse().ok()).unwrap_or(0);
                    let queries: Vec<String> = (0..nq).filter_map(|i| f.get(qstart + 1 + 2 * i).cloned()).collect();
                    map_case(&mut out, &ins, &queries);
                }
                _ => {}
            }
        }
        out.finish();
        return;
    }

    // 1. pairs over the small universe: all in thorough, a 1/stride sample in quick
    let stride = if thorough { 1 } else { args.num("stride", 20) };
    let mut k = r.below(stride);
    for a in &uni {
        for b in &uni {
            k += 1;
            if k % stride != 0 {
                continue;
            }
            let c = are_semver_compatible(a, b);
            if c && a != b {
                out.count("compat:true-distinct");
            }
            out.case(a != b, "compat", &[esc(a), esc(b), if c { "1" } else { "0" }.into()]);
        }
    }
    // 2. version parsing / ordering on every universe version string and random ones
    let mut versions: Vec<String> = uni.iter().filter_map(|n| n.find('@').map(|i| n[i + 1..].to_string())).collect();
    let nrand = if thorough { 200_000 } else { 6_000 };
    for _ in 0..nrand {
        versions.push(rand_version(&mut r));
    }
    versions.sort();
    versions.dedup();
    let mut releases = Vec::new();
    for v in &versions {
        let s = show_ver(v);
        if s != "ERR" {
            out.count("ver:ok");
            if semver::Version::parse(v).unwrap().pre.is_empty() {
                releases.push(v.clone());
            }
        } else {
            out.count("ver:err");
        }
        out.case(true, "ver", &[esc(v), esc(&s)]);
    }
    let npairs = if thorough { 300_000 } else { 8_000 };
    for _ in 0..npairs {
        let a = r.pick(&releases).clone();
        let b = r.pick(&releases).clone();
        let lt = semver::Version::parse(&a).unwrap() < semver::Version::parse(&b).unwrap();
        out.case(a != b, "vlt", &[esc(&a), esc(&b), if lt { "1" } else { "0" }.into()]);
    }
    // 3. random pairs of larger names
    let n = if thorough { 300_000 } else { 8_000 };
    for _ in 0..n {
        let a = rand_name(&mut r);
        let b = if r.chance(1, 4) {
            // same base, other version: the interesting diagonal
            match a.find('@') {
                Some(i) => format!("{}@{}", &a[..i], rand_version(&mut r)),
                None => rand_name(&mut r),
            }
        } else {
            rand_name(&mut r)
        };
        let c = are_semver_compatible(&a, &b);
        if c && a != b {
            out.count("compat:true-distinct");
        }
        out.case(a != b, "compat", &[esc(&a), esc(&b), if c { "1" } else { "0" }.into()]);
    }
    // 4. NameMap: all insertion orders of up to 4 distinct entries from the universe, queried
    //    with every name of a query set; plus random longer sequences with shadowing
    let sets = if thorough { 4_000 } else { 150 };
    let valid: Vec<&String> = uni.iter().filter(|n| n.contains('@')).collect();
    for _ in 0..sets {
        let base_pick = r.below(2);
        let k = 1 + r.below(4);
        let mut names: Vec<String> = Vec::new();
        while names.len() < k {
            // bias to one base and one or two tracks so that fallbacks are hit
            let n = if r.chance(3, 4) {
                let base = ["a:b/c", "x"][base_pick];
                let ma = r.below(2) + if r.chance(1, 2) { 0 } else { 1 };
                format!("{base}@{}.{}.{}{}{}", ma, r.below(3), r.below(4), if r.chance(1, 8) { "-rc" } else { "" },
                        ["", "", "+meta", "+b2", "+1", "+01", "+b.7", "+2024.01.15"][r.below(8)])
            } else {
                (*r.pick(&valid)).clone()
            };
            if !names.contains(&n) {
                names.push(n);
            }
        }
        let mut queries: Vec<String> = names.clone();
        for _ in 0..6 {
            let base = ["a:b/c", "x"][if r.chance(5, 6) { base_pick } else { 1 - base_pick }];
            queries.push(format!("{base}@{}.{}.{}{}{}", r.below(3), r.below(3), r.below(5), if r.chance(1, 10) { "-rc" } else { "" },
                                 ["", "", "", "+q.1"][r.below(4)]));
        }
        queries.push(["a:b/c", "x"][base_pick].to_string());
        for p in permutations(&names) {
            let ins: Vec<(String, bool)> = p.into_iter().map(|n| (n, false)).collect();
            map_case(&mut out, &ins, &queries);
        }
    }
    let nseq = if thorough { 30_000 } else { 1_000 };
    for _ in 0..nseq {
        let k = 1 + r.below(8);
        let mut ins = Vec::new();
        for _ in 0..k {
            let n = if r.chance(1, 3) && !ins.is_empty() {
                let (n, _): &(String, bool) = r.pick(&ins);
                n.clone()
            } else {
                rand_name(&mut r)
            };
            ins.push((n, r.chance(1, 2)));
        }
        let mut queries: Vec<String> = ins.iter().map(|(n, _)| n.clone()).collect();
        for _ in 0..4 {
            queries.push(rand_name(&mut r));
        }
        map_case(&mut out, &ins, &queries);
    }
    out.finish();
}
