//! C19: the built `wac` binary against in-process library calls.
//!
//! The binary is built from `$WACV_REPO` (cargo, offline, `--no-default-features --features wit`,
//! into `$WACV_TARGET/c19-wac`, by `--prebuild 1`) and run in a scratch directory over all combinations of the documented
//! flags of `compose` (x dependency-location variants x compositions that succeed or fail at each
//! stage), `plug`, `targets` and `parse`.  For every run the harness also performs the library
//! pipeline in-process — for `compose` once per choice of `EncodeOptions` (define_components x
//! validate) — and sends flags, library results and the observed exit status / stdout / stderr /
//! output file to the Lean driver, which computes the Plan from the flags and judges.
//!
//! Decided by the harness itself (`!FAIL`): `-t` output that does not re-assemble (`wat`) into a
//! valid component whose printed form is the same text; a failing run that leaves a file at the
//! `-o` path, or that changes or removes a file that was there before the run (half of the `-o`
//! runs start with one); a crash (signal) of the binary.
#[path = "../small_util.rs"]
mod small_util;

use indexmap::IndexMap;
use std::collections::HashMap;
use std::fs;
use std::path::{Path, PathBuf};
use std::process::Command;
use wac_graph::{CompositionGraph, EncodeOptions};
use wac_parser::Document;
use wac_resolver::{packages, FileSystemPackageResolver};
use wac_types::{ItemKind, Package, Types};
use wacv::*;

// ------------------------------------------------------------------------------------------
// fixtures

const NAME_WAT: &str = r#"(component
  (core module $m (func (export "f")))
  (core instance $i (instantiate $m))
  (func $f (canon lift (core func $i "f")))
  (export "f" (func $f)))"#;

const GREETER_WAT: &str = r#"(component
  (import "f" (func $f))
  (core func $cf (canon lower (func $f)))
  (core module $m (import "" "f" (func)) (func (export "g") call 0))
  (core instance $i (instantiate $m (with "" (instance (export "f" (func $cf))))))
  (func $g (canon lift (core func $i "g")))
  (export "g" (func $g)))"#;

/// a second provider of `f` with different bytes (to tell overrides apart)
const NAME2_WAT: &str = r#"(component
  (core module $m (func (export "f") nop))
  (core instance $i (instantiate $m))
  (func $f (canon lift (core func $i "f")))
  (export "f" (func $f)))"#;

/// two components whose implicit import `i` has a nested instance of different widths
const NEST1_WAT: &str = r#"(component
  (import "i" (instance (export "x" (instance (export "a" (func)))))))"#;
const NEST2_WAT: &str = r#"(component
  (import "i" (instance (export "x" (instance (export "a" (func)) (export "b" (func)))))))"#;

/// imports `f` and exports it again under the same name (chains of these are generated)
const PASS_WAT: &str = r#"(component
  (import "f" (func $f))
  (core func $cf (canon lower (func $f)))
  (core module $m (import "" "f" (func)) (func (export "f") call 0))
  (core instance $i (instantiate $m (with "" (instance (export "f" (func $cf))))))
  (func $g (canon lift (core func $i "f")))
  (export "f" (func $g)))"#;

/// exports `h`, which no socket here imports
const OTHER_WAT: &str = r#"(component
  (core module $m (func (export "h")))
  (core instance $i (instantiate $m))
  (func $h (canon lift (core func $i "h")))
  (export "h" (func $h)))"#;

/// imports `f` with a different type than `greeter` / `pass` do (implicit-import merge conflict)
const F2_WAT: &str = r#"(component
  (import "f" (func (result u32))))"#;

/// exports an instance `more` holding a record `r` and a function `g(a: r)`: exporting an alias
/// of `g` from a composition encodes to a component that the validator rejects (known finding
/// `enc-named-type-out-of-scope-exported-function`), so the composition resolves and encodes,
/// and fails (only) in the validation step of `encode`
const DEEP_WAT: &str = r#"(component
  (component $C
    (type $r' (record (field "x" u32)))
    (export $r "r" (type $r'))
    (core module $m (func (export "g") (param i32)))
    (core instance $i (instantiate $m))
    (func $g (param "a" $r) (canon lift (core func $i "g")))
    (export "g" (func $g)))
  (instance $inst (instantiate $C))
  (export "more" (instance $inst)))"#;

/// what a pre-existing file at the `-o` path holds before the run
const SENTINEL: &[u8] = b"previous contents of the output path\n";

/// a generated composition: a chain of `len` pass-through instances between `name` and
/// `greeter`, optionally leaving the first link to an implicit import and exporting extras
fn chain(len: usize, implicit_head: bool, export_all: bool) -> String {
    let mut s = String::from("package t:comp;\n");
    let mut prev = if implicit_head {
        None
    } else {
        s.push_str("let n = new t:name {};\n");
        Some("n".to_string())
    };
    for i in 0..len {
        match &prev {
            Some(p) => s.push_str(&format!("let p{i} = new t:pass {{ f: {p}.f }};\n")),
            None => s.push_str(&format!("let p{i} = new t:pass {{ ... }};\n")),
        }
        if export_all {
            s.push_str(&format!("export p{i}.f as link{i};\n"));
        }
        prev = Some(format!("p{i}"));
    }
    match &prev {
        Some(p) => s.push_str(&format!("let g = new t:greeter {{ f: {p}.f }};\n")),
        None => s.push_str("let g = new t:greeter { ... };\n"),
    }
    s.push_str("export g.g;\n");
    s
}

/// a generated composition that parses and resolves and fails in `encode`: a chain with one of
/// three endings — an explicit import of the name the chain's head imports implicitly
/// (import conflict), a second implicit importer of `f` with another type (merge conflict), or
/// an export that only the validator rejects (validation failure; passes with `--no-validate`)
fn encode_failing(r: &mut Rng) -> (&'static str, String) {
    let len = r.below(3);
    match r.below(3) {
        0 => {
            let mut s = chain(len, true, r.chance(1, 2));
            if r.chance(1, 2) {
                s = s.replacen("package t:comp;\n", "package t:comp;\nimport f: func();\n", 1);
            } else {
                s.push_str("import f: func();\n");
            }
            ("generated-import-conflict", s)
        }
        1 => {
            let mut s = chain(len, true, r.chance(1, 2));
            s.push_str("let other = new t:f2 { ... };\n");
            ("generated-merge-conflict", s)
        }
        _ => {
            let mut s = chain(len, r.chance(1, 2), r.chance(1, 2));
            s.push_str("let d = new t:deep {};\nexport d.more.g as dg;\n");
            ("generated-validation-failure", s)
        }
    }
}

fn compositions(r: &mut Rng, extra: usize, extra_failing: usize) -> Vec<(&'static str, String)> {
    let mut v = fixed_compositions();
    for _ in 0..extra {
        v.push(("generated-chain", chain(r.below(4), r.chance(1, 3), r.chance(1, 2))));
    }
    for _ in 0..extra_failing {
        v.push(encode_failing(r));
    }
    v
}

fn fixed_compositions() -> Vec<(&'static str, String)> {
    vec![
        ("ok", "package t:comp;\nlet n = new t:name {};\nlet g = new t:greeter { f: n.f };\nexport g.g;\n".into()),
        ("ok-implicit", "package t:comp;\nlet g = new t:greeter { ... };\nexport g.g;\n".into()),
        ("parse-error", "package t:comp;\nlet = new ;\n".into()),
        ("unknown-package", "package t:comp;\nlet n = new t:nope {};\nexport n.f;\n".into()),
        ("resolve-error", "package t:comp;\nlet n = new t:name {};\nlet g = new t:greeter { f: n.nosuch };\nexport g.g;\n".into()),
        ("missing-argument", "package t:comp;\nlet g = new t:greeter {};\nexport g.g;\n".into()),
        ("nested-merge", "package t:comp;\nlet a = new t:nest1 { ... };\nlet b = new t:nest2 { ... };\n".into()),
        // parse and resolve, fail in `Resolution::encode` (three ways)
        ("encode-import-conflict", "package t:comp;\nlet g = new t:greeter { ... };\nimport f: func();\nexport g.g;\n".into()),
        ("encode-merge-conflict", "package t:comp;\nlet g = new t:greeter { ... };\nlet h = new t:f2 { ... };\nexport g.g;\n".into()),
        ("encode-validation-failure", "package t:comp;\nlet d = new t:deep {};\nexport d.more.g as g;\n".into()),
        // 1001 instantiations: a correct encoding that the validator rejects for its size
        // (wasmparser's limit of 1000 instances) - a validation failure that does not depend on
        // any defect of the encoder staying unrepaired
        ("encode-validation-limit", {
            let mut s = String::from("package t:comp;\n");
            for i in 0..1001 {
                s.push_str(&format!("let n{i} = new t:name {{}};\n"));
            }
            s.push_str("export n0.f;\n");
            s
        }),
    ]
}

// ------------------------------------------------------------------------------------------

#[derive(Default)]
struct Intern {
    map: HashMap<Vec<u8>, String>,
}
impl Intern {
    fn tok(&mut self, b: &[u8]) -> String {
        if b.is_empty() {
            return "\\e;".into();
        }
        let n = self.map.len();
        self.map.entry(b.to_vec()).or_insert_with(|| format!("x{n}")).clone()
    }
}

struct Observed {
    exit: Option<i32>,
    stdout: Vec<u8>,
    stderr: Vec<u8>,
}

struct Ctx {
    wac: PathBuf,
    scratch: PathBuf,
    intern: Intern,
    n: u64,
}

impl Ctx {
    fn run_wac(&self, cwd: &Path, args: &[String]) -> Observed {
        let out = Command::new(&self.wac)
            .args(args)
            .current_dir(cwd)
            .env("HOME", cwd)
            .env("XDG_CONFIG_HOME", cwd.join(".config"))
            .env("XDG_CACHE_HOME", cwd.join(".cache"))
            .env("NO_COLOR", "1")
            // fewer runtime threads to spawn per process on a loaded machine (environment only)
            .env("TOKIO_WORKER_THREADS", "2")
            .env_remove("RUST_LOG")
            .env_remove("RUST_BACKTRACE")
            .stdin(std::process::Stdio::null())
            .output()
            .expect("spawn wac");
        Observed { exit: out.status.code(), stdout: out.stdout, stderr: out.stderr }
    }

    /// the observation fields shared by all kinds:
    /// exit, stdout token, ends-with-newline, token of stdout without that newline, stderr non-empty,
    /// stderr starts with "error", output file token (or `-` when there is none)
    fn obs_fields(&mut self, o: &Observed, file: Option<Vec<u8>>) -> Vec<String> {
        let nl = o.stdout.last() == Some(&b'\n');
        let stripped = if nl { &o.stdout[..o.stdout.len() - 1] } else { &o.stdout[..] };
        vec![
            o.exit.map(|c| c.to_string()).unwrap_or_else(|| "signal".into()),
            self.intern.tok(&o.stdout),
            if nl { "1" } else { "0" }.into(),
            self.intern.tok(stripped),
            if o.stderr.is_empty() { "0" } else { "1" }.into(),
            if o.stderr.starts_with(b"error") { "1" } else { "0" }.into(),
            match file {
                Some(b) => format!("F{}", self.intern.tok(&b)),
                None => "-".into(),
            },
        ]
    }
}

/// the library pipeline of `wac compose`
fn lib_compose(cwd: &Path, source: &str, deps_dir: &str, overrides: &[(String, String)], define: bool, validate: bool) -> Result<Vec<u8>, &'static str> {
    let contents = fs::read_to_string(cwd.join(source)).map_err(|_| "read")?;
    let document = Document::parse(&contents).map_err(|_| "parse")?;
    let mut keys = packages(&document).map_err(|_| "packages")?;
    let ov: HashMap<String, PathBuf> = overrides.iter().map(|(k, v)| (k.clone(), cwd.join(v))).collect();
    let resolver = FileSystemPackageResolver::new(cwd.join(deps_dir), ov, false);
    let found = resolver.resolve(&keys).map_err(|_| "packages")?;
    keys.retain(|k, _| !found.contains_key(k));
    if !keys.is_empty() {
        return Err("packages");
    }
    let resolution = document.resolve(found).map_err(|_| "resolve")?;
    resolution.encode(EncodeOptions { define_components: define, validate, ..Default::default() }).map_err(|e| match e {
        wac_parser::resolution::Error::ValidationFailure { .. } => "encode:validation",
        wac_parser::resolution::Error::ImportConflict { .. } => "encode:import-conflict",
        wac_parser::resolution::Error::InstantiationArgMergeFailure { .. } => "encode:merge-conflict",
        _ => "encode",
    })
}

/// What the run did to the `-o` path, as the token the driver reads (`-` = nothing written,
/// `F<content>` = this was written) — plus the harness's own verdict for a failing run.
/// With a file already at the path (`pre`), "nothing written" means: still there, byte-identical.
fn output_path_observation(out: &mut Out, pre: bool, file: Option<Vec<u8>>) -> (Option<Vec<u8>>, Option<&'static str>) {
    match (pre, file) {
        (false, None) => (None, None),
        (false, Some(b)) => (Some(b), Some("a failing run left a file at the output path")),
        (true, Some(b)) if b == SENTINEL => {
            out.count("output-path:pre-existing-file-untouched");
            (None, None)
        }
        (true, Some(b)) => (Some(b), Some("a failing run changed the file that was already at the output path")),
        (true, None) => (None, Some("a failing run removed the file that was already at the output path")),
    }
}

/// `plug:<stem>` names as the documentation describes them, groups in the given order
fn plug_names(groups: &[(String, Vec<String>)]) -> Vec<(String, String)> {
    let mut out = Vec::new();
    for (stem, members) in groups {
        for (i, p) in members.iter().enumerate() {
            let mut name = format!("plug:{stem}");
            if members.len() > 1 {
                name.push_str(&i.to_string());
            }
            out.push((name, p.clone()));
        }
    }
    out
}

fn lib_plug(cwd: &Path, socket: &str, pkgs: &[(String, String)]) -> Result<Vec<u8>, &'static str> {
    let mut graph = CompositionGraph::new();
    let bytes = fs::read(cwd.join(socket)).map_err(|_| "read")?;
    let socket = Package::from_bytes("socket", None, bytes, graph.types_mut()).map_err(|_| "socket")?;
    let socket = graph.register_package(socket).map_err(|_| "socket")?;
    let mut ids = Vec::new();
    for (name, path) in pkgs {
        let p = Package::from_file(name, None, cwd.join(path), graph.types_mut()).map_err(|_| "plug")?;
        ids.push(graph.register_package(p).map_err(|_| "register")?);
    }
    wac_graph::plug(&mut graph, ids, socket).map_err(|_| "plug")?;
    graph.encode(EncodeOptions::default()).map_err(|_| "encode")
}

fn permutations<T: Clone>(xs: &[T]) -> Vec<Vec<T>> {
    if xs.len() <= 1 {
        return vec![xs.to_vec()];
    }
    let mut out = Vec::new();
    for i in 0..xs.len() {
        let mut rest = xs.to_vec();
        let x = rest.remove(i);
        for mut p in permutations(&rest) {
            p.insert(0, x.clone());
            out.push(p);
        }
    }
    out
}

fn is_valid(bytes: &[u8]) -> bool {
    wasmparser::Validator::new_with_features(wasmparser::WasmFeatures::all()).validate_all(bytes).is_ok()
}

/// `-t` oracle: the text must assemble to a component that prints to the same text and that is
/// valid — unless validation was switched off and the binary form of the same result is itself
/// invalid (`binary` = what the library produced for the same options)
fn check_text(out: &mut Out, id: &str, text: &[u8], must_validate: bool, binary: Option<&[u8]>) {
    let Ok(s) = std::str::from_utf8(text) else {
        out.fail(id, "-t output is not UTF-8", "");
        return;
    };
    match wat::parse_str(s) {
        Err(e) => out.fail(id, "-t output does not assemble", &e.to_string()),
        Ok(bytes) => {
            let valid = is_valid(&bytes);
            let expected = must_validate || binary.map(is_valid).unwrap_or(true);
            if valid != expected {
                out.fail(id, "-t output assembles to a component whose validity differs from the binary output's", &format!("reassembled valid={valid}, expected valid={expected}"));
            } else if wasmprinter::print_bytes(&bytes).ok().as_deref() != Some(s) {
                out.fail(id, "-t output is not the printed form of the component it assembles to", "");
            } else if valid {
                out.count("text:reassembled-valid");
            } else {
                out.count("text:reassembled-invalid-as-binary(no-validate)");
            }
        }
    }
}

fn lib_field(intern: &mut Intern, r: &Result<Vec<u8>, &'static str>) -> String {
    match r {
        Err(stage) => format!("F:{stage}"),
        Ok(b) => {
            let text = wasmprinter::print_bytes(b).map(|s| s.into_bytes());
            match text {
                Ok(t) => format!("E:{}:{}", intern.tok(b), intern.tok(&t)),
                Err(_) => "F:print".into(),
            }
        }
    }
}

fn b(x: bool) -> String {
    if x { "1" } else { "0" }.into()
}

fn main() {
    let args = Args::parse();
    let shard = args.num("shard", 0);
    let nshards = args.num("nshards", 1).max(1);
    let Some(env) = small_util::env() else {
        eprintln!("c19: WACV_REPO / WACV_VERIF / WACV_TARGET must be set (run through ./check)");
        std::process::exit(2);
    };
    // The real binary, built from the repository under test into `$WACV_TARGET/c19-wac` with
    // `--no-default-features --features wit`: the default features minus `registry`.  The
    // registry feature only adds the `--registry URL` option and the registry fallback for
    // packages that are not found locally — neither is exercised here (there is no registry in
    // the sandbox) — and leaving it out avoids compiling the Warg client tree.
    // Built by `--prebuild 1`; a normal run only checks the source stamp.
    let tdir = PathBuf::from(&env.target).join("c19-wac");
    let wac_bin = tdir.join("debug/wac");
    let stamp = small_util::source_stamp(&small_util::repo_sources(&env, true), "wac --no-default-features --features wit");
    let (repo, tdir2) = (env.repo.clone(), tdir.clone());
    let built = small_util::ensure_built(&PathBuf::from(&env.target), "c19-wac", &stamp, &[wac_bin.clone()], move || {
        let manifest = PathBuf::from(&repo).join("Cargo.toml");
        small_util::cargo(
            Path::new(&repo),
            &tdir2,
            &["--bin", "wac", "--no-default-features", "--features", "wit", "--manifest-path", &manifest.to_string_lossy()],
            None,
        )
    });
    if let Err(e) = built {
        eprintln!("c19: building the wac binary failed:\n{e}");
        std::process::exit(3);
    }
    if args.extra.contains_key("prebuild") {
        return;
    }
    let scratch = small_util::scratch_base().join(format!("c19-{}-{}", std::process::id(), shard));
    let _ = fs::remove_dir_all(&scratch);
    fs::create_dir_all(&scratch).unwrap();
    let mut ctx = Ctx { wac: wac_bin.clone(), scratch: scratch.clone(), intern: Intern::default(), n: 0 };
    let mut out = Out::create(&args.out, &format!("c19-s{shard}-"));
    let mut r = Rng::new(args.seed ^ 0xC19);
    let thorough = args.thorough();

    let comp = |s: &str| wat::parse_str(s).unwrap();
    let fixtures: Vec<(&str, Vec<u8>)> = vec![
        ("name", comp(NAME_WAT)),
        ("greeter", comp(GREETER_WAT)),
        ("nest1", comp(NEST1_WAT)),
        ("nest2", comp(NEST2_WAT)),
        ("pass", comp(PASS_WAT)),
        ("f2", comp(F2_WAT)),
        ("deep", comp(DEEP_WAT)),
    ];
    let name2 = comp(NAME2_WAT);
    let other = comp(OTHER_WAT);

    // `--replay FILE`: only the cases whose tag (first field) occurs in a CASE line of the file
    let replay_tags: Option<std::collections::HashSet<String>> = args.replay.as_ref().map(|p| {
        fs::read_to_string(p)
            .unwrap_or_default()
            .lines()
            .filter_map(|l| l.strip_prefix("CASE\t"))
            .filter_map(|l| l.split('\t').nth(3).map(|t| t.to_string()))
            .collect()
    });
    let wanted = |tag: &str| replay_tags.as_ref().map(|s| s.contains(&esc(tag))).unwrap_or(true);
    let mut idx = 0usize;
    let mut mine = |idx: &mut usize| {
        *idx += 1;
        *idx % nshards == shard
    };

    // ---------------------------------------------------------------- compose
    // dependency-location variants: (label, directory holding the packages, --deps-dir flag, --dep flags, extra files)
    struct DepsVariant {
        label: &'static str,
        dir: &'static str,
        flag: Option<&'static str>,
        deps: Vec<(&'static str, &'static str)>,
        omit_name_from_dir: bool,
        /// where the WAC source lives (the default `deps` directory is relative to the working
        /// directory, not to the source file)
        source: &'static str,
    }
    let variants = vec![
        DepsVariant { label: "default-dir", dir: "deps", flag: None, deps: vec![], omit_name_from_dir: false, source: "input.wac" },
        DepsVariant { label: "deps-dir-flag", dir: "alt", flag: Some("alt"), deps: vec![], omit_name_from_dir: false, source: "input.wac" },
        DepsVariant { label: "dep-override", dir: "deps", flag: None, deps: vec![("t:name", "elsewhere/n.wasm")], omit_name_from_dir: true, source: "input.wac" },
        DepsVariant { label: "dep-override-beats-dir", dir: "deps", flag: None, deps: vec![("t:name", "elsewhere/n2.wasm")], omit_name_from_dir: false, source: "input.wac" },
        DepsVariant { label: "dep-twice-last-wins", dir: "deps", flag: None, deps: vec![("t:name", "elsewhere/n.wasm"), ("t:name", "elsewhere/n2.wasm")], omit_name_from_dir: true, source: "input.wac" },
        DepsVariant { label: "wrong-deps-dir", dir: "deps", flag: Some("nowhere"), deps: vec![], omit_name_from_dir: false, source: "input.wac" },
        DepsVariant { label: "source-in-subdir", dir: "deps", flag: None, deps: vec![], omit_name_from_dir: false, source: "sub/input.wac" },
        DepsVariant { label: "dangling-dep", dir: "deps", flag: None, deps: vec![("t:name", "elsewhere/missing.wasm")], omit_name_from_dir: false, source: "input.wac" },
    ];
    let all_compositions = compositions(&mut r, if thorough { 40 } else { 1 }, if thorough { 20 } else { 2 });
    let mut combo_no = 0usize;
    // -o runs whose library pipeline fails inside encode: [conflict (import / merge), validation]
    let mut late_failures_with_output = [0usize; 2];
    let mut lib_cache: HashMap<(String, &'static str, &'static str), Vec<Result<Vec<u8>, &'static str>>> = HashMap::new();
    for (clabel, source) in all_compositions.clone() {
        for v in &variants {
            combo_no += 1;
            // the flag product is complete for the main variants and sampled (1/2) for the others in quick
            for mask in 0..16u32 {
                let (no_validate, wat, import_deps, with_output) = (mask & 1 != 0, mask & 2 != 0, mask & 4 != 0, mask & 8 != 0);
                let take = mine(&mut idx);
                // quick: the full flag product for the default layout, a rotating quarter of it for
                // the other dependency-location variants (every combination still occurs for
                // every variant across the compositions); thorough and replay: everything
                let fails_early = matches!(clabel, "parse-error" | "unknown-package" | "resolve-error" | "missing-argument");
                let fails_late = clabel.starts_with("encode-") || (clabel.starts_with("generated-") && clabel != "generated-chain");
                let keep_every = match (v.label == "default-dir", fails_early) {
                    (true, false) => 1,
                    (false, false) if clabel == "encode-validation-limit" => 16,
                    (false, false) if fails_late => 8,
                    (true, true) => 2,
                    (false, false) => 4,
                    (false, true) => 16,
                };
                let sampled = !thorough && replay_tags.is_none() && (mask as usize + combo_no) % keep_every != 0;
                // half of the `-o` runs find a file already at the output path (a failing run has
                // to leave it byte-identical, a successful one replaces it); which half rotates
                // with the dependency variant and the composition
                let pre = with_output && (mask.count_ones() as usize + combo_no) % 2 == 0;
                let tag = format!("{clabel}|{}|{mask}|{}{}", v.label, source.len(), if pre { "|pre-existing-output" } else { "" });
                if !take || sampled || !wanted(&tag) {
                    continue;
                }
                ctx.n += 1;
                let cwd = ctx.scratch.join(format!("case{}", ctx.n));
                fs::create_dir_all(cwd.join(v.dir).join("t")).unwrap();
                fs::create_dir_all(cwd.join("elsewhere")).unwrap();
                for (n, bytes) in &fixtures {
                    if *n == "name" && v.omit_name_from_dir {
                        continue;
                    }
                    fs::write(cwd.join(v.dir).join("t").join(format!("{n}.wasm")), bytes).unwrap();
                }
                fs::write(cwd.join("elsewhere/n.wasm"), &fixtures[0].1).unwrap();
                fs::write(cwd.join("elsewhere/n2.wasm"), &name2).unwrap();
                fs::create_dir_all(cwd.join("sub")).unwrap();
                fs::write(cwd.join(v.source), &source).unwrap();
                let path = if clabel == "ok" && mask == 15 && v.label == "default-dir" { "missing.wac" } else { v.source };

                let mut argv: Vec<String> = vec!["compose".into()];
                if let Some(d) = v.flag {
                    argv.push("--deps-dir".into());
                    argv.push(d.into());
                }
                for (i, (k, p)) in v.deps.iter().enumerate() {
                    // alternate the two spellings
                    argv.push(if i % 2 == 0 { "--dep".into() } else { "-d".into() });
                    argv.push(format!("{k}={p}"));
                }
                if no_validate {
                    argv.push("--no-validate".into());
                }
                if wat {
                    argv.push(if mask & 8 != 0 { "--wat".into() } else { "-t".into() });
                }
                if import_deps {
                    argv.push(if mask & 1 != 0 { "-i".into() } else { "--import-dependencies".into() });
                }
                if with_output {
                    argv.push(if mask & 2 != 0 { "--output".into() } else { "-o".into() });
                    argv.push("out/result.bin".into());
                    fs::create_dir_all(cwd.join("out")).unwrap();
                    if pre {
                        fs::write(cwd.join("out/result.bin"), SENTINEL).unwrap();
                        out.count("compose:output-path:pre-existing-file");
                    }
                }
                argv.push(path.into());
                let o = ctx.run_wac(&cwd, &argv);
                let file = fs::read(cwd.join("out/result.bin")).ok();
                // after a failing run: nothing at the output path / the earlier file untouched
                let mut path_verdict = None;
                let file = if o.exit != Some(0) || !with_output {
                    let (f, verdict) = output_path_observation(&mut out, pre, file);
                    path_verdict = verdict;
                    f
                } else {
                    file
                };

                // the harness's reading of the dependency flags (checked against the Plan by the driver)
                let deps_dir = v.flag.unwrap_or("deps");
                let mut used: Vec<(String, String)> = Vec::new();
                for (k, p) in &v.deps {
                    used.retain(|(uk, _)| uk != k);
                    used.push((k.to_string(), p.to_string()));
                }
                let mut f: Vec<String> = vec![
                    esc(&tag),
                    esc(v.flag.unwrap_or("")),
                    v.deps.len().to_string(),
                ];
                for (k, p) in &v.deps {
                    f.push(esc(k));
                    f.push(esc(p));
                }
                f.extend([b(no_validate), b(wat), b(import_deps), esc(if with_output { "out/result.bin" } else { "" }), esc(path)]);
                f.push(esc(deps_dir));
                f.push(used.len().to_string());
                for (k, p) in &used {
                    f.push(esc(k));
                    f.push(esc(p));
                }
                // the library results do not depend on the flag combination, only on the
                // composition, the dependency layout and the source path
                let cache_key = (source.clone(), v.label, path);
                if !lib_cache.contains_key(&cache_key) {
                    let mut rs = Vec::new();
                    for define in [true, false] {
                        for validate in [true, false] {
                            rs.push(lib_compose(&cwd, path, deps_dir, &used, define, validate));
                        }
                    }
                    lib_cache.insert(cache_key.clone(), rs);
                }
                let results = lib_cache.get(&cache_key).unwrap().clone();
                for res in &results {
                    f.push(lib_field(&mut ctx.intern, res));
                }
                // does validation decide the outcome for this input? (results: TT, TF, FT, FF)
                if (results[0].is_err() && results[1].is_ok()) || (results[2].is_err() && results[3].is_ok()) {
                    out.count("compose:validation-decides");
                }
                if let (Ok(a), Ok(c)) = (&results[0], &results[2]) {
                    if a != c {
                        out.count("compose:import-dependencies-changes-bytes");
                    }
                }
                let stages = [match &results[0] {
                    Ok(_) => "ok",
                    Err(s) => s,
                }];
                out.count(&format!("compose:stage:{}", stages[0]));
                // the stage at which *this* run's options make the library fail
                let this_run = &results[(if import_deps { 2 } else { 0 }) + (if no_validate { 1 } else { 0 })];
                if let Err(stage) = this_run {
                    if stage.starts_with("encode") && with_output {
                        late_failures_with_output[if *stage == "encode:validation" { 1 } else { 0 }] += 1;
                        out.count(&format!("compose:fails-in-{stage}:with-o{}{}", if wat { "-t" } else { "" }, if pre { ":pre-existing-file" } else { ":no-file-before" }));
                    }
                }
                out.count(&format!("compose:deps:{}", v.label));
                out.count(&format!("compose:source:{clabel}"));
                f.extend(ctx.obs_fields(&o, file.clone()));
                let id = out.case(true, "compose", &f);
                if o.exit.is_none() {
                    out.fail(&id, "wac compose was killed by a signal", &String::from_utf8_lossy(&o.stderr));
                }
                if let Some(v) = path_verdict {
                    out.fail(&id, &format!("wac compose: {v}"), &format!("argv {argv:?}; exit {:?}; library stage: {}", o.exit, this_run.as_ref().err().copied().unwrap_or("ok")));
                }
                if o.exit == Some(0) && wat {
                    let text = if with_output { file.clone().unwrap_or_default() } else { o.stdout[..o.stdout.len().saturating_sub(1)].to_vec() };
                    // results: (define, validate) = TT, TF, FT, FF
                    let same_options = &results[(if import_deps { 2 } else { 0 }) + (if no_validate { 1 } else { 0 })];
                    check_text(&mut out, &id, &text, !no_validate, same_options.as_ref().ok().map(|b| &b[..]));
                }
                fs::remove_dir_all(&cwd).ok();
            }
        }
    }

    // the stages after resolution must stay reached (they silently stopped being reached once,
    // when the defect that made `nested-merge` fail validation was repaired)
    if replay_tags.is_none() {
        for (n, what) in late_failures_with_output.iter().zip(["conflict", "validation"]) {
            if *n == 0 {
                out.count(&format!("COVERAGE-GAP:no -o run fails in encode ({what})"));
            }
        }
    }

    // ---------------------------------------------------------------- plug
    // (label, socket file, plug files in argument order)
    let plug_cases: Vec<(&str, &str, Vec<&str>)> = vec![
        ("one-plug", "greeter.wasm", vec!["name.wasm"]),
        ("two-stems", "greeter.wasm", vec!["name.wasm", "other.wasm"]),
        ("two-stems-reversed", "greeter.wasm", vec!["other.wasm", "name.wasm"]),
        ("same-stem-twice", "greeter.wasm", vec!["name.wasm", "sub/name.wasm"]),
        ("three-plugs", "greeter.wasm", vec!["sub/name.wasm", "other.wasm", "name.wasm"]),
        ("unused-plug-only", "greeter.wasm", vec!["other.wasm"]),
        ("socket-missing", "nosuch.wasm", vec!["name.wasm"]),
        ("plug-missing", "greeter.wasm", vec!["nosuch.wasm"]),
        ("socket-not-a-component", "garbage.wasm", vec!["name.wasm"]),
        ("dotted-stem", "greeter.wasm", vec!["name.v2.wasm"]),
    ];
    let mut plug_no = 0usize;
    for (label, socket, plugs) in &plug_cases {
        for mask in 0..4u32 {
            let (wat, with_output) = (mask & 1 != 0, mask & 2 != 0);
            plug_no += 1;
            let pre = with_output && plug_no % 2 == (plug_no / 8) % 2;
            let tag = format!("{label}|{mask}{}", if pre { "|pre-existing-output" } else { "" });
            if !mine(&mut idx) || !wanted(&tag) {
                continue;
            }
            ctx.n += 1;
            let cwd = ctx.scratch.join(format!("case{}", ctx.n));
            fs::create_dir_all(cwd.join("sub")).unwrap();
            fs::create_dir_all(cwd.join("out")).unwrap();
            if pre {
                fs::write(cwd.join("out/plugged.wasm"), SENTINEL).unwrap();
                out.count("plug:output-path:pre-existing-file");
            }
            fs::write(cwd.join("greeter.wasm"), &fixtures[1].1).unwrap();
            fs::write(cwd.join("name.wasm"), &fixtures[0].1).unwrap();
            fs::write(cwd.join("sub/name.wasm"), &name2).unwrap();
            fs::write(cwd.join("name.v2.wasm"), &name2).unwrap();
            fs::write(cwd.join("other.wasm"), &other).unwrap();
            fs::write(cwd.join("garbage.wasm"), b"not a component").unwrap();
            let mut argv: Vec<String> = vec!["plug".into()];
            for p in plugs {
                argv.push("--plug".into());
                argv.push(p.to_string());
            }
            if wat {
                argv.push("-t".into());
            }
            if with_output {
                argv.push("-o".into());
                argv.push("out/plugged.wasm".into());
            }
            argv.push(socket.to_string());
            let o = ctx.run_wac(&cwd, &argv);
            let file = fs::read(cwd.join("out/plugged.wasm")).ok();
            let mut path_verdict = None;
            let file = if o.exit != Some(0) || !with_output {
                let (f, verdict) = output_path_observation(&mut out, pre, file);
                path_verdict = verdict;
                f
            } else {
                file
            };

            // groups by file stem in order of first occurrence (independent of the model)
            let mut groups: Vec<(String, Vec<String>)> = Vec::new();
            for p in plugs {
                let stem = Path::new(p).file_stem().map(|s| s.to_string_lossy().to_string()).unwrap_or_default();
                match groups.iter_mut().find(|(s, _)| *s == stem) {
                    Some((_, ms)) => ms.push(p.to_string()),
                    None => groups.push((stem, vec![p.to_string()])),
                }
            }
            let mut f: Vec<String> = vec![esc(&tag), plugs.len().to_string()];
            for p in plugs {
                f.push(esc(p));
            }
            f.extend([esc(socket), b(wat), esc(if with_output { "out/plugged.wasm" } else { "" })]);
            // reference naming + the library result for every order of the groups
            let reference = plug_names(&groups);
            f.push(reference.len().to_string());
            for (n, p) in &reference {
                f.push(esc(n));
                f.push(esc(p));
            }
            let perms = permutations(&groups);
            f.push(perms.len().to_string());
            for g in &perms {
                let res = lib_plug(&cwd, socket, &plug_names(g));
                f.push(lib_field(&mut ctx.intern, &res));
            }
            f.extend(ctx.obs_fields(&o, file.clone()));
            out.count(&format!("plug:{label}"));
            let id = out.case(true, "plug", &f);
            if o.exit.is_none() {
                out.fail(&id, "wac plug was killed by a signal", &String::from_utf8_lossy(&o.stderr));
            }
            if let Some(v) = path_verdict {
                out.fail(&id, &format!("wac plug: {v}"), &format!("argv {argv:?}; exit {:?}", o.exit));
            }
            if o.exit == Some(0) && wat {
                let text = if with_output { file.clone().unwrap_or_default() } else { o.stdout[..o.stdout.len().saturating_sub(1)].to_vec() };
                check_text(&mut out, &id, &text, true, None);
            }
            fs::remove_dir_all(&cwd).ok();
        }
    }

    // ---------------------------------------------------------------- targets
    let wit_one = "package t:w;\nworld only { import f: func(); export g: func(); }\n";
    let wit_two = "package t:w;\nworld needs-f { import f: func(); export g: func(); }\nworld needs-nothing { export g: func(); }\n";
    let wit_none = "package t:w;\ninterface i { f: func(); }\n";
    let wit_bad = "package t:w;\nworld {";
    let target_cases: Vec<(&str, &str, &str, Option<&str>)> = vec![
        ("one-world-conforms", "greeter.wasm", wit_one, None),
        ("one-world-named", "greeter.wasm", wit_one, Some("only")),
        ("one-world-wrong-name", "greeter.wasm", wit_one, Some("other")),
        ("one-world-not-conforming", "name.wasm", wit_one, None),
        ("two-worlds-no-flag", "greeter.wasm", wit_two, None),
        ("two-worlds-first", "greeter.wasm", wit_two, Some("needs-f")),
        ("two-worlds-second", "greeter.wasm", wit_two, Some("needs-nothing")),
        ("no-world", "greeter.wasm", wit_none, None),
        ("bad-wit", "greeter.wasm", wit_bad, None),
        ("component-missing", "nosuch.wasm", wit_one, None),
    ];
    for (label, component, wit, world) in &target_cases {
        for as_dir in [false, true] {
            let tag = format!("{label}|{as_dir}");
            if !mine(&mut idx) || !wanted(&tag) {
                continue;
            }
            ctx.n += 1;
            let cwd = ctx.scratch.join(format!("case{}", ctx.n));
            fs::create_dir_all(cwd.join("witdir")).unwrap();
            fs::write(cwd.join("greeter.wasm"), &fixtures[1].1).unwrap();
            fs::write(cwd.join("name.wasm"), &fixtures[0].1).unwrap();
            fs::write(cwd.join("w.wit"), wit).unwrap();
            fs::write(cwd.join("witdir/w.wit"), wit).unwrap();
            let wit_path = if as_dir { "witdir" } else { "w.wit" };
            let mut argv: Vec<String> = vec!["targets".into(), component.to_string(), "--wit".into(), wit_path.into()];
            if let Some(w) = world {
                argv.push("--world".into());
                argv.push(w.to_string());
            }
            let o = ctx.run_wac(&cwd, &argv);
            // in-process: the worlds of the WIT package and, per world, `validate_target`
            let (loadable, worlds) = lib_targets(&cwd, component, wit_path);
            let mut f: Vec<String> = vec![esc(&tag), esc(component), esc(wit_path), esc(world.unwrap_or("")), b(loadable), worlds.len().to_string()];
            for (w, ok) in &worlds {
                f.push(esc(w));
                f.push(b(*ok));
            }
            f.extend(ctx.obs_fields(&o, None));
            out.count(&format!("targets:{label}"));
            let id = out.case(true, "targets", &f);
            if o.exit.is_none() {
                out.fail(&id, "wac targets was killed by a signal", "");
            }
            // README writes `wac targets <component> <wit>` (positional); observed, not judged
            if *label == "one-world-conforms" && !as_dir {
                let o2 = ctx.run_wac(&cwd, &["targets".into(), component.to_string(), "w.wit".into()]);
                out.count(&format!("observed:readme-positional-wit-form:exit{}", o2.exit.unwrap_or(-1)));
            }
            fs::remove_dir_all(&cwd).ok();
        }
    }

    // ---------------------------------------------------------------- parse
    for (label, source) in all_compositions.iter().map(|(l, s)| (*l, s.clone())).chain([("missing-file", String::new())]) {
        let tag = format!("{label}|{}", source.len());
        if !mine(&mut idx) || !wanted(&tag) {
            continue;
        }
        ctx.n += 1;
        let cwd = ctx.scratch.join(format!("case{}", ctx.n));
        fs::create_dir_all(&cwd).unwrap();
        if label != "missing-file" {
            fs::write(cwd.join("input.wac"), &source).unwrap();
        }
        let o = ctx.run_wac(&cwd, &["parse".into(), "input.wac".into()]);
        let json = fs::read_to_string(cwd.join("input.wac")).ok().and_then(|c| {
            let c: &str = Box::leak(c.into_boxed_str());
            Document::parse(c).ok().map(|d| serde_json::to_string_pretty(&d).unwrap().into_bytes())
        });
        let mut f: Vec<String> = vec![esc(&tag), esc("input.wac"), match &json {
            Some(j) => format!("J{}", ctx.intern.tok(j)),
            None => "-".into(),
        }];
        f.extend(ctx.obs_fields(&o, None));
        out.count(&format!("parse:{label}"));
        out.case(true, "parse", &f);
        fs::remove_dir_all(&cwd).ok();
    }

    // ---------------------------------------------------------------- stdout is a terminal
    // (run under `script`, which gives the child a pty; stdout and stderr arrive merged)
    if shard == 0 && Path::new("/usr/bin/script").exists() && wanted("tty") {
        for mask in 0..4u32 {
            let (wat, with_output) = (mask & 1 != 0, mask & 2 != 0);
            ctx.n += 1;
            let cwd = ctx.scratch.join(format!("case{}", ctx.n));
            fs::create_dir_all(cwd.join("deps/t")).unwrap();
            fs::create_dir_all(cwd.join("out")).unwrap();
            for (n, bytes) in &fixtures {
                fs::write(cwd.join("deps/t").join(format!("{n}.wasm")), bytes).unwrap();
            }
            let source = &fixed_compositions()[0].1;
            fs::write(cwd.join("input.wac"), source).unwrap();
            let mut cmdline = format!("{} compose", ctx.wac.display());
            if wat {
                cmdline.push_str(" -t");
            }
            if with_output {
                cmdline.push_str(" -o out/result.bin");
            }
            cmdline.push_str(" input.wac");
            let o = Command::new("/usr/bin/script")
                .args(["-q", "-e", "-c", &cmdline, "/dev/null"])
                .current_dir(&cwd)
                .env("HOME", &cwd)
                .env("NO_COLOR", "1")
                .env("TOKIO_WORKER_THREADS", "2")
                .env_remove("RUST_LOG")
                .env_remove("RUST_BACKTRACE")
                .stdin(std::process::Stdio::null())
                .output()
                .expect("spawn script");
            let merged: Vec<u8> = o.stdout.iter().copied().filter(|b| *b != b'\r').collect();
            let lib = lib_compose(&cwd, "input.wac", "deps", &[], true, true);
            let text = lib.as_ref().ok().and_then(|b| wasmprinter::print_bytes(b).ok()).map(|t| format!("{t}\n").into_bytes());
            let file = fs::read(cwd.join("out/result.bin")).ok();
            let f: Vec<String> = vec![
                "tty".into(),
                b(wat),
                esc(if with_output { "out/result.bin" } else { "" }),
                lib_field(&mut ctx.intern, &lib),
                o.status.code().map(|c| c.to_string()).unwrap_or_else(|| "signal".into()),
                b(text.as_deref() == Some(&merged[..])),
                b(merged.is_empty()),
                b(String::from_utf8_lossy(&merged).contains("error")),
                match file {
                    Some(bytes) => format!("F{}", ctx.intern.tok(&bytes)),
                    None => "-".into(),
                },
            ];
            out.count("tty:compose");
            out.case(true, "tty", &f);
            fs::remove_dir_all(&cwd).ok();
        }
        // the same guard in `wac plug`
        for wat in [false, true] {
            ctx.n += 1;
            let cwd = ctx.scratch.join(format!("case{}", ctx.n));
            fs::create_dir_all(&cwd).unwrap();
            fs::write(cwd.join("greeter.wasm"), &fixtures[1].1).unwrap();
            fs::write(cwd.join("name.wasm"), &fixtures[0].1).unwrap();
            let cmdline = format!("{} plug --plug name.wasm{} greeter.wasm", ctx.wac.display(), if wat { " -t" } else { "" });
            let o = Command::new("/usr/bin/script")
                .args(["-q", "-e", "-c", &cmdline, "/dev/null"])
                .current_dir(&cwd)
                .env("HOME", &cwd)
                .env("NO_COLOR", "1")
                .env("TOKIO_WORKER_THREADS", "2")
                .env_remove("RUST_LOG")
                .env_remove("RUST_BACKTRACE")
                .stdin(std::process::Stdio::null())
                .output()
                .expect("spawn script");
            let merged: Vec<u8> = o.stdout.iter().copied().filter(|b| *b != b'\r').collect();
            let lib = lib_plug(&cwd, "greeter.wasm", &[("plug:name".to_string(), "name.wasm".to_string())]);
            let text = lib.as_ref().ok().and_then(|b| wasmprinter::print_bytes(b).ok()).map(|t| format!("{t}\n").into_bytes());
            let f: Vec<String> = vec![
                "tty-plug".into(),
                b(wat),
                "\\e;".into(),
                lib_field(&mut ctx.intern, &lib),
                o.status.code().map(|c| c.to_string()).unwrap_or_else(|| "signal".into()),
                b(text.as_deref() == Some(&merged[..])),
                b(merged.is_empty()),
                b(String::from_utf8_lossy(&merged).contains("error")),
                "-".into(),
            ];
            out.count("tty:plug");
            out.case(true, "tty", &f);
            fs::remove_dir_all(&cwd).ok();
        }
    }

    // usage errors are clap's: observed only
    let o = ctx.run_wac(&ctx.scratch.clone(), &["compose".into()]);
    out.count(&format!("observed:compose-without-path:exit{}", o.exit.unwrap_or(-1)));
    let o = ctx.run_wac(&ctx.scratch.clone(), &["compose".into(), "--no-such-flag".into(), "x.wac".into()]);
    out.count(&format!("observed:unknown-flag:exit{}", o.exit.unwrap_or(-1)));

    out.finish();
    fs::remove_dir_all(&scratch).ok();
}

/// (component and WIT load, [(world name, component conforms to it)])
fn lib_targets(cwd: &Path, component: &str, wit_path: &str) -> (bool, Vec<(String, bool)>) {
    let mut types = Types::default();
    let path = cwd.join(wit_path);
    let mut resolve = wit_parser::Resolve::new();
    let pkg = if path.is_dir() { resolve.push_dir(&path).map(|(p, _)| p) } else { resolve.push_path(&path).map(|(p, _)| p) };
    let Ok(pkg) = pkg else { return (false, vec![]) };
    let Ok(wit_bytes) = wit_component::encode(&resolve, pkg) else { return (false, vec![]) };
    let Ok(wit) = Package::from_bytes("wit", None, wit_bytes, &mut types) else { return (false, vec![]) };
    let Ok(bytes) = fs::read(cwd.join(component)) else { return (false, vec![]) };
    let Ok(comp) = Package::from_bytes("component", None, bytes, &mut types) else { return (false, vec![]) };
    // world names in declaration order, from the WIT itself
    let names: Vec<String> = resolve.packages[pkg].worlds.keys().cloned().collect();
    let mut out = Vec::new();
    for name in names {
        let top = &types[wit.ty()];
        let conforms = match top.exports.get(&name) {
            Some(ItemKind::Type(wac_types::Type::World(id))) => match types[*id].exports.values().next() {
                Some(ItemKind::Component(w)) => wac_types::validate_target(&types, *w, comp.ty()).is_ok(),
                _ => false,
            },
            _ => false,
        };
        out.push((name, conforms));
    }
    (true, out)
}
