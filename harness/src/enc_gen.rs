//! Libraries and composition-graph generators shared by the encoding checks (C01, C02, C03).
#![allow(dead_code)]

use super::enc_util::*;
use std::collections::BTreeMap;
use wac_graph::types::{ItemKind, Package, Type};
use wac_graph::{CompositionGraph, NodeId, NodeKind, PackageId};
use wacv::Rng;

/// import/export names of the WAT packages with the shape every package gives them
pub fn name_pool() -> Vec<(&'static str, Shape)> {
    let a = || Shape::inst(&[("a", Shape::F0)]);
    let ab = || Shape::inst(&[("a", Shape::F0), ("b", Shape::F0)]);
    vec![
        ("f", Shape::F0),
        ("g", Shape::F0),
        ("h", Shape::F1),
        ("i", a()),
        ("j", ab()),
        ("k", Shape::inst(&[("inner", a()), ("g", Shape::F0)])),
        ("test:p/i@1.0.0", a()),
        ("test:p/i@1.2.0", a()),
        ("test:p/i@2.0.0", a()),
        ("test:q/j@0.2.0", a()),
        ("test:q/j@0.2.5", a()),
        ("test:q/j@0.3.0", a()),
        ("test:r/k", Shape::inst(&[("a", Shape::F0), ("h", Shape::F1)])),
    ]
}

/// the pool of C03: versions on one track differ in what they offer (so that sharing has to
/// produce the union), and there are names on different tracks
pub fn name_pool_c03() -> Vec<(&'static str, Shape)> {
    let a = || Shape::inst(&[("a", Shape::F0)]);
    let ab = || Shape::inst(&[("a", Shape::F0), ("b", Shape::F0)]);
    let ac = || Shape::inst(&[("a", Shape::F0), ("c", Shape::F1)]);
    vec![
        ("f", Shape::F0),
        ("i", a()),
        ("test:p/i@1.0.0", a()),
        ("test:p/i@1.2.0", ab()),
        ("test:p/i@1.3.1", ac()),
        ("test:p/i@2.0.0", a()),
        ("test:q/j@0.2.0", a()),
        ("test:q/j@0.2.5", ab()),
        ("test:q/j@0.3.0", a()),
        ("test:r/k@0.0.3", a()),
        // one name with two incompatible types (a package takes one of them): merge conflicts
        ("m", Shape::F0),
        ("m", Shape::F1),
        ("test:s/m@1.0.0", a()),
        ("test:s/m@1.1.0", Shape::inst(&[("a", Shape::F1)])),
    ]
}

/// a second pool for C03: semver tracks on which the distinguishing version component crosses a
/// digit boundary (9 → 10, 99 → 100) in patch, minor and major position, so that the order of
/// the versions differs from the order of the names as strings (`0.2.9` < `0.2.10`,
/// `1.9.0` < `1.10.0`), plus neighbouring tracks whose keys are prefixes of one another
/// (`0.1` / `0.10`, `1` / `10`).  As in `name_pool_c03`, the versions on one track differ in what
/// they offer.
pub fn name_pool_c03_digits() -> Vec<(&'static str, Shape)> {
    let a = || Shape::inst(&[("a", Shape::F0)]);
    let ab = || Shape::inst(&[("a", Shape::F0), ("b", Shape::F0)]);
    let ac = || Shape::inst(&[("a", Shape::F0), ("c", Shape::F1)]);
    vec![
        ("f", Shape::F0),
        ("i", a()),
        // patch position, track 0.2
        ("test:d/w@0.2.9", a()),
        ("test:d/w@0.2.10", ab()),
        ("test:d/w@0.2.100", ac()),
        // minor position, track 1
        ("test:e/x@1.9.0", a()),
        ("test:e/x@1.10.0", ab()),
        ("test:e/x@1.99.5", ac()),
        ("test:e/x@1.100.0", a()),
        // patch position below a two-digit minor, track 1
        ("test:g/y@1.10.9", ab()),
        ("test:g/y@1.10.10", a()),
        ("test:g/y@1.9.11", ac()),
        // different tracks with prefix-related keys: never shared
        ("test:h/z@0.1.10", a()),
        ("test:h/z@0.10.1", ab()),
        ("test:h/z@0.10.0", a()),
        ("test:k/v@9.0.0", a()),
        ("test:k/v@10.0.0", ab()),
        // conflicting types on a digit-crossing track
        ("test:s/m@1.9.0", a()),
        ("test:s/m@1.10.0", Shape::inst(&[("a", Shape::F1)])),
    ]
}

/// the pool of C01: the C03 pool plus nested instances of different widths under one name
pub fn name_pool_c01() -> Vec<(&'static str, Shape)> {
    let a = || Shape::inst(&[("a", Shape::F0)]);
    let ab = || Shape::inst(&[("a", Shape::F0), ("b", Shape::F0)]);
    let mut v = name_pool_c03();
    v.push(("k", Shape::inst(&[("inner", a()), ("g", Shape::F0)])));
    v.push(("k", Shape::inst(&[("inner", ab()), ("g", Shape::F0)])));
    v.push(("test:n/k@1.0.0", Shape::inst(&[("inner", a())])));
    v.push(("test:n/k@1.1.0", Shape::inst(&[("inner", ab())])));
    v
}

/// extra export-only names
pub fn export_pool() -> Vec<(&'static str, Shape)> {
    let a = || Shape::inst(&[("a", Shape::F0)]);
    let ab = || Shape::inst(&[("a", Shape::F0), ("b", Shape::F0)]);
    let mut v = name_pool();
    v.push(("x", Shape::F0));
    v.push(("y", Shape::F0));
    v.push(("z", Shape::F1));
    v.push(("i2", ab()));
    v.push(("nest", Shape::inst(&[("inner", ab()), ("i", a()), ("deep", Shape::inst(&[("k", Shape::inst(&[("inner", a()), ("g", Shape::F0)]))]))])));
    v
}

pub const WIT_LIB: &str = r#"
package test:wit@1.0.0;

interface types {
  record r { x: u32 }
  type t = u32;
  enum e { a, b }
}
interface api {
  use types.{r, t};
  f: func(a: r) -> t;
}
interface more {
  use api.{r};
  use types.{e};
  g: func(a: r) -> e;
}
interface res {
  resource h { constructor(); get: func() -> u32; }
  mk: func() -> h;
}
interface resuser {
  use res.{h};
  take: func(x: borrow<h>);
  give: func() -> h;
}
world producer { export api; export types; }
world consumer { import api; export run: func(); }
world both { import api; import types; export api; }
world deep { import more; export more; }
world resy { import res; export res; }
world usew { use types.{r}; import g: func(a: r); export k: func() -> r; }
world resprov { import res; export res; export resuser; }
world rescons { import res; import resuser; }
world resthru { import res; import resuser; export resuser; }
world resexp { export res; export resuser; }
world resboth { import res; import resuser; export res; export resuser; }
"#;

pub const WIT_WORLDS: &[&str] = &["producer", "consumer", "both", "deep", "resy", "usew"];
/// worlds that import *and* export an interface with a resource, next to a dependent interface
/// that uses the resource (a resource passed through several instances)
pub const WIT_WORLDS_RES: &[&str] = &["resprov", "rescons", "resthru", "resexp", "resboth"];

/// one interface family at two versions of one semver track: a resource and a record, and a
/// dependent interface using both
pub const WIT_VER: &str = r#"
package test:vw;

package test:ver@0.2.0 {
  interface types { resource h; record rec { x: u32 } mk: func() -> h; }
  interface api { use types.{h, rec}; f: func(x: borrow<h>) -> rec; }
}
package test:ver@0.2.1 {
  interface types { resource h; resource s; record rec { x: u32 } mk: func() -> h; }
  interface api { use types.{h, rec}; f: func(x: borrow<h>) -> rec; g: func(); }
}
package test:verapi {
  interface use-lo { use test:ver/types@0.2.0.{h}; take: func(x: h); }
  interface use-hi { use test:ver/types@0.2.1.{h, s}; take: func(x: h, y: s); }
}

world vhi { import test:ver/types@0.2.1; }
world vlo { import test:ver/types@0.2.0; }
world vlo-api { import test:ver/api@0.2.0; }
world vhi-api { import test:ver/api@0.2.1; }
world vlo-use { import test:verapi/use-lo; }
world vhi-use { import test:verapi/use-hi; }
world vlo-both { import test:ver/types@0.2.0; import test:verapi/use-lo; }
world vprov-lo { export test:ver/types@0.2.0; export test:ver/api@0.2.0; }
world vprov-hi { export test:ver/types@0.2.1; }
world vmid { import test:ver/types@0.2.0; export test:ver/api@0.2.0; }
"#;
pub const WIT_WORLDS_VER: &[&str] = &["vhi", "vlo", "vlo-api", "vhi-api", "vlo-use", "vhi-use", "vlo-both", "vprov-lo", "vprov-hi", "vmid"];

/// what a library contains besides its generated WAT packages
#[derive(Clone, Copy, Default)]
pub struct LibSel {
    /// the six worlds of `WIT_WORLDS`
    pub wit: bool,
    /// `WIT_WORLDS_RES`
    pub res: bool,
    /// `WIT_WORLDS_VER`
    pub ver: bool,
    /// pairs of WAT packages with one name at two versions (same world or not, different bytes)
    pub twins: bool,
}

fn wit_cached(text: &'static str, world: &'static str) -> Vec<u8> {
    use std::collections::HashMap;
    use std::sync::{Mutex, OnceLock};
    static CACHE: OnceLock<Mutex<HashMap<(usize, &'static str), Vec<u8>>>> = OnceLock::new();
    let m = CACHE.get_or_init(|| Mutex::new(HashMap::new()));
    let key = (text.as_ptr() as usize, world);
    if let Some(b) = m.lock().unwrap().get(&key) {
        return b.clone();
    }
    let bytes = wit_component_bytes(text, world).unwrap_or_else(|e| panic!("wit world {world}: {e:?}"));
    m.lock().unwrap().insert(key, bytes.clone());
    bytes
}

/// the library of one run: WAT packages drawn from the pools + the WIT worlds
pub fn build_library(rng: &mut Rng, n_wat: usize, with_wit: bool) -> Vec<LibPkg> {
    build_library_from(rng, n_wat, with_wit, name_pool())
}

pub fn build_library_from(rng: &mut Rng, n_wat: usize, with_wit: bool, imports: Vec<(&'static str, Shape)>) -> Vec<LibPkg> {
    build_library_sel_focus(rng, n_wat, LibSel { wit: with_wit, ..Default::default() }, imports, &[])
}

pub fn build_library_sel(rng: &mut Rng, n_wat: usize, sel: LibSel, imports: Vec<(&'static str, Shape)>) -> Vec<LibPkg> {
    build_library_sel_focus(rng, n_wat, sel, imports, &[])
}

/// as `build_library_from`; three packages in four import one name of the `focus` family (the
/// versions of one interface on one semver track), so that most plans leave several versions of
/// that track unsatisfied
pub fn build_library_focus(rng: &mut Rng, n_wat: usize, with_wit: bool, imports: Vec<(&'static str, Shape)>, focus: &[(&'static str, Shape)]) -> Vec<LibPkg> {
    build_library_sel_focus(rng, n_wat, LibSel { wit: with_wit, ..Default::default() }, imports, focus)
}

fn build_library_sel_focus(rng: &mut Rng, n_wat: usize, sel: LibSel, imports: Vec<(&'static str, Shape)>, focus: &[(&'static str, Shape)]) -> Vec<LibPkg> {
    let mut lib = Vec::new();
    let exports = export_pool();
    for i in 0..n_wat {
        let mut imps: Vec<(String, Shape)> = Vec::new();
        let ni = pick_weighted(rng, &[2, 3, 4, 3, 2]);
        if !focus.is_empty() && rng.chance(3, 4) {
            let (n, s) = rng.pick(focus);
            imps.push((n.to_string(), s.clone()));
        }
        let mut idx: Vec<usize> = (0..imports.len()).collect();
        rng.shuffle(&mut idx);
        for k in idx.into_iter() {
            if imps.len() >= ni.max(if focus.is_empty() { 0 } else { 1 }) {
                break;
            }
            if imps.iter().any(|(n, _)| n == imports[k].0) {
                continue;
            }
            imps.push((imports[k].0.to_string(), imports[k].1.clone()));
        }
        let ne = 1 + rng.below(4);
        let mut exps: Vec<(String, Shape)> = Vec::new();
        let mut idx: Vec<usize> = (0..exports.len()).collect();
        rng.shuffle(&mut idx);
        for k in idx.into_iter().take(ne) {
            exps.push((exports[k].0.to_string(), exports[k].1.clone()));
        }
        let p = WatPkg {
            name: format!("lib:p{}", i),
            version: if rng.chance(1, 2) { Some(format!("1.{}.0", rng.below(3))) } else { None },
            imports: imps,
            exports: exps,
            salt: 0,
        };
        let wat = p.wat();
        let bytes = wat::parse_str(&wat).unwrap_or_else(|e| panic!("bad generated wat: {e}\n{wat}"));
        lib.push(LibPkg { name: p.name.clone(), version: p.version.clone(), bytes, origin: "wat", shapes: Some((p.imports.clone(), p.exports.clone())) });
        // the same package name at another version: the same world with other bytes, or a world
        // with one export more / one import less
        if sel.twins && rng.chance(2, 5) {
            let mut q = WatPkg { name: p.name.clone(), version: None, imports: p.imports.clone(), exports: p.exports.clone(), salt: 1 + i as u32 };
            q.version = match &p.version {
                None => Some("1.0.0".to_string()),
                Some(v) => {
                    let minor: usize = v.split('.').nth(1).and_then(|m| m.parse().ok()).unwrap_or(0);
                    Some(if rng.chance(1, 2) { "2.0.0".to_string() } else { format!("1.{}.0", minor + 1) })
                }
            };
            match rng.below(4) {
                0 => {
                    if let Some(e) = exports.iter().find(|(n, _)| !q.exports.iter().any(|(m, _)| m == n)) {
                        q.exports.push((e.0.to_string(), e.1.clone()));
                    }
                }
                1 => {
                    q.imports.pop();
                }
                _ => {}
            }
            let wat = q.wat();
            let bytes = wat::parse_str(&wat).unwrap_or_else(|e| panic!("bad generated wat: {e}\n{wat}"));
            lib.push(LibPkg { name: q.name.clone(), version: q.version.clone(), bytes, origin: "wat", shapes: Some((q.imports.clone(), q.exports.clone())) });
        }
    }
    if sel.wit {
        for w in WIT_WORLDS {
            lib.push(LibPkg { name: format!("wit:{}", w), version: None, bytes: wit_cached(WIT_LIB, w), origin: "wit", shapes: None });
        }
    }
    if sel.res {
        for w in WIT_WORLDS_RES {
            lib.push(LibPkg { name: format!("wit:{}", w), version: None, bytes: wit_cached(WIT_LIB, w), origin: "wit", shapes: None });
        }
    }
    if sel.ver {
        for w in WIT_WORLDS_VER {
            lib.push(LibPkg { name: format!("wit:{}", w), version: None, bytes: wit_cached(WIT_VER, w), origin: "wit", shapes: None });
        }
    }
    lib
}

/// one step of a graph construction, recorded so that a case can be described and replayed
#[derive(Clone, Debug)]
pub enum Op {
    Register(usize),
    Instantiate(usize),
    Alias(usize, String),
    Import(String, String),
    SetArg(usize, String, usize),
    Export(usize, String),
    Name(usize, String),
    Define(String, String),
    UnsetArg(usize, String, usize),
    Unexport(usize),
    Remove(usize),
    Unregister(usize),
}

pub struct Built {
    pub graph: CompositionGraph,
    pub pkgs: Vec<(usize, PackageId)>,
    pub ops: Vec<(Op, bool)>,
}

pub struct GenCfg {
    pub steps: usize,
    pub removal: bool,
    pub definitions: bool,
    /// allow explicit imports of WIT-derived function kinds on their own
    pub loose_imports: bool,
    /// allow arguments for type-kind imports and exports of WIT-derived functions (their types
    /// mention named types of other items; C01 generates those)
    pub typed_items: bool,
    /// register packages that fit together (one exports what another imports, two versions of one
    /// name) and connect instances by name: every export of one instance that another
    /// instantiation imports is aliased and passed as the argument of that name
    pub wire: bool,
}

/// is `to` reachable from `from` along alias/argument edges (public queries only)
fn reaches(g: &CompositionGraph, from: NodeId, to: NodeId) -> bool {
    // walk backwards from `to`
    let mut stack = vec![to];
    let mut seen = std::collections::BTreeSet::new();
    while let Some(n) = stack.pop() {
        if n == from {
            return true;
        }
        if !seen.insert(node_index(n)) {
            continue;
        }
        if let Some((s, _)) = g.get_alias_source(n) {
            stack.push(s);
        }
        for (_, s) in g.get_instantiation_arguments(n) {
            stack.push(s);
        }
    }
    false
}

pub fn reaches_pub(g: &CompositionGraph, from: NodeId, to: NodeId) -> bool {
    reaches(g, from, to)
}

fn live_nodes(g: &CompositionGraph) -> Vec<NodeId> {
    g.node_ids().collect()
}

fn register(g: &mut CompositionGraph, p: &LibPkg) -> Option<PackageId> {
    let version = p.version.as_ref().map(|v| semver::Version::parse(v).unwrap());
    let pkg = Package::from_bytes(&p.name, version.as_ref(), p.bytes.clone(), g.types_mut()).ok()?;
    g.register_package(pkg).ok()
}

/// Build a random composition through the public API.  Every call goes to the real code; the
/// recorded flag is whether the operation was accepted.
pub fn build_graph(rng: &mut Rng, lib: &[LibPkg], cfg: &GenCfg) -> Built {
    let mut g = CompositionGraph::new();
    let mut pkgs: Vec<(usize, PackageId)> = Vec::new();
    let mut ops: Vec<(Op, bool)> = Vec::new();
    let n_pk = 2 + rng.below(4);
    let mut order: Vec<usize> = (0..lib.len()).collect();
    rng.shuffle(&mut order);
    for k in order.into_iter().take(n_pk) {
        let ok = match register(&mut g, &lib[k]) {
            Some(id) => {
                pkgs.push((k, id));
                true
            }
            None => false,
        };
        ops.push((Op::Register(k), ok));
    }
    if pkgs.is_empty() {
        return Built { graph: g, pkgs, ops };
    }
    let mut both_versions: Vec<(usize, usize)> = Vec::new();
    if cfg.wire {
        // packages that fit the registered ones: another version of a registered name, and a
        // package exporting what a registered one imports (or importing what it exports)
        let names: Vec<(Vec<String>, Vec<String>)> = lib.iter().map(lib_names).collect();
        for round in 0..2 {
            let registered: Vec<usize> = pkgs.iter().map(|(k, _)| *k).collect();
            let mut cands: Vec<usize> = (0..lib.len())
                .filter(|k| !registered.contains(k))
                .filter(|k| {
                    registered.iter().any(|r| {
                        if round == 0 {
                            lib[*r].name == lib[*k].name
                        } else {
                            names[*k].1.iter().any(|e| names[*r].0.contains(e)) || names[*k].0.iter().any(|i| names[*r].1.contains(i))
                        }
                    })
                })
                .collect();
            rng.shuffle(&mut cands);
            let take = if round == 0 { cands.len().min(1 + rng.below(2)) } else { rng.below(3) };
            for k in cands.into_iter().take(take) {
                if round == 0 && !rng.chance(3, 4) {
                    continue;
                }
                let ok = match register(&mut g, &lib[k]) {
                    Some(id) => {
                        pkgs.push((k, id));
                        true
                    }
                    None => false,
                };
                ops.push((Op::Register(k), ok));
            }
        }
        for (a, (ka, _)) in pkgs.iter().enumerate() {
            for (b, (kb, _)) in pkgs.iter().enumerate() {
                if a < b && lib[*ka].name == lib[*kb].name {
                    both_versions.push((a, b));
                }
            }
        }
    }
    let mut n_export = 0usize;
    let mut n_imp = 0usize;
    let mut n_def = 0usize;
    let mut defs: Vec<Type> = Vec::new();
    // start with a few instantiations so that the other operations have something to work on
    for _ in 0..(1 + rng.below(3)) {
        let (k, id) = *rng.pick(&pkgs);
        g.instantiate(id);
        ops.push((Op::Instantiate(k), true));
    }
    // both versions of one package name in one composition
    for (a, b) in both_versions {
        if rng.chance(3, 4) {
            let mut pair = [pkgs[a], pkgs[b]];
            if rng.chance(1, 2) {
                pair.swap(0, 1);
            }
            for (k, id) in pair {
                g.instantiate(id);
                ops.push((Op::Instantiate(k), true));
            }
        }
    }
    for _ in 0..cfg.steps {
        let nodes = live_nodes(&g);
        let w_rm = if cfg.removal { 2 } else { 0 };
        let w_def = if cfg.definitions { 2 } else { 0 };
        //            inst alias import arg export name define unset unexport remove unregister
        let weights = [5, 8, 3, 14, 4, 3, w_def, w_rm, w_rm, w_rm, if cfg.removal { 1 } else { 0 }, if cfg.wire { 6 } else { 0 }];
        match pick_weighted(rng, &weights) {
            11 => {
                // connect two instances by name
                let insts: Vec<NodeId> = nodes.iter().copied().filter(|n| matches!(g[*n].kind(), NodeKind::Instantiation(_))).collect();
                if insts.is_empty() {
                    continue;
                }
                let target = *rng.pick(&insts);
                let pid = g[target].package().unwrap();
                let wanted: Vec<String> = g.types()[g[pid].ty()].imports.keys().cloned().collect();
                let exports_of = |g: &CompositionGraph, n: NodeId| -> Vec<String> {
                    match g[n].item_kind() {
                        ItemKind::Instance(id) => g.types()[id].exports.keys().cloned().collect(),
                        _ => vec![],
                    }
                };
                let mut sources: Vec<NodeId> = nodes
                    .iter()
                    .copied()
                    .filter(|s| *s != target && exports_of(&g, *s).iter().any(|e| wanted.contains(e)) && !reaches(&g, target, *s))
                    .collect();
                if sources.is_empty() {
                    // instantiate a package that offers something
                    let mut offer: Vec<(usize, PackageId)> = pkgs
                        .iter()
                        .copied()
                        .filter(|(_, p)| g.types()[g[*p].instance_type()].exports.keys().any(|e| wanted.contains(e)))
                        .collect();
                    rng.shuffle(&mut offer);
                    if let Some((k, p)) = offer.first().copied() {
                        let n = g.instantiate(p);
                        ops.push((Op::Instantiate(k), true));
                        if n != target {
                            sources.push(n);
                        }
                    }
                }
                if sources.is_empty() {
                    continue;
                }
                let src = *rng.pick(&sources);
                for name in exports_of(&g, src) {
                    if !wanted.contains(&name) || !rng.chance(4, 5) {
                        continue;
                    }
                    if !cfg.typed_items && matches!(g.types()[g[pid].ty()].imports.get(&name), Some(ItemKind::Type(_))) {
                        continue;
                    }
                    match g.alias_instance_export(src, &name) {
                        Ok(a) => {
                            ops.push((Op::Alias(node_index(src), name.clone()), true));
                            let ok = g.set_instantiation_argument(target, &name, a).is_ok();
                            ops.push((Op::SetArg(node_index(target), name.clone(), node_index(a)), ok));
                        }
                        Err(_) => ops.push((Op::Alias(node_index(src), name.clone()), false)),
                    }
                }
            }
            0 => {
                // bias towards packages that are already instantiated (several instances of one package)
                let (k, id) = *rng.pick(&pkgs);
                g.instantiate(id);
                ops.push((Op::Instantiate(k), true));
            }
            1 => {
                let insts: Vec<NodeId> = nodes
                    .iter()
                    .copied()
                    .filter(|n| matches!(g[*n].item_kind(), ItemKind::Instance(_)))
                    .collect();
                if insts.is_empty() {
                    continue;
                }
                // prefer alias nodes as sources now and then (aliases of aliases)
                let aliases: Vec<NodeId> =
                    insts.iter().copied().filter(|n| matches!(g[*n].kind(), NodeKind::Alias)).collect();
                let src = if !aliases.is_empty() && rng.chance(1, 3) { *rng.pick(&aliases) } else { *rng.pick(&insts) };
                let names: Vec<String> = match g[src].item_kind() {
                    ItemKind::Instance(id) => g.types()[id].exports.keys().cloned().collect(),
                    _ => vec![],
                };
                if names.is_empty() {
                    continue;
                }
                let name = rng.pick(&names).clone();
                let ok = g.alias_instance_export(src, &name).is_ok();
                ops.push((Op::Alias(node_index(src), name), ok));
            }
            2 => {
                // explicit import: the kind of some package import or of some instance export
                let (_, pid) = *rng.pick(&pkgs);
                let world = g.types()[g[pid].ty()].clone();
                let inst = g.types()[g[pid].instance_type()].clone();
                let mut cands: Vec<(String, ItemKind)> = world.imports.iter().map(|(n, k)| (n.clone(), *k)).collect();
                cands.extend(inst.exports.iter().map(|(n, k)| (n.clone(), *k)));
                if !cfg.loose_imports {
                    // a function/type import whose type mentions a `use`d type is only meaningful
                    // next to the interface import it comes from (C01 generates those)
                    let wit = g[pid].name().starts_with("wit:");
                    cands.retain(|(_, k)| !wit || matches!(k, ItemKind::Instance(_)));
                }
                if rng.chance(1, 3) {
                    // an interface that `use`s others, imported on its own (dependency imports)
                    let v: Vec<(String, ItemKind)> =
                        cands.iter().filter(|(_, k)| !item_ty(g.types(), k).1.is_empty()).cloned().collect();
                    if !v.is_empty() {
                        cands = v;
                    }
                }
                if cands.is_empty() {
                    continue;
                }
                let (orig, kind) = rng.pick(&cands).clone();
                // an interface of the two-version family is imported under its own name only (the
                // Lean model of the name-level aggregation does not cover an explicit import under
                // another name whose interface is on the semver track of an implicit import)
                let family = matches!(kind, ItemKind::Instance(id) if g.types()[id].id.as_deref().map_or(false, |i| i.starts_with("test:ver/")));
                let name = if family || rng.chance(1, 4) {
                    orig.clone()
                } else {
                    n_imp += 1;
                    format!("xi{}", n_imp)
                };
                let ok = g.import(&name, kind).is_ok();
                ops.push((Op::Import(name, orig), ok));
            }
            3 => {
                let insts: Vec<NodeId> = nodes
                    .iter()
                    .copied()
                    .filter(|n| matches!(g[*n].kind(), NodeKind::Instantiation(_)))
                    .collect();
                if insts.is_empty() {
                    continue;
                }
                let target = *rng.pick(&insts);
                let pid = g[target].package().unwrap();
                let names: Vec<String> = g.types()[g[pid].ty()]
                    .imports
                    .iter()
                    .filter(|(_, k)| cfg.typed_items || !matches!(k, ItemKind::Type(_)))
                    .map(|(n, _)| n.clone())
                    .collect();
                if names.is_empty() {
                    continue;
                }
                let name = rng.pick(&names).clone();
                // mostly earlier nodes (a later alias of the target's own export gives a cycle)
                let mut cands: Vec<NodeId> = if rng.chance(9, 10) {
                    nodes.iter().copied().filter(|c| !reaches(&g, target, *c)).collect()
                } else {
                    nodes.clone()
                };
                rng.shuffle(&mut cands);
                let mut done = false;
                for c in cands.into_iter().take(8) {
                    let ok = g.set_instantiation_argument(target, &name, c).is_ok();
                    ops.push((Op::SetArg(node_index(target), name.clone(), node_index(c)), ok));
                    if ok {
                        done = true;
                        break;
                    }
                }
                let _ = done;
            }
            4 => {
                if nodes.is_empty() {
                    continue;
                }
                let nodes: Vec<NodeId> = nodes
                    .iter()
                    .copied()
                    .filter(|n| {
                        cfg.typed_items
                            || !(matches!(g[*n].item_kind(), ItemKind::Func(_) | ItemKind::Type(_))
                                && g[*n].package().map(|p| g[p].name().starts_with("wit:")).unwrap_or(false))
                    })
                    .collect();
                if nodes.is_empty() {
                    continue;
                }
                let exported: Vec<NodeId> = nodes.iter().copied().filter(|n| g[*n].export_name().is_some()).collect();
                let n = if !exported.is_empty() && rng.chance(1, 3) { *rng.pick(&exported) } else { *rng.pick(&nodes) };
                n_export += 1;
                let name = format!("e{}", n_export);
                let ok = g.export(n, &name).is_ok();
                ops.push((Op::Export(node_index(n), name), ok));
            }
            5 => {
                if nodes.is_empty() {
                    continue;
                }
                let n = *rng.pick(&nodes);
                let name = if rng.chance(1, 5) { "same".to_string() } else { format!("n{}", node_index(n)) };
                g.set_node_name(n, &name);
                ops.push((Op::Name(node_index(n), name), true));
            }
            6 => {
                n_def += 1;
                let name = format!("d{}", n_def);
                let (desc, ty) = if defs.is_empty() || rng.chance(1, 3) {
                    ("record".to_string(), add_record(g.types_mut(), &[("x", u32_ty())]))
                } else {
                    let base = value_of(*rng.pick(&defs));
                    match rng.below(3) {
                        0 => ("list".to_string(), add_list(g.types_mut(), base)),
                        1 => ("alias".to_string(), add_alias(g.types_mut(), base)),
                        _ => ("record-of".to_string(), add_record(g.types_mut(), &[("y", base)])),
                    }
                };
                let ok = g.define_type(&name, ty).is_ok();
                if ok {
                    defs.push(ty);
                }
                ops.push((Op::Define(name, desc), ok));
            }
            7 => {
                // unset an existing argument
                let mut edges: Vec<(NodeId, String, NodeId)> = Vec::new();
                for n in &nodes {
                    for (name, src) in g.get_instantiation_arguments(*n) {
                        edges.push((*n, name.to_string(), src));
                    }
                }
                if edges.is_empty() {
                    continue;
                }
                let (t, name, s) = rng.pick(&edges).clone();
                let ok = g.unset_instantiation_argument(t, &name, s).is_ok();
                ops.push((Op::UnsetArg(node_index(t), name, node_index(s)), ok));
            }
            8 => {
                if nodes.is_empty() {
                    continue;
                }
                let n = *rng.pick(&nodes);
                let ok = g.unexport(n).is_ok();
                ops.push((Op::Unexport(node_index(n)), ok));
            }
            9 => {
                if nodes.is_empty() {
                    continue;
                }
                let n = *rng.pick(&nodes);
                g.remove_node(n);
                ops.push((Op::Remove(node_index(n)), true));
            }
            _ => {
                if pkgs.len() < 2 {
                    continue;
                }
                let i = rng.below(pkgs.len());
                let (k, id) = pkgs.remove(i);
                g.unregister_package(id);
                ops.push((Op::Unregister(k), true));
            }
        }
    }
    Built { graph: g, pkgs, ops }
}

pub fn ops_text(ops: &[(Op, bool)]) -> String {
    ops.iter()
        .map(|(o, ok)| format!("{:?}{}", o, if *ok { "" } else { "!" }))
        .collect::<Vec<_>>()
        .join(";")
}

pub fn count_ops(ops: &[(Op, bool)], counts: &mut BTreeMap<String, u64>) {
    for (o, ok) in ops {
        let k = match o {
            Op::Register(_) => "register",
            Op::Instantiate(_) => "instantiate",
            Op::Alias(..) => "alias",
            Op::Import(..) => "import",
            Op::SetArg(..) => "set-arg",
            Op::Export(..) => "export",
            Op::Name(..) => "name",
            Op::Define(..) => "define",
            Op::UnsetArg(..) => "unset-arg",
            Op::Unexport(..) => "unexport",
            Op::Remove(..) => "remove",
            Op::Unregister(..) => "unregister",
        };
        *counts.entry(format!("op:{}:{}", k, if *ok { "ok" } else { "rejected" })).or_insert(0) += 1;
    }
}
