//! Observation of `Document::parse` in the canonical text form understood by the Lean drivers
//! (lean/WacModel/AstJson.lean).  Shared by the C12, C13 and C14 harness binaries.
#![allow(dead_code)]
use serde_json::Value;
use wac_parser::lexer::{Error as LexError, Lexer, Token};
use wac_parser::{Document, Error};
use wacv::esc;

/// canonical rendering: keys sorted, no white space, strings protocol-escaped
pub fn canon(v: &Value, out: &mut String) {
    match v {
        Value::Null => out.push_str("null"),
        Value::Bool(b) => out.push_str(if *b { "true" } else { "false" }),
        Value::Number(n) => out.push_str(&n.to_string()),
        Value::String(s) => {
            out.push('"');
            out.push_str(&esc(s));
            out.push('"');
        }
        Value::Array(a) => {
            out.push('[');
            for (i, x) in a.iter().enumerate() {
                if i > 0 {
                    out.push(',');
                }
                canon(x, out);
            }
            out.push(']');
        }
        Value::Object(m) => {
            let mut keys: Vec<&String> = m.keys().collect();
            keys.sort();
            out.push('{');
            for (i, k) in keys.iter().enumerate() {
                if i > 0 {
                    out.push(',');
                }
                out.push_str(k);
                out.push(':');
                canon(&m[*k], out);
            }
            out.push('}');
        }
    }
}

pub fn is_span(v: &Value) -> Option<(usize, usize)> {
    let m = v.as_object()?;
    if m.len() == 2 {
        let o = m.get("offset")?.as_u64()?;
        let l = m.get("length")?.as_u64()?;
        return Some((o as usize, l as usize));
    }
    None
}

/// span objects -> null, keys `docs` and `span` removed
pub fn strip(v: &Value) -> Value {
    match v {
        Value::Array(a) => Value::Array(a.iter().map(strip).collect()),
        Value::Object(m) => {
            if is_span(v).is_some() {
                return Value::Null;
            }
            let mut out = serde_json::Map::new();
            for (k, x) in m {
                if k == "docs" || k == "span" {
                    continue;
                }
                out.insert(k.clone(), strip(x));
            }
            Value::Object(out)
        }
        x => x.clone(),
    }
}

pub fn spans_of(v: &Value, out: &mut Vec<(usize, usize)>) {
    match v {
        Value::Array(a) => a.iter().for_each(|x| spans_of(x, out)),
        Value::Object(m) => {
            if let Some(s) = is_span(v) {
                out.push(s);
            } else {
                m.values().for_each(|x| spans_of(x, out));
            }
        }
        _ => {}
    }
}

/// is (offset, len) inside `src` with both ends on character boundaries?
pub fn span_ok(src: &str, (o, l): (usize, usize)) -> bool {
    o.checked_add(l).map_or(false, |e| e <= src.len() && src.is_char_boundary(o) && src.is_char_boundary(e))
}

pub fn lex_err_str(e: &LexError) -> String {
    // `{:?}` for the variants without a payload, so that a variant added to the lexer later does
    // not break the build of the harness
    match e {
        LexError::UnexpectedToken => "UnexpectedToken".into(),
        LexError::UnterminatedString => "UnterminatedString".into(),
        LexError::UnterminatedComment => "UnterminatedComment".into(),
        LexError::DisallowedBidirectionalOverride(c) => format!("DisallowedBidirectionalOverride:{}", *c as u32),
        LexError::DiscouragedUnicodeCodepoint(c) => format!("DiscouragedUnicodeCodepoint:{}", *c as u32),
        LexError::DisallowedControlCode(c) => format!("DisallowedControlCode:{}", *c as u32),
        #[allow(unreachable_patterns)]
        other => format!("{:?}", other),
    }
}

fn found_str(t: &Option<Token>) -> String {
    match t {
        Some(t) => format!("{:?}", t),
        None => "none".into(),
    }
}

/// (canonical error string, span)
pub fn err_str(e: &Error) -> (String, (usize, usize)) {
    match e {
        Error::Lexer { error, span } => (format!("Lexer|{}|{}|{}", lex_err_str(error), span.offset(), span.len()), (span.offset(), span.len())),
        Error::Expected { expected, found, span } => (
            format!("Expected|{:?}|{}|{}|{}", expected, found_str(found), span.offset(), span.len()),
            (span.offset(), span.len()),
        ),
        Error::ExpectedEither { first, second, found, span } => (
            format!("ExpectedEither|{:?}|{:?}|{}|{}|{}", first, second, found_str(found), span.offset(), span.len()),
            (span.offset(), span.len()),
        ),
        Error::ExpectedMultiple { expected, count, found, span } => {
            let names: Vec<String> = expected.iter().flatten().map(|t| format!("{:?}", t)).collect();
            (
                format!("ExpectedMultiple|{}|{}|{}|{}|{}", names.join(","), count, found_str(found), span.offset(), span.len()),
                (span.offset(), span.len()),
            )
        }
        Error::EmptyType { ty, kind, span } => (format!("EmptyType|{}|{}|{}|{}", ty, kind, span.offset(), span.len()), (span.offset(), span.len())),
        Error::InvalidVersion { version, span } => {
            (format!("InvalidVersion|{}|{}|{}", esc(version), span.offset(), span.len()), (span.offset(), span.len()))
        }
    }
}

pub enum Obs {
    /// (full canonical tree, stripped canonical tree, spans)
    Ok(String, String, Vec<(usize, usize)>),
    Err(String, (usize, usize)),
    Panic(String),
}

pub fn observe(src: &str) -> Obs {
    let s = src.to_string();
    let r = wacv::guarded(move || match Document::parse(&s) {
        Ok(d) => {
            let v = serde_json::to_value(&d).expect("serialize");
            let mut full = String::new();
            canon(&v, &mut full);
            let mut st = String::new();
            canon(&strip(&v), &mut st);
            let mut spans = Vec::new();
            spans_of(&v, &mut spans);
            Obs::Ok(full, st, spans)
        }
        Err(e) => {
            let (s, sp) = err_str(&e);
            Obs::Err(s, sp)
        }
    });
    match r {
        Ok(o) => o,
        Err(p) => Obs::Panic(p),
    }
}

fn word_len(b: &[u8]) -> usize {
    if b.is_empty() {
        return 0;
    }
    let upper = if b[0].is_ascii_lowercase() {
        false
    } else if b[0].is_ascii_uppercase() {
        true
    } else {
        return 0;
    };
    let mut n = 1;
    while n < b.len() && (b[n].is_ascii_digit() || (if upper { b[n].is_ascii_uppercase() } else { b[n].is_ascii_lowercase() })) {
        n += 1;
    }
    n
}

/// does `s` match `%?word(-word)*` entirely?  (independent re-statement of the documented rule)
pub fn is_id(s: &str) -> bool {
    let mut b = s.as_bytes();
    if b.first() == Some(&b'%') {
        b = &b[1..];
    }
    loop {
        let n = word_len(b);
        if n == 0 {
            return false;
        }
        b = &b[n..];
        if b.is_empty() {
            return true;
        }
        if b[0] != b'-' {
            return false;
        }
        b = &b[1..];
    }
}

fn is_version_shape(s: &str) -> bool {
    let mut parts = s.split('.');
    let first = parts.next().unwrap_or("");
    if first.is_empty() || !first.bytes().all(|c| c.is_ascii_digit()) {
        return false;
    }
    parts.all(|p| !p.is_empty() && p.bytes().all(|c| c.is_ascii_alphanumeric() || c == b'-' || c == b'+'))
}

/// `id(:id)+(@version)?` resp. `id(:id)+(/id)+(@version)?`
pub fn is_package_token(s: &str, path: bool) -> bool {
    let (front, ver) = match s.find('@') {
        Some(i) => (&s[..i], Some(&s[i + 1..])),
        None => (s, None),
    };
    if let Some(v) = ver {
        if !is_version_shape(v) {
            return false;
        }
    }
    let mut segs = front.split('/');
    let name = segs.next().unwrap_or("");
    let ids: Vec<&str> = name.split(':').collect();
    if ids.len() < 2 || !ids.iter().all(|i| is_id(i)) {
        return false;
    }
    let rest: Vec<&str> = segs.collect();
    if path {
        !rest.is_empty() && rest.iter().all(|i| is_id(i))
    } else {
        rest.is_empty()
    }
}

const KEYWORD_TEXTS: &[&str] = &[
    "import", "with", "type", "tuple", "list", "option", "result", "borrow", "resource", "variant", "record", "flags",
    "enum", "func", "static", "constructor", "u8", "s8", "u16", "s16", "u32", "s32", "u64", "s64", "f32", "f64", "char",
    "bool", "string", "interface", "world", "export", "new", "let", "use", "include", "as", "package", "targets",
];

/// does `text` contain a `-` that is not followed by a letter, or a `:` that is not followed by
/// a letter or `%` (a separator of the identifier / package-name patterns with nothing after it)?
fn has_dangling_separator(text: &str) -> bool {
    let b = text.as_bytes();
    for i in 0..b.len() {
        let next = b.get(i + 1).copied();
        if b[i] == b'-' && !next.map_or(false, |c| c.is_ascii_alphabetic()) {
            // inside a version (after `@`) a `-` is an ordinary character
            if !text[..i].contains('@') {
                return true;
            }
        }
        if b[i] == b':' && !next.map_or(false, |c| c.is_ascii_alphabetic() || c == b'%') {
            return true;
        }
    }
    false
}

/// Token-level observation of the real lexer: `kind:offset:len` items, and a shape tag naming
/// the two known ways in which the generated lexer departs from longest match (notes/C12.md,
/// known_findings.d/parser.json), recognised by symptom *and* input shape:
///   `kw-colon`      an `Ident` token whose text is a keyword and which is directly followed by `:`
///   `dangling-sep`  an identifier / package token whose text does not match its pattern and
///                   contains a `-` or `:` with no word after it (`foo-`, `a:b:`, `a:b:/c`)
///   `odd-token`     any other token whose text does not have the documented shape of its kind
/// (`-` when none applies).
pub fn lex_obs(src: &str) -> Option<(Vec<String>, String)> {
    let mut lx = Lexer::new(src).ok()?;
    let mut items = Vec::new();
    let (mut kw_colon, mut dangling, mut odd) = (false, false, false);
    while let Some((r, span)) = lx.next() {
        let text = &src[span.offset()..span.offset() + span.len()];
        let next = src.as_bytes().get(span.offset() + span.len()).copied();
        match r {
            Ok(t) => {
                let valid = match t {
                    Token::Ident => is_id(text),
                    Token::PackageName => is_package_token(text, false),
                    Token::PackagePath => is_package_token(text, true),
                    _ => true,
                };
                if !valid {
                    if has_dangling_separator(text) {
                        dangling = true;
                    } else {
                        odd = true;
                    }
                } else if t == Token::Ident && KEYWORD_TEXTS.contains(&text) && next == Some(b':') {
                    kw_colon = true;
                }
                items.push(format!("{:?}:{}:{}", t, span.offset(), span.len()));
            }
            Err(e) => {
                if e == LexError::UnexpectedToken && text.chars().count() > 1 {
                    odd = true;
                }
                items.push(format!("!{}:{}:{}", lex_err_str(&e), span.offset(), span.len()));
            }
        }
    }
    let mut tags = Vec::new();
    if kw_colon {
        tags.push("kw-colon");
    }
    if dangling {
        tags.push("dangling-sep");
    }
    if odd {
        tags.push("odd-token");
    }
    let flag = if tags.is_empty() { "-".to_string() } else { format!("shape={}", tags.join(",")) };
    Some((items, flag))
}
