//! C14: generated (document, package) pairs.
//!
//! The packages are components written as WAT whose exports are *types* of unusual but valid
//! shapes — what `Package::find_definitions` and the path resolution of the resolver have to
//! classify: an exported component type with no / one / several exports, the single export
//! named by an interface name (with and without a version, of this or of another package), by a
//! plain kebab label; the exported item an instance, a component, a
//! function, a type, a core module; exported instance / function / value / resource types;
//! nesting of all of these; next to ordinary imports and exports of the component itself.
//!
//! The documents name the exports of such a package (and names it does not have, and paths that
//! project further into an export) by package path in every syntactic position a package path
//! can take: `import a: p:q/x;`, `use p:q/x.{t}` in an interface and in a world, world items
//! `import p:q/x;` / `export p:q/x;`, `include p:q/x;`, `targets p:q/x`, and the package itself in
//! `new p:q { … }` with accesses to its exports.
#![allow(dead_code)]

use wacv::Rng;

/// a generated package
pub struct GenPkg {
    /// `ns:name`
    pub name: String,
    pub version: Option<String>,
    pub wat: String,
    /// names of the top-level exports (first path segment)
    pub tops: Vec<String>,
    /// names found one or more levels below (further path segments, `use`d type names, …)
    pub inner: Vec<String>,
    /// what the top-level exports look like (for the counters)
    pub shapes: Vec<String>,
}

const LABELS: &[&str] = &["thing", "a-b", "x", "t", "f", "run", "UP-low", "w1"];
const TYPE_NAMES: &[&str] = &["t", "r", "x", "y", "res", "e"];
const FUNC_TYPES: &[&str] = &[
    "(func)",
    "(func (param \"a\" u32))",
    "(func (result string))",
    "(func (param \"a\" (list u8)) (param \"b\" (option u32)) (result (tuple u8 string)))",
];

struct W<'a> {
    r: &'a mut Rng,
    pkg: String,
    inner: Vec<String>,
    n: usize,
}

impl W<'_> {
    fn fresh(&mut self, p: &str) -> String {
        self.n += 1;
        format!("${}{}", p, self.n)
    }

    /// a name for an export inside a component type: interface names mostly, labels often
    fn export_name(&mut self, hint: &str) -> (String, &'static str) {
        let seg = if self.r.chance(1, 2) { hint.to_string() } else { self.r.pick(LABELS).to_lowercase() };
        match self.r.below(10) {
            0..=3 => (format!("{}/{}", self.pkg, seg), "iface-name"),
            4 => (format!("{}/{}@1.2.3", self.pkg, seg), "iface-name-versioned"),
            5 => (format!("other:pkg/{}", seg), "iface-name-foreign"),
            6 => (format!("{}/{}@0.2.10-rc.1", self.pkg, seg), "iface-name-prerelease"),
            _ => (self.r.pick(LABELS).to_string(), "label"),
        }
    }

    /// declarations of an instance type; returns the text
    fn instance_body(&mut self, depth: usize) -> String {
        let mut s = String::new();
        let n = self.r.below(4);
        let mut used: Vec<String> = Vec::new();
        for _ in 0..n {
            match self.r.below(6) {
                0 | 1 => {
                    let name = self.r.pick(LABELS).to_string();
                    if used.iter().any(|u| u.eq_ignore_ascii_case(&name)) {
                        continue;
                    }
                    let f = self.fresh("f");
                    s.push_str(&format!(" (type {} {}) (export \"{}\" (func (type {})))", f, self.r.pick(FUNC_TYPES), name, f));
                    self.inner.push(name.clone());
                    used.push(name);
                }
                2 => {
                    let name = self.r.pick(TYPE_NAMES).to_string();
                    if used.iter().any(|u| u.eq_ignore_ascii_case(&name)) {
                        continue;
                    }
                    let t = self.fresh("t");
                    let def = *self.r.pick(&["(record (field \"a\" u32))", "(enum \"p\" \"q\")", "(variant (case \"m\") (case \"n\" u8))", "(flags \"u\" \"v\")", "u32", "(list string)"]);
                    s.push_str(&format!(" (type {} {}) (export \"{}\" (type (eq {})))", t, def, name, t));
                    self.inner.push(name.clone());
                    used.push(name);
                }
                3 => {
                    let name = self.r.pick(TYPE_NAMES).to_string();
                    if used.iter().any(|u| u.eq_ignore_ascii_case(&name)) {
                        continue;
                    }
                    s.push_str(&format!(" (export \"{}\" (type (sub resource)))", name));
                    self.inner.push(name.clone());
                    used.push(name);
                }
                4 if depth > 0 => {
                    let name = self.r.pick(LABELS).to_string();
                    if used.iter().any(|u| u.eq_ignore_ascii_case(&name)) {
                        continue;
                    }
                    let i = self.fresh("i");
                    let body = self.instance_body(depth - 1);
                    s.push_str(&format!(" (type {} (instance{})) (export \"{}\" (instance (type {})))", i, body, name, i));
                    self.inner.push(name.clone());
                    used.push(name);
                }
                _ => {}
            }
        }
        s
    }

    /// one export declaration (with the type declarations it needs) of a component type
    fn component_export(&mut self, depth: usize, hint: &str, used: &mut Vec<String>, shape: &mut String) -> String {
        let (name, nk) = self.export_name(hint);
        if used.iter().any(|u| u.eq_ignore_ascii_case(&name)) {
            return String::new();
        }
        used.push(name.clone());
        if let Some((_, seg)) = name.rsplit_once('/') {
            self.inner.push(seg.split('@').next().unwrap_or(seg).to_string());
        } else {
            self.inner.push(name.clone());
        }
        let interface_named = nk != "label";
        // an interface name must name an instance (or, in a world, a component / function is
        // rejected by the validator only for some kinds): mostly instances, everything else too
        let k = if interface_named { pick_w(self.r, &[12, 3, 1, 0, 0]) } else { pick_w(self.r, &[6, 4, 3, 2, 1]) };
        let (decl, pk) = match k {
            0 => {
                let i = self.fresh("i");
                let body = self.instance_body(depth.min(1));
                (format!(" (type {} (instance{})) (export \"{}\" (instance (type {})))", i, body, name, i), "instance")
            }
            1 => {
                let c = self.fresh("c");
                let mut sub = String::new();
                let body = self.component_body(depth.saturating_sub(1), hint, &mut sub);
                (format!(" (type {} (component{})) (export \"{}\" (component (type {})))", c, body, name, c), "component")
            }
            2 => {
                let f = self.fresh("f");
                (format!(" (type {} {}) (export \"{}\" (func (type {})))", f, self.r.pick(FUNC_TYPES), name, f), "func")
            }
            3 => {
                if self.r.chance(1, 2) {
                    (format!(" (export \"{}\" (type (sub resource)))", name), "resource")
                } else {
                    let t = self.fresh("t");
                    (format!(" (type {} (record (field \"a\" u32))) (export \"{}\" (type (eq {})))", t, name, t), "type")
                }
            }
            _ => {
                let m = self.fresh("m");
                (format!(" (core type {} (module)) (export \"{}\" (core module (type {})))", m, name, m), "module")
            }
        };
        shape.push_str(&format!("{}:{}", nk, pk));
        decl
    }

    /// declarations of a component type
    fn component_body(&mut self, depth: usize, hint: &str, shape: &mut String) -> String {
        let mut s = String::new();
        // imports of the world
        for k in 0..pick_w(self.r, &[5, 3, 1]) {
            if self.r.chance(1, 2) {
                let i = self.fresh("i");
                let body = self.instance_body(0);
                s.push_str(&format!(" (type {} (instance{})) (import \"{}/dep{}\" (instance (type {})))", i, body, self.pkg, k, i));
            } else {
                let f = self.fresh("f");
                s.push_str(&format!(" (type {} {}) (import \"imp{}\" (func (type {})))", f, self.r.pick(FUNC_TYPES), k, f));
            }
        }
        let n_exports = pick_w(self.r, &[1, 12, 3, 1]);
        let mut used = Vec::new();
        let mut shapes = Vec::new();
        for _ in 0..n_exports {
            let mut sh = String::new();
            s.push_str(&self.component_export(depth, hint, &mut used, &mut sh));
            if !sh.is_empty() {
                shapes.push(sh);
            }
        }
        shape.push_str(&format!("component[{}]", shapes.join(",")));
        s
    }
}

fn pick_w(r: &mut Rng, w: &[usize]) -> usize {
    let total: usize = w.iter().sum();
    let mut x = r.below(total.max(1));
    for (i, k) in w.iter().enumerate() {
        if x < *k {
            return i;
        }
        x -= *k;
    }
    0
}

/// a package named `name` whose top-level exports are called `tops` (the first segments a
/// document uses), each an exported type of a random shape
pub fn gen_package(r: &mut Rng, name: &str, version: Option<&str>, tops: &[String]) -> GenPkg {
    let mut w = W { r, pkg: name.to_string(), inner: Vec::new(), n: 0 };
    let mut wat = String::from("(component");
    let mut shapes = Vec::new();
    let mut done: Vec<String> = Vec::new();
    // an ordinary import and export of the component itself, now and then
    let with_items = w.r.chance(1, 4);
    if with_items {
        wat.push_str(" (import \"host-f\" (func $hostf (param \"a\" u32)))");
        wat.push_str(&format!(" (import \"{}/host\" (instance $hosti (export \"f\" (func))))", name));
    }
    for top in tops {
        if done.iter().any(|d| d.eq_ignore_ascii_case(top)) {
            continue;
        }
        done.push(top.clone());
        let t = w.fresh("T");
        let mut shape = String::new();
        let decl = match pick_w(w.r, &[16, 3, 2, 1, 1]) {
            0 => {
                let body = w.component_body(2, top, &mut shape);
                format!(" (type {} (component{}))", t, body)
            }
            1 => {
                shape.push_str("instance");
                let body = w.instance_body(1);
                format!(" (type {} (instance{}))", t, body)
            }
            2 => {
                shape.push_str("func");
                format!(" (type {} {})", t, w.r.pick(FUNC_TYPES))
            }
            3 => {
                shape.push_str("value");
                format!(" (type {} (record (field \"a\" u32) (field \"b\" string)))", t)
            }
            _ => {
                shape.push_str("resource");
                format!(" (type {} (resource (rep i32)))", t)
            }
        };
        wat.push_str(&decl);
        wat.push_str(&format!(" (export \"{}\" (type {}))", top, t));
        shapes.push(shape);
    }
    if with_items {
        wat.push_str(" (export \"host-g\" (func $hostf))");
        wat.push_str(&format!(" (export \"{}/host-out\" (instance $hosti))", name));
    }
    wat.push(')');
    let inner = std::mem::take(&mut w.inner);
    GenPkg { name: name.to_string(), version: version.map(|v| v.to_string()), wat, tops: done, inner, shapes }
}

const PKG_NAMES: &[&str] = &["foo:bar", "p:q", "wasi:io", "a1:b-c"];
const TOP_NAMES: &[&str] = &["x", "y", "baz", "qux", "i", "w", "thing", "a-b", "t", "world"];

/// a generated package with its own choice of names
pub fn gen_named_package(r: &mut Rng) -> GenPkg {
    let name = r.pick(PKG_NAMES).to_string();
    let version = if r.chance(1, 4) { Some(*r.pick(&["1.0.0", "0.2.10", "1.0.0-rc.1"])) } else { None };
    let n = 1 + r.below(4);
    let mut tops = Vec::new();
    for _ in 0..n {
        tops.push(r.pick(TOP_NAMES).to_string());
    }
    gen_package(r, &name, version, &tops)
}

/// `%`-escape of an identifier that could be a keyword
fn ident(s: &str) -> String {
    format!("%{}", s.to_lowercase())
}

/// a document that refers to `pkg` by package path in `n` syntactic positions
pub fn gen_document(r: &mut Rng, pkg: &GenPkg) -> String {
    // the path: a top-level export most of the time, a missing one, a deeper projection
    let path = |r: &mut Rng| -> String {
        let mut segs = vec![if pkg.tops.is_empty() || r.chance(1, 8) { "nonexistent".to_string() } else { r.pick(&pkg.tops).clone() }];
        while r.chance(1, 8) && !pkg.inner.is_empty() {
            segs.push(r.pick(&pkg.inner).to_lowercase());
        }
        let version = match (&pkg.version, r.below(12)) {
            (_, 0) => "@9.9.9".to_string(),
            (Some(_), 1) => String::new(),
            (Some(v), _) => format!("@{}", v),
            (None, _) => String::new(),
        };
        format!("{}/{}{}", pkg.name, segs.join("/"), version)
    };
    let type_names = |r: &mut Rng| -> String {
        let n = 1 + r.below(2);
        let mut v: Vec<String> = Vec::new();
        for _ in 0..n {
            let t = if pkg.inner.is_empty() || r.chance(1, 4) { r.pick(TYPE_NAMES).to_string() } else { r.pick(&pkg.inner).to_lowercase() };
            if !v.contains(&t) {
                v.push(t);
            }
        }
        v.iter().map(|t| ident(t)).collect::<Vec<_>>().join(", ")
    };
    let mut doc = String::new();
    if r.chance(1, 6) {
        doc.push_str(&format!("package test:doc targets {};\n", path(r)));
    } else {
        doc.push_str("package test:doc;\n");
    }
    let n = 1 + pick_w(r, &[5, 3, 2]);
    for k in 0..n {
        let p = path(r);
        match r.below(12) {
            0 | 1 => doc.push_str(&format!("import i{k}: {p};\n")),
            2 => doc.push_str(&format!("import i{k} as \"my-{k}\": {p};\nexport i{k};\n")),
            3 => doc.push_str(&format!("interface n{k} {{\n    use {p}.{{{}}};\n}}\n", type_names(r))),
            4 => doc.push_str(&format!("world v{k} {{\n    use {p}.{{{}}};\n}}\n", type_names(r))),
            5 | 6 => doc.push_str(&format!("world v{k} {{\n    import {p};\n}}\n")),
            7 => doc.push_str(&format!("world v{k} {{\n    export {p};\n}}\n")),
            8 => doc.push_str(&format!("world v{k} {{\n    import {p};\n    export {};\n    include {};\n}}\n", path(r), path(r))),
            9 => doc.push_str(&format!("world v{k} {{\n    include {p};\n}}\n")),
            10 => {
                let version = pkg.version.as_ref().map(|v| format!("@{}", v)).unwrap_or_default();
                let top = if pkg.tops.is_empty() { "x".to_string() } else { r.pick(&pkg.tops).clone() };
                doc.push_str(&format!("let l{k} = new {}{} {{ ... }};\nexport l{k}[\"{}\"] as e{k};\n", pkg.name, version, top));
            }
            _ => {
                let version = pkg.version.as_ref().map(|v| format!("@{}", v)).unwrap_or_default();
                let top = if pkg.tops.is_empty() { "x".to_string() } else { r.pick(&pkg.tops).clone() };
                doc.push_str(&format!("let l{k} = new {}{} {{}};\nlet m{k} = l{k}.{};\nexport l{k}...;\n", pkg.name, version, ident(&top)));
            }
        }
    }
    doc
}

/// (package name incl. version as the document writes it, first path segments) of every package
/// path in a source text — a textual scan, independent of the parser
pub fn package_paths(src: &str) -> Vec<(String, String)> {
    let b = src.as_bytes();
    let is_name = |c: u8| c.is_ascii_alphanumeric() || c == b'-';
    let mut out = Vec::new();
    let mut i = 0;
    while i < b.len() {
        if b[i] == b':' && i > 0 && is_name(b[i - 1]) && i + 1 < b.len() && is_name(b[i + 1]) {
            let mut s = i;
            while s > 0 && is_name(b[s - 1]) {
                s -= 1;
            }
            let mut e = i + 1;
            while e < b.len() && is_name(b[e]) {
                e += 1;
            }
            if e < b.len() && b[e] == b'/' {
                let name = &src[s..e];
                let mut f = e + 1;
                while f < b.len() && is_name(b[f]) {
                    f += 1;
                }
                let seg = &src[e + 1..f];
                // skip further segments, read the version
                let mut g = f;
                while g < b.len() && (is_name(b[g]) || b[g] == b'/') {
                    g += 1;
                }
                let mut version = String::new();
                if g < b.len() && b[g] == b'@' {
                    let mut h = g + 1;
                    while h < b.len() && (is_name(b[h]) || b[h] == b'.' || b[h] == b'+') {
                        h += 1;
                    }
                    version = src[g..h].trim_end_matches('.').to_string();
                    g = h;
                }
                if !seg.is_empty() {
                    out.push((format!("{}{}", name, version), seg.to_string()));
                }
                i = g;
                continue;
            }
            i = e;
            continue;
        }
        i += 1;
    }
    out
}

// ------------------------------------------------------------------------------------------------
// documents whose encoding has to report a conflict between imports

/// (name, version-free key) pool: one plain name and one interface on two compatible and one
/// incompatible version
const CONFLICT_NAMES: &[&str] = &["foo", "test:s/m@1.0.0", "test:s/m@1.1.0", "test:s/m@1.10.0", "test:s/m@2.0.0"];

/// (WAT type of an import, the same type written in a document)
const CONFLICT_TYPES: &[(&str, &str)] = &[
    ("(instance (export \"a\" (func)))", "interface { a: func(); }"),
    ("(instance (export \"a\" (func (param \"x\" u32) (result u32))))", "interface { a: func(x: u32) -> u32; }"),
    ("(instance (export \"b\" (func)))", "interface { b: func(); }"),
    ("(func)", "func()"),
    ("(func (param \"x\" u32))", "func(x: u32)"),
];

/// Two packages that each leave one import unsatisfied and a document that instantiates them
/// implicitly and imports, explicitly, names on the same name / semver track with the same or
/// another type — in every order.  Whatever conflict the encoder finds (explicit against implicit,
/// implicit against implicit, explicit against explicit, a conflict inside a merge) has to come
/// back as a diagnostic of `Resolution::encode`.
/// Returns (document, [(package name, WAT)]).
pub fn gen_conflict(r: &mut Rng) -> (String, Vec<(String, String)>) {
    let mut pkgs = Vec::new();
    let mut stmts: Vec<String> = Vec::new();
    // a compatible pair of names most of the time
    let names: Vec<&str> = if r.chance(2, 3) {
        let v: Vec<&str> = CONFLICT_NAMES.iter().copied().filter(|n| n.starts_with("test:s/m@1.")).collect();
        v
    } else {
        CONFLICT_NAMES.to_vec()
    };
    let n_pk = 1 + r.below(2);
    for k in 0..n_pk {
        let name = *r.pick(&names);
        let (wat_ty, _) = *r.pick(CONFLICT_TYPES);
        pkgs.push((format!("p:c{k}"), format!("(component (import \"{}\" {}))", name, wat_ty)));
        for j in 0..(1 + r.below(2)) {
            stmts.push(format!("let l{k}x{j} = new p:c{k} {{ ... }};"));
        }
    }
    for k in 0..r.below(3) {
        let name = *r.pick(&names);
        let (_, doc_ty) = *r.pick(CONFLICT_TYPES);
        stmts.push(format!("import m{k} as \"{}\": {};", name, doc_ty));
    }
    r.shuffle(&mut stmts);
    let mut doc = String::from("package test:doc;\n");
    for s in stmts {
        doc.push_str(&s);
        doc.push('\n');
    }
    (doc, pkgs)
}
