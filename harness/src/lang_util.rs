//! Shared by c04 (and reusable): the abstract package library / statement sublanguage mirrored from
//! `lean/WacModel/Program.lean`, its WAC pretty-printer, its protocol (token) form, the WAT
//! realisation of a library, and an independent wiring reader over `wasmparser::Parser` payloads.
#![allow(dead_code)]

use std::collections::BTreeMap;
use std::fmt::Write as _;

// ------------------------------------------------------------------------------------------
// kinds, packages

#[derive(Clone, Debug, PartialEq, Eq)]
pub enum Kind {
    Func(usize),
    Inst(Option<String>, Vec<(String, Kind)>),
    Type(Option<String>, Vec<(String, Kind)>),
    /// an interface declared in the document (only in the generator's bookkeeping, never in a library)
    IfaceTy(Option<String>, Vec<(String, Kind)>),
}

impl Kind {
    pub fn is_inst(&self) -> bool {
        matches!(self, Kind::Inst(..))
    }
    pub fn exports(&self) -> Option<&Vec<(String, Kind)>> {
        match self {
            Kind::Inst(_, e) => Some(e),
            _ => None,
        }
    }
    /// `Kind.sub` of the Lean side (used only to steer generation)
    pub fn sub(&self, b: &Kind) -> bool {
        match (self, b) {
            (Kind::Func(a), Kind::Func(b)) => a == b,
            (Kind::Inst(_, ea), Kind::Inst(_, eb)) => eb.iter().all(|(n, k)| ea.iter().find(|(m, _)| m == n).map_or(false, |(_, k2)| k2.sub(k))),
            _ => false,
        }
    }
    pub fn render(&self) -> String {
        match self {
            Kind::Func(n) => format!("func{n}"),
            Kind::Inst(_, es) => {
                let mut v: Vec<String> = es.iter().map(|(n, k)| format!("{n}:{}", k.render())).collect();
                v.sort();
                format!("inst{{{}}}", v.join(","))
            }
            Kind::Type(..) | Kind::IfaceTy(..) => "type".into(),
        }
    }
    pub fn tokens(&self, out: &mut Vec<String>) {
        match self {
            Kind::Func(n) => {
                out.push("F".into());
                out.push(n.to_string());
            }
            Kind::IfaceTy(..) => unreachable!("not a library kind"),
            Kind::Inst(id, es) | Kind::Type(id, es) => {
                out.push(if matches!(self, Kind::Inst(..)) { "I" } else { "T" }.into());
                out.push(id.clone().unwrap_or_default());
                out.push(es.len().to_string());
                for (n, k) in es {
                    out.push(n.clone());
                    k.tokens(out);
                }
            }
        }
    }
}

#[derive(Clone, Debug)]
pub struct Package {
    pub name: String,
    pub version: Option<String>,
    pub imports: Vec<(String, Kind)>,
    pub exports: Vec<(String, Kind)>,
}

impl Package {
    pub fn key(&self) -> String {
        match &self.version {
            Some(v) => format!("{}@{}", self.name, v),
            None => self.name.clone(),
        }
    }
    pub fn tokens(&self, out: &mut Vec<String>) {
        out.push(self.name.clone());
        out.push(self.version.clone().unwrap_or_default());
        out.push(self.imports.len().to_string());
        for (n, k) in &self.imports {
            out.push(n.clone());
            k.tokens(out);
        }
        out.push(self.exports.len().to_string());
        for (n, k) in &self.exports {
            out.push(n.clone());
            k.tokens(out);
        }
    }
}

// ------------------------------------------------------------------------------------------
// programs

#[derive(Clone, Debug)]
pub enum ArgName {
    Id(String),
    Str(String),
}

#[derive(Clone, Debug)]
pub enum Expr {
    Ident(String),
    New(String, Option<String>, Vec<Arg>),
    Nested(Box<Expr>),
    Access(Box<Expr>, String),
    NamedAccess(Box<Expr>, String),
}

#[derive(Clone, Debug)]
pub enum Arg {
    Inferred(String),
    Named(ArgName, Expr),
    Spread(String),
    Fill,
}

#[derive(Clone, Debug)]
pub enum ImportTy {
    Path(String, Option<String>, Vec<String>),
    Func(usize),
    Iface(Vec<(String, usize)>),
    Ident(String),
}

#[derive(Clone, Debug)]
pub enum ExportOpt {
    None,
    As(String),
    Spread,
}

#[derive(Clone, Debug)]
pub enum Stmt {
    Import(String, Option<String>, ImportTy),
    Let(String, Expr),
    Export(Expr, ExportOpt),
    /// `interface id { name: func(…); … }`
    Iface(String, Vec<(String, usize)>),
}

#[derive(Clone, Debug)]
pub struct Program {
    pub self_name: String,
    pub stmts: Vec<Stmt>,
}

pub fn is_ident(s: &str) -> bool {
    // id ::= [a-z][a-z0-9]*('-'[a-z][a-z0-9]*)*   (keywords are avoided by the generator's pools)
    !s.is_empty()
        && s.split('-').all(|w| {
            let mut cs = w.chars();
            matches!(cs.next(), Some(c) if c.is_ascii_lowercase()) && cs.all(|c| c.is_ascii_lowercase() || c.is_ascii_digit())
        })
}

fn func_ty_text(sig: usize) -> String {
    let ps: Vec<String> = (0..sig).map(|i| format!("p{i}: u32")).collect();
    format!("func({})", ps.join(", "))
}

fn name_or_string(n: &str, prefer_string: bool) -> String {
    if is_ident(n) && !prefer_string {
        n.to_string()
    } else {
        format!("\"{n}\"")
    }
}

impl Expr {
    pub fn print(&self, out: &mut String) {
        match self {
            Expr::Ident(x) => out.push_str(x),
            Expr::New(pkg, ver, args) => {
                write!(out, "new {pkg}").unwrap();
                if let Some(v) = ver {
                    write!(out, "@{v}").unwrap();
                }
                out.push_str(" {");
                for (i, a) in args.iter().enumerate() {
                    out.push_str(if i == 0 { " " } else { ", " });
                    match a {
                        Arg::Inferred(x) => out.push_str(x),
                        Arg::Named(ArgName::Id(n), e) => {
                            write!(out, "{n}: ").unwrap();
                            e.print(out);
                        }
                        Arg::Named(ArgName::Str(n), e) => {
                            write!(out, "\"{n}\": ").unwrap();
                            e.print(out);
                        }
                        Arg::Spread(x) => write!(out, "...{x}").unwrap(),
                        Arg::Fill => out.push_str("..."),
                    }
                }
                out.push_str(" }");
            }
            Expr::Nested(e) => {
                out.push('(');
                e.print(out);
                out.push(')');
            }
            Expr::Access(e, id) => {
                e.print(out);
                write!(out, ".{id}").unwrap();
            }
            Expr::NamedAccess(e, s) => {
                e.print(out);
                write!(out, "[\"{s}\"]").unwrap();
            }
        }
    }
    pub fn tokens(&self, out: &mut Vec<String>) {
        match self {
            Expr::Ident(x) => {
                out.push("id".into());
                out.push(x.clone());
            }
            Expr::New(pkg, ver, args) => {
                out.push("new".into());
                out.push(pkg.clone());
                out.push(ver.clone().unwrap_or_default());
                out.push(args.len().to_string());
                for a in args {
                    match a {
                        Arg::Inferred(x) => {
                            out.push("inf".into());
                            out.push(x.clone());
                        }
                        Arg::Named(n, e) => {
                            out.push("named".into());
                            match n {
                                ArgName::Id(s) => {
                                    out.push("I".into());
                                    out.push(s.clone());
                                }
                                ArgName::Str(s) => {
                                    out.push("S".into());
                                    out.push(s.clone());
                                }
                            }
                            e.tokens(out);
                        }
                        Arg::Spread(x) => {
                            out.push("spr".into());
                            out.push(x.clone());
                        }
                        Arg::Fill => out.push("fill".into()),
                    }
                }
            }
            Expr::Nested(e) => {
                out.push("par".into());
                e.tokens(out);
            }
            Expr::Access(e, id) => {
                out.push("acc".into());
                e.tokens(out);
                out.push(id.clone());
            }
            Expr::NamedAccess(e, s) => {
                out.push("nacc".into());
                e.tokens(out);
                out.push(s.clone());
            }
        }
    }
}

pub fn path_string(pkg: &str, ver: &Option<String>, segs: &[String]) -> String {
    let mut s = pkg.to_string();
    for g in segs {
        s.push('/');
        s.push_str(g);
    }
    if let Some(v) = ver {
        s.push('@');
        s.push_str(v);
    }
    s
}

impl Program {
    /// WAC source text.  `string_as` chooses the string form for `as` names that could be identifiers.
    pub fn print(&self, string_as: bool) -> String {
        let mut out = format!("package {};\n", self.self_name);
        for s in &self.stmts {
            match s {
                Stmt::Import(id, as_, ty) => {
                    write!(out, "import {id}").unwrap();
                    if let Some(n) = as_ {
                        write!(out, " as {}", name_or_string(n, string_as)).unwrap();
                    }
                    out.push_str(": ");
                    match ty {
                        ImportTy::Path(p, v, segs) => out.push_str(&path_string(p, v, segs)),
                        ImportTy::Func(sig) => out.push_str(&func_ty_text(*sig)),
                        ImportTy::Iface(fs) => {
                            out.push_str("interface {");
                            for (n, sig) in fs {
                                write!(out, " {n}: {};", func_ty_text(*sig)).unwrap();
                            }
                            out.push_str(" }");
                        }
                        ImportTy::Ident(x) => out.push_str(x),
                    }
                    out.push_str(";\n");
                }
                Stmt::Iface(id, fs) => {
                    write!(out, "interface {id} {{").unwrap();
                    for (n, sig) in fs {
                        write!(out, " {n}: {};", func_ty_text(*sig)).unwrap();
                    }
                    out.push_str(" }\n");
                }
                Stmt::Let(id, e) => {
                    write!(out, "let {id} = ").unwrap();
                    e.print(&mut out);
                    out.push_str(";\n");
                }
                Stmt::Export(e, opt) => {
                    out.push_str("export ");
                    e.print(&mut out);
                    match opt {
                        ExportOpt::None => {}
                        ExportOpt::As(n) => write!(out, " as {}", name_or_string(n, string_as)).unwrap(),
                        ExportOpt::Spread => out.push_str("..."),
                    }
                    out.push_str(";\n");
                }
            }
        }
        out
    }
    pub fn tokens(&self, out: &mut Vec<String>) {
        out.push("P".into());
        out.push(self.stmts.len().to_string());
        for s in &self.stmts {
            match s {
                Stmt::Import(id, as_, ty) => {
                    out.push("imp".into());
                    out.push(id.clone());
                    out.push(as_.clone().unwrap_or_default());
                    match ty {
                        ImportTy::Path(p, v, segs) => {
                            out.push("path".into());
                            out.push(p.clone());
                            out.push(v.clone().unwrap_or_default());
                            out.push(segs.len().to_string());
                            out.extend(segs.iter().cloned());
                        }
                        ImportTy::Func(sig) => {
                            out.push("func".into());
                            out.push(sig.to_string());
                        }
                        ImportTy::Iface(fs) => {
                            out.push("iface".into());
                            out.push(fs.len().to_string());
                            for (n, s) in fs {
                                out.push(n.clone());
                                out.push(s.to_string());
                            }
                        }
                        ImportTy::Ident(x) => {
                            out.push("ident".into());
                            out.push(x.clone());
                        }
                    }
                }
                Stmt::Iface(id, fs) => {
                    out.push("ifc".into());
                    out.push(id.clone());
                    out.push(fs.len().to_string());
                    for (n, s) in fs {
                        out.push(n.clone());
                        out.push(s.to_string());
                    }
                }
                Stmt::Let(id, e) => {
                    out.push("let".into());
                    out.push(id.clone());
                    e.tokens(out);
                }
                Stmt::Export(e, opt) => {
                    out.push("exp".into());
                    e.tokens(out);
                    match opt {
                        ExportOpt::None => out.push("none".into()),
                        ExportOpt::As(n) => {
                            out.push("as".into());
                            out.push(n.clone());
                        }
                        ExportOpt::Spread => out.push("spread".into()),
                    }
                }
            }
        }
    }
}

// ------------------------------------------------------------------------------------------
// reading the token form back (for --replay)

pub struct Toks<'a> {
    pub v: &'a [String],
    pub i: usize,
}

impl<'a> Toks<'a> {
    pub fn next(&mut self) -> Option<&'a str> {
        let r = self.v.get(self.i).map(|s| s.as_str());
        self.i += 1;
        r
    }
    fn opt(&mut self) -> Option<Option<String>> {
        self.next().map(|s| if s.is_empty() { None } else { Some(s.to_string()) })
    }
    fn num(&mut self) -> Option<usize> {
        self.next()?.parse().ok()
    }
    pub fn kind(&mut self) -> Option<Kind> {
        match self.next()? {
            "F" => Some(Kind::Func(self.num()?)),
            t @ ("I" | "T") => {
                let id = self.opt()?;
                let es = self.entries()?;
                Some(if t == "I" { Kind::Inst(id, es) } else { Kind::Type(id, es) })
            }
            _ => None,
        }
    }
    fn entries(&mut self) -> Option<Vec<(String, Kind)>> {
        let n = self.num()?;
        let mut v = Vec::new();
        for _ in 0..n {
            let name = self.next()?.to_string();
            v.push((name, self.kind()?));
        }
        Some(v)
    }
    pub fn package(&mut self) -> Option<Package> {
        let name = self.next()?.to_string();
        let version = self.opt()?;
        let imports = self.entries()?;
        let exports = self.entries()?;
        Some(Package { name, version, imports, exports })
    }
    pub fn lib(&mut self) -> Option<Vec<Package>> {
        if self.next()? != "L" {
            return None;
        }
        let n = self.num()?;
        (0..n).map(|_| self.package()).collect()
    }
    pub fn expr(&mut self) -> Option<Expr> {
        match self.next()? {
            "id" => Some(Expr::Ident(self.next()?.to_string())),
            "new" => {
                let pkg = self.next()?.to_string();
                let ver = self.opt()?;
                let n = self.num()?;
                let mut args = Vec::new();
                for _ in 0..n {
                    args.push(match self.next()? {
                        "inf" => Arg::Inferred(self.next()?.to_string()),
                        "spr" => Arg::Spread(self.next()?.to_string()),
                        "fill" => Arg::Fill,
                        "named" => {
                            let form = self.next()?;
                            let name = self.next()?.to_string();
                            let e = self.expr()?;
                            Arg::Named(if form == "I" { ArgName::Id(name) } else { ArgName::Str(name) }, e)
                        }
                        _ => return None,
                    });
                }
                Some(Expr::New(pkg, ver, args))
            }
            "par" => Some(Expr::Nested(Box::new(self.expr()?))),
            t @ ("acc" | "nacc") => {
                let e = Box::new(self.expr()?);
                let x = self.next()?.to_string();
                Some(if t == "acc" { Expr::Access(e, x) } else { Expr::NamedAccess(e, x) })
            }
            _ => None,
        }
    }
    pub fn program(&mut self, self_name: &str) -> Option<Program> {
        if self.next()? != "P" {
            return None;
        }
        let n = self.num()?;
        let mut stmts = Vec::new();
        for _ in 0..n {
            stmts.push(match self.next()? {
                "imp" => {
                    let id = self.next()?.to_string();
                    let as_ = self.opt()?;
                    let ty = match self.next()? {
                        "path" => {
                            let p = self.next()?.to_string();
                            let v = self.opt()?;
                            let k = self.num()?;
                            let mut segs = Vec::new();
                            for _ in 0..k {
                                segs.push(self.next()?.to_string());
                            }
                            ImportTy::Path(p, v, segs)
                        }
                        "func" => ImportTy::Func(self.num()?),
                        "iface" => {
                            let k = self.num()?;
                            let mut fs = Vec::new();
                            for _ in 0..k {
                                let n = self.next()?.to_string();
                                fs.push((n, self.num()?));
                            }
                            ImportTy::Iface(fs)
                        }
                        "ident" => ImportTy::Ident(self.next()?.to_string()),
                        _ => return None,
                    };
                    Stmt::Import(id, as_, ty)
                }
                "ifc" => {
                    let id = self.next()?.to_string();
                    let k = self.num()?;
                    let mut fs = Vec::new();
                    for _ in 0..k {
                        let n = self.next()?.to_string();
                        fs.push((n, self.num()?));
                    }
                    Stmt::Iface(id, fs)
                }
                "let" => {
                    let id = self.next()?.to_string();
                    Stmt::Let(id, self.expr()?)
                }
                "exp" => {
                    let e = self.expr()?;
                    let opt = match self.next()? {
                        "none" => ExportOpt::None,
                        "spread" => ExportOpt::Spread,
                        "as" => ExportOpt::As(self.next()?.to_string()),
                        _ => return None,
                    };
                    Stmt::Export(e, opt)
                }
                _ => return None,
            });
        }
        Some(Program { self_name: self_name.to_string(), stmts })
    }
}

// ------------------------------------------------------------------------------------------
// WAT realisation of a package

fn wat_func_type(sig: usize) -> String {
    let mut s = String::from("(func");
    for i in 0..sig {
        write!(s, " (param \"p{i}\" u32)").unwrap();
    }
    s.push(')');
    s
}

fn wat_type(k: &Kind) -> String {
    match k {
        Kind::Func(n) => wat_func_type(*n),
        Kind::Inst(_, es) => {
            let mut s = String::from("(instance");
            for (n, k) in es {
                write!(s, " (export \"{n}\" {})", wat_type(k)).unwrap();
            }
            s.push(')');
            s
        }
        Kind::IfaceTy(..) => unreachable!("not a library kind"),
        Kind::Type(id, es) => {
            // only used at the top level of a package's exports
            format!("(component (export \"{}\" {}))", id.clone().unwrap_or_default(), wat_type(&Kind::Inst(None, es.clone())))
        }
    }
}

fn realise(k: &Kind, counter: &mut usize, out: &mut String) -> (&'static str, String) {
    let id = format!("$e{}", *counter);
    *counter += 1;
    match k {
        Kind::Func(n) => {
            write!(out, "  (func {id}").unwrap();
            for i in 0..*n {
                write!(out, " (param \"p{i}\" u32)").unwrap();
            }
            writeln!(out, " (canon lift (core func $ci \"f{n}\")))").unwrap();
            ("func", id)
        }
        Kind::Inst(_, es) => {
            let mut parts = Vec::new();
            for (n, k) in es {
                let (sort, cid) = realise(k, counter, out);
                parts.push(format!("(export \"{n}\" ({sort} {cid}))"));
            }
            writeln!(out, "  (instance {id} {})", parts.join(" ")).unwrap();
            ("instance", id)
        }
        Kind::Type(..) | Kind::IfaceTy(..) => {
            writeln!(out, "  (type {id} {})", wat_type(k)).unwrap();
            ("type", id)
        }
    }
}

pub const MAX_SIG: usize = 3;

/// WAT text of a component with exactly the abstract package's imports and exports.  `uniq`
/// makes the bytes of every package distinct (so an embedded component identifies its package).
pub fn package_wat(p: &Package, uniq: usize) -> String {
    let mut s = String::from("(component\n");
    for (n, k) in &p.imports {
        writeln!(s, "  (import \"{n}\" {})", wat_type(k)).unwrap();
    }
    s.push_str("  (core module $m\n");
    for n in 0..=MAX_SIG {
        write!(s, "    (func (export \"f{n}\")").unwrap();
        if n > 0 {
            write!(s, " (param{})", " i32".repeat(n)).unwrap();
        }
        s.push_str(")\n");
    }
    writeln!(s, "    (func (export \"pkg-{uniq}\")))").unwrap();
    s.push_str("  (core instance $ci (instantiate $m))\n");
    let mut counter = 0;
    for (n, k) in &p.exports {
        let (sort, id) = realise(k, &mut counter, &mut s);
        writeln!(s, "  (export \"{n}\" ({sort} {id}))").unwrap();
    }
    s.push_str(")\n");
    s
}

// ------------------------------------------------------------------------------------------
// decoding a realised package back through wac-types (self-check of the realisation)

pub fn kind_of_item(types: &wac_types::Types, k: wac_types::ItemKind) -> Option<Kind> {
    use wac_types::{ItemKind, Type};
    match k {
        ItemKind::Func(id) => {
            let f = &types[id];
            if f.result.is_some() {
                return None;
            }
            Some(Kind::Func(f.params.len()))
        }
        ItemKind::Instance(id) => {
            let i = &types[id];
            let mut es = Vec::new();
            for (n, k) in &i.exports {
                es.push((n.clone(), kind_of_item(types, *k)?));
            }
            Some(Kind::Inst(i.id.clone(), es))
        }
        ItemKind::Type(Type::World(id)) => {
            let w = &types[id];
            if w.exports.len() != 1 || !w.imports.is_empty() {
                return None;
            }
            let (n, k) = w.exports.get_index(0).unwrap();
            match kind_of_item(types, *k)? {
                Kind::Inst(id, es) if id.as_deref() == Some(n.as_str()) => Some(Kind::Type(id, es)),
                _ => None,
            }
        }
        _ => None,
    }
}

/// the abstract shape `wac_types::Package` sees in `bytes`
pub fn decode_package(name: &str, version: Option<&semver::Version>, bytes: &[u8]) -> Result<(Vec<(String, Kind)>, Vec<(String, Kind)>, Vec<String>), String> {
    let mut types = wac_types::Types::default();
    let pkg = wac_types::Package::from_bytes(name, version, bytes.to_vec(), &mut types).map_err(|e| format!("{e:#}"))?;
    let world = &types[pkg.ty()];
    let mut imports = Vec::new();
    for (n, k) in &world.imports {
        imports.push((n.clone(), kind_of_item(&types, *k).ok_or_else(|| format!("import {n}: unsupported kind"))?));
    }
    let mut exports = Vec::new();
    for (n, k) in &world.exports {
        exports.push((n.clone(), kind_of_item(&types, *k).ok_or_else(|| format!("export {n}: unsupported kind"))?));
    }
    let defs = pkg.definitions().keys().cloned().collect();
    Ok((imports, exports, defs))
}

// ------------------------------------------------------------------------------------------
// independent wiring reader

#[derive(Default, Debug)]
pub struct Wiring {
    pub imports: Vec<(String, String)>,
    pub insts: Vec<String>,
    pub exports: Vec<(String, String, String)>,
    pub notes: Vec<String>,
}

impl Wiring {
    /// same text as `Wac.Lang.Composition.render`
    pub fn render(&self) -> String {
        let mut imports: Vec<(String, String)> = self.imports.iter().map(|(n, k)| (n.clone(), format!("{n}:{k}"))).collect();
        imports.sort();
        let imports: Vec<String> = imports.into_iter().map(|(_, s)| s).collect();
        let mut exports: Vec<(String, String)> = self.exports.iter().map(|(n, p, k)| (n.clone(), format!("{n}={p}:{k}"))).collect();
        exports.sort();
        format!(
            "imports=[{}];insts=[{}];exports=[{}]",
            imports.join(","),
            self.insts.join(";"),
            exports.into_iter().map(|(_, s)| s).collect::<Vec<_>>().join(",")
        )
    }
}

fn entity_kind(types: &wasmparser::types::TypesRef, ty: wasmparser::component_types::ComponentEntityType) -> String {
    use wasmparser::component_types::ComponentEntityType as E;
    match ty {
        E::Func(id) => format!("func{}", types[id].params.len()),
        E::Instance(id) => {
            let mut v: Vec<String> = types[id].exports.iter().map(|(n, t)| format!("{n}:{}", entity_kind(types, *t))).collect();
            v.sort();
            format!("inst{{{}}}", v.join(","))
        }
        E::Type { .. } => "type".into(),
        E::Component(_) => "component".into(),
        E::Module(_) => "module".into(),
        E::Value(_) => "value".into(),
    }
}

/// `packages`: (key, bytes) of the library, to identify embedded components.
pub fn read_wiring(bytes: &[u8], packages: &[(String, Vec<u8>)]) -> Result<Wiring, String> {
    use wasmparser::{ComponentAlias, ComponentExternalKind as K, ComponentInstance, ComponentTypeRef, Parser, Payload};
    let mut validator = wasmparser::Validator::new_with_features(wasmparser::WasmFeatures::all());
    let types = validator.validate_all(bytes).map_err(|e| format!("output does not validate: {e}"))?;
    let types = types.as_ref();

    let mut w = Wiring::default();
    // provenance per index space
    let mut funcs: Vec<String> = Vec::new();
    let mut instances: Vec<String> = Vec::new();
    let mut components: Vec<String> = Vec::new(); // package key
    let mut tys: Vec<String> = Vec::new();
    let mut values: Vec<String> = Vec::new();
    let mut modules: Vec<String> = Vec::new();
    let mut ninst = 0usize;
    let mut depth = 0usize;
    fn space<'a>(
        k: wasmparser::ComponentExternalKind,
        funcs: &'a mut Vec<String>,
        instances: &'a mut Vec<String>,
        components: &'a mut Vec<String>,
        tys: &'a mut Vec<String>,
        values: &'a mut Vec<String>,
        modules: &'a mut Vec<String>,
    ) -> &'a mut Vec<String> {
        match k {
            K::Func => funcs,
            K::Instance => instances,
            K::Component => components,
            K::Type => tys,
            K::Value => values,
            K::Module => modules,
        }
    }
    for payload in Parser::new(0).parse_all(bytes) {
        let payload = payload.map_err(|e| e.to_string())?;
        if depth > 0 {
            match payload {
                Payload::ComponentSection { .. } | Payload::ModuleSection { .. } => depth += 1,
                Payload::End(_) => depth -= 1,
                _ => {}
            }
            continue;
        }
        match payload {
            Payload::Version { .. } | Payload::End(_) | Payload::CustomSection(_) => {}
            Payload::ComponentImportSection(s) => {
                for imp in s {
                    let imp = imp.map_err(|e| e.to_string())?;
                    let name = imp.name.0.to_string();
                    let prov = format!("import({name})");
                    match imp.ty {
                        ComponentTypeRef::Func(_) => funcs.push(prov),
                        ComponentTypeRef::Instance(_) => instances.push(prov),
                        ComponentTypeRef::Type(_) => tys.push(prov),
                        ComponentTypeRef::Value(_) => values.push(prov),
                        ComponentTypeRef::Module(_) => modules.push(prov),
                        ComponentTypeRef::Component(_) => {
                            // `unlocked-dep=<name[@{>=version}]>`
                            let key = name
                                .strip_prefix("unlocked-dep=<")
                                .and_then(|s| s.strip_suffix('>'))
                                .map(|s| s.replace("@{>=", "@").replace('}', ""))
                                .unwrap_or_else(|| format!("?{name}"));
                            components.push(key);
                            continue;
                        }
                    }
                    let ety = types.component_entity_type_of_import(&name).ok_or("no type for import")?;
                    w.imports.push((name, entity_kind(&types, ety)));
                }
            }
            Payload::ComponentTypeSection(s) => {
                for _ in 0..s.count() {
                    tys.push("type".into());
                }
            }
            Payload::ComponentSection { unchecked_range, .. } => {
                let body = &bytes[unchecked_range.start..unchecked_range.end];
                let key = packages.iter().find(|(_, b)| b.as_slice() == body).map(|(k, _)| k.clone()).unwrap_or_else(|| "?unknown-component".into());
                components.push(key);
                depth += 1;
            }
            Payload::ComponentAliasSection(s) => {
                for a in s {
                    match a.map_err(|e| e.to_string())? {
                        ComponentAlias::InstanceExport { kind, instance_index, name } => {
                            let src = instances.get(instance_index as usize).cloned().unwrap_or_else(|| "?bad-instance".into());
                            space(kind, &mut funcs, &mut instances, &mut components, &mut tys, &mut values, &mut modules).push(format!("{src}[{name}]"));
                        }
                        other => w.notes.push(format!("unexpected alias {other:?}")),
                    }
                }
            }
            Payload::ComponentInstanceSection(s) => {
                for i in s {
                    match i.map_err(|e| e.to_string())? {
                        ComponentInstance::Instantiate { component_index, args } => {
                            let key = components.get(component_index as usize).cloned().unwrap_or_else(|| "?bad-component".into());
                            let mut rendered: Vec<(String, String)> = Vec::new();
                            for a in args.iter() {
                                let sp = space(a.kind, &mut funcs, &mut instances, &mut components, &mut tys, &mut values, &mut modules);
                                let prov = sp.get(a.index as usize).cloned().unwrap_or_else(|| "?bad-index".into());
                                rendered.push((a.name.to_string(), format!("{}={}", a.name, prov)));
                            }
                            rendered.sort();
                            w.insts.push(format!("{key}{{{}}}", rendered.into_iter().map(|(_, s)| s).collect::<Vec<_>>().join(",")));
                            instances.push(format!("#{ninst}"));
                            ninst += 1;
                        }
                        ComponentInstance::FromExports(_) => {
                            w.notes.push("unexpected instance from exports".into());
                            instances.push("?from-exports".into());
                        }
                    }
                }
            }
            Payload::ComponentExportSection(s) => {
                for e in s {
                    let e = e.map_err(|e| e.to_string())?;
                    let name = e.name.0.to_string();
                    let sp = space(e.kind, &mut funcs, &mut instances, &mut components, &mut tys, &mut values, &mut modules);
                    let prov = sp.get(e.index as usize).cloned().unwrap_or_else(|| "?bad-index".into());
                    sp.push(prov.clone());
                    let ety = types.component_entity_type_of_export(&name).ok_or("no type for export")?;
                    w.exports.push((name, prov, entity_kind(&types, ety)));
                }
            }
            other => w.notes.push(format!("unexpected section {other:?}")),
        }
    }
    Ok(w)
}

pub fn counts(m: &mut BTreeMap<String, u64>, k: &str) {
    *m.entry(k.to_string()).or_insert(0) += 1;
}
